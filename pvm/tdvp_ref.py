"""
Independent reference implementation of the single-site projector-splitting integrator (Lubich, Oseledets, Vandereycken / Haegeman et al.) on plain dense
tensors: no quantum numbers, no Krylov spaces (dense local generators, scipy expm), orthogonal splittings by rank-revealing SVD (column / row SPACE of the
unfolded tensor, so that the result does not depend on any basis choice). Same second-order symmetric sweep as documented for integrate_local_singlesite:
half steps left-to-right with backward bond steps, a full step on the last site, and the mirror image back.

Used by C09 as a MECHANISM CLASSIFIER, not as an equality oracle: where this independent implementation of the documented algorithm reproduces
exp(-dt n H) psi, the repository must do so as well; where it does not, the deviation is the splitting error of the algorithm itself (known finding).
"""
import numpy as np
from scipy.linalg import expm

RANK_TOL = 1e-11


def _col_space(M):
    """M (m x n) = Q C with Q an orthonormal basis of the column space (m x r) and C = Q^H M."""
    U, S, Vh = np.linalg.svd(M, full_matrices=False)
    r = int(np.sum(S > RANK_TOL * max(S[0], 1e-300))) if S.size else 0
    r = max(r, 1)
    Q = U[:, :r]
    return Q, Q.conj().T @ M


def _left_env(BL, A, W):
    # BL[a, w, a'] ; A[s, a, c] ; W[s, t, w, x]  ->  BL'[c, x, c']
    T = np.tensordot(BL, A, axes=(2, 1))                   # a w t c'
    T = np.tensordot(T, W, axes=((1, 2), (2, 1)))          # a c' s x
    return np.tensordot(np.conj(A), T, axes=((0, 1), (2, 0))).transpose(0, 2, 1)    # c c' x -> c x c'


def _right_env(BR, A, W):
    # BR[b, x, b'] ; A[s, a, b] ; W[s, t, w, x]  ->  BR'[a, w, a']
    T = np.tensordot(A, BR, axes=(2, 2))                   # t a' b x
    T = np.tensordot(W, T, axes=((1, 3), (0, 3)))          # s w a' b
    return np.tensordot(np.conj(A), T, axes=((0, 2), (0, 3)))                         # a w a'


def _site_generator(BL, BR, W):
    """Dense H_eff[(s,a,b),(t,a',b')] = sum_{w,x} BL[a,w,a'] W[s,t,w,x] BR[b,x,b']."""
    T = np.tensordot(BL, W, axes=(1, 2))                   # a a' s t x
    T = np.tensordot(T, BR, axes=(4, 1))                   # a a' s t b b'
    T = T.transpose(2, 0, 4, 3, 1, 5)                      # s a b t a' b'
    n = T.shape[0] * T.shape[1] * T.shape[2]
    return T.reshape(n, n)


def _bond_generator(BL, BR):
    """Dense K_eff[(a,b),(a',b')] = sum_w BL[a,w,a'] BR[b,w,b']."""
    T = np.tensordot(BL, BR, axes=(1, 1))                  # a a' b b'
    T = T.transpose(0, 2, 1, 3)
    n = T.shape[0] * T.shape[1]
    return T.reshape(n, n)


def singlesite(W, A, dt, numsteps):
    """W: MPO tensors (d, d, Dl, Dr); A: MPS tensors (d, Dl, Dr). Returns (norm of the input, evolved tensors)."""
    L = len(A)
    A = [np.array(a, dtype=complex) for a in A]
    W = [np.array(w, dtype=complex) for w in W]
    # right-orthonormalise (row spaces), normalise
    for i in range(L - 1, 0, -1):
        d, Dl, Dr = A[i].shape
        M = A[i].transpose(1, 0, 2).reshape(Dl, d * Dr)
        Q, C = _col_space(M.T)                              # M^T = Q C  ->  M = C^T Q^T
        A[i] = Q.T.reshape(-1, d, Dr).transpose(1, 0, 2)
        A[i - 1] = np.tensordot(A[i - 1], C.T, axes=(2, 0))
    nrm = float(np.linalg.norm(A[0]))
    if nrm == 0:
        return 0.0, A
    A[0] = A[0] / nrm
    BR = [None] * L
    BR[L - 1] = np.ones((1, 1, 1), dtype=complex)
    for i in range(L - 1, 0, -1):
        BR[i - 1] = _right_env(BR[i], A[i], W[i])
    BL = [None] * L
    BL[0] = np.ones((1, 1, 1), dtype=complex)

    def site_step(i, tau):
        Hm = _site_generator(BL[i], BR[i], W[i])
        A[i] = (expm(-tau * Hm) @ A[i].reshape(-1)).reshape(A[i].shape)

    for _ in range(numsteps):
        for i in range(L - 1):
            site_step(i, 0.5 * dt)
            d, Dl, Dr = A[i].shape
            Q, C = _col_space(A[i].reshape(d * Dl, Dr))
            A[i] = Q.reshape(d, Dl, Q.shape[1])
            BL[i + 1] = _left_env(BL[i], A[i], W[i])
            K = _bond_generator(BL[i + 1], BR[i])
            C = (expm(0.5 * dt * K) @ C.reshape(-1)).reshape(C.shape)
            A[i + 1] = np.tensordot(C, A[i + 1], axes=(1, 1)).transpose(1, 0, 2)
        site_step(L - 1, dt)
        for i in range(L - 1, 0, -1):
            d, Dl, Dr = A[i].shape
            M = A[i].transpose(1, 0, 2).reshape(Dl, d * Dr)
            Q, C = _col_space(M.T)
            A[i] = Q.T.reshape(-1, d, Dr).transpose(1, 0, 2)
            C = C.T                                         # (Dl, r)
            BR[i - 1] = _right_env(BR[i], A[i], W[i])
            K = _bond_generator(BL[i], BR[i - 1])
            C = (expm(0.5 * dt * K) @ C.reshape(-1)).reshape(C.shape)
            A[i - 1] = np.tensordot(A[i - 1], C, axes=(2, 0))
            site_step(i - 1, 0.5 * dt)
    return nrm, A
