"""Helpers for the 'large' workloads: objects beyond the dense-oracle reach, compared through transfer-matrix contractions with probe states."""
import numpy as np

from . import gen, refs
from .env import ptn


def probes_near(rng, A, k=3, eps=0.3):
    """Probe states with an O(1) overlap with the state A (its tensors plus noise) and one plain random probe."""
    out = []
    for _ in range(k):
        out.append([np.asarray(a, dtype=complex) + eps * np.linalg.norm(a) / np.sqrt(max(a.size, 1)) * (np.random.default_rng(int(rng.integers(0, 2**31))).normal(size=a.shape)
                    + 1j * np.random.default_rng(int(rng.integers(0, 2**31))).normal(size=a.shape)) for a in A])
    return out


def big_state(rng, qd, L, Dmax, kind='complex'):
    for _ in range(20):
        psi = gen.rand_mps(rng, qd, L, 'random', Dmax=Dmax, kind=kind, q0=int(rng.integers(-1, 2)))
        if abs(refs.mps_overlap(psi.A, psi.A)) > 1e-30:
            return psi
    qd0 = np.zeros(len(qd), dtype=int)
    return gen.rand_mps(rng, qd0, L, 'random', Dmax=Dmax, kind=kind)


def norm_of(A):
    return float(np.sqrt(abs(refs.mps_overlap(A, A).real)))


def tensor_scale(A):
    return float(np.prod([max(float(np.linalg.norm(a)), 1e-300) for a in A]))


LARGE_MODELS = ['ising', 'xxz', 'xxz1', 'bose3']


def pick_large(rng):
    name = str(rng.choice(LARGE_MODELS))
    d = gen.MODEL_D[name]
    L = int(rng.integers(8, 15 if d == 2 else 11))
    return name, d, L, gen.model(name, L, gen.generic_params(rng))
