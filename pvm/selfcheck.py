"""setup_cmd: environment + self-tests of the reference models (a wrong oracle is worse than none)."""
import sys

import numpy as np


def main():
    from . import env, refs
    import scipy
    print('python', sys.version.split()[0], 'numpy', np.__version__, 'scipy', scipy.__version__, 'repo', env.REPO)
    # Fock operators: canonical anticommutation relations
    from scipy import sparse
    a = refs.fock_annihilators(4)
    I = sparse.identity(16)
    for i in range(4):
        for j in range(4):
            assert abs(a[i] @ a[j] + a[j] @ a[i]).max() == 0
            assert abs(a[i] @ a[j].T + a[j].T @ a[i] - (I if i == j else 0 * I)).max() == 0
    # a_0 on two modes, Z string to the right: a_0 = a (x) Z
    a2 = refs.fock_annihilators(2)
    aa = np.array([[0., 1.], [0., 0.]])
    Z = np.diag([1., -1.])
    assert np.array_equal(a2[0].toarray(), np.kron(aa, Z)) and np.array_equal(a2[1].toarray(), np.kron(np.identity(2), aa))
    # dense contraction vs hand-computed 2-site example
    A0 = np.arange(1, 5, dtype=float).reshape(2, 1, 2)
    A1 = np.arange(1, 5, dtype=float).reshape(2, 2, 1) * 1j
    v = refs.dense_state([A0, A1])
    ref = np.array([sum(A0[s, 0, b] * A1[t, b, 0] for b in range(2)) for s in range(2) for t in range(2)])
    assert np.allclose(v, ref)
    W0 = np.random.default_rng(0).normal(size=(2, 2, 1, 3))
    W1 = np.random.default_rng(1).normal(size=(2, 2, 3, 1))
    M = refs.dense_operator([W0, W1])
    ref = sum(np.kron(W0[:, :, 0, b], W1[:, :, b, 0]) for b in range(3))
    assert np.allclose(M, ref)
    # sector rule
    assert refs.sector_ok(np.array([[1, 0], [0, 2]]), [[0, 1], [0, 1]], [1, -1])
    assert not refs.sector_ok(np.array([[1, 3], [0, 2]]), [[0, 1], [0, 1]], [1, -1])
    # matching references agree with each other on random graphs and on a known case
    rng = np.random.default_rng(5)
    assert refs.max_matching_bruteforce(3, 3, [(0, 0), (1, 0), (2, 0)]) == 1
    assert refs.max_matching_kuhn(3, 3, [(0, 0), (0, 1), (1, 0), (2, 2)]) == 3
    for _ in range(300):
        nu, nv = int(rng.integers(1, 7)), int(rng.integers(1, 7))
        edges = [(int(u), int(v)) for u in range(nu) for v in range(nv) if rng.random() < 0.35]
        assert refs.max_matching_bruteforce(nu, nv, edges) == refs.max_matching_kuhn(nu, nv, edges)
    # polynomial algebra
    p = {(0, 1): 1.0, (1, 1): 2.0}
    assert refs.poly_add(p, p, -1) == {}
    assert refs.poly_reverse(p) == {(1, 0): 1.0, (1, 1): 2.0}
    X = np.array([[0., 1.], [1., 0.]])
    assert np.allclose(refs.poly_dense(p, 2, {0: np.identity(2), 1: X}, 2), np.kron(np.identity(2), X) + 2 * np.kron(X, X))
    # Schmidt rank: product operator has rank 1, XX+ZZ has rank 2
    Zm = np.diag([1., -1.])
    assert refs.operator_schmidt_rank(np.kron(X, Zm), 2, 2, 1) == 1
    assert refs.operator_schmidt_rank(np.kron(X, X) + np.kron(Zm, Zm), 2, 2, 1) == 2
    # manifold classifier: spin-1/2, L=2, total 0: bond has charges +1,-1 each once -> E
    assert refs.classify_manifold([1, -1], 2, 0, 0, [np.array([0]), np.array([1, -1]), np.array([0])]) == 'E'
    assert refs.classify_manifold([1, -1], 4, 0, 2, [np.array([0]), np.array([1, -1]), np.array([2, 0]), np.array([1, 3]), np.array([2])]) in ('M', 'N')
    # size-independent references agree with the dense ones
    from . import gen
    r2 = np.random.default_rng(11)
    a = gen.rand_mps(r2, [1, -1], 5, 'random', 4)
    b = gen.rand_mps(r2, [1, -1], 5, 'max', 4, qL=int(a.qD[-1][0]))
    Hx = gen.model('xxz', 5, (0.3, 1.1, -0.4))
    assert abs(refs.mps_overlap(a.A, b.A) - np.vdot(refs.dense_state(a.A), refs.dense_state(b.A))) < 1e-13
    assert abs(refs.mpo_element(a.A, Hx.A, b.A) - np.vdot(refs.dense_state(a.A), refs.dense_operator(Hx.A) @ refs.dense_state(b.A))) < 1e-13
    print('selfcheck ok')
    return 0


if __name__ == '__main__':
    sys.exit(main())
