"""
The contract layer: attaching pre/post monitors to the real functions by rebinding *every* binding of the
original function object inside the pytenet package (module attributes, `from .x import f` copies, class
attributes incl. classmethods), deep digests, alias scan, write-protection traps.
"""
import contextlib
import functools
import hashlib
import sys
import types

import numpy as np


def _pytenet_modules():
    return [m for name, m in list(sys.modules.items())
            if (name == 'pytenet' or name.startswith('pytenet.')) and m is not None]


def bindings_of(orig):
    """All (holder, attribute name, kind) places in the package where `orig` is bound."""
    out = []
    for mod in _pytenet_modules():
        for name, val in list(vars(mod).items()):
            if val is orig:
                out.append((mod, name, 'plain'))
            elif isinstance(val, type) and getattr(val, '__module__', '').startswith('pytenet'):
                for an, av in list(vars(val).items()):
                    if av is orig:
                        out.append((val, an, 'plain'))
                    elif isinstance(av, classmethod) and av.__func__ is orig:
                        out.append((val, an, 'classmethod'))
                    elif isinstance(av, staticmethod) and av.__func__ is orig:
                        out.append((val, an, 'staticmethod'))
    # de-duplicate (a class can be visible from several modules)
    seen = set()
    uniq = []
    for h, n, k in out:
        if (id(h), n) not in seen:
            seen.add((id(h), n))
            uniq.append((h, n, k))
    return uniq


class Attached:
    def __init__(self, orig, wrapper, places):
        self.orig = orig
        self.wrapper = wrapper
        self.places = places

    def detach(self):
        for holder, name, kind in self.places:
            if kind == 'classmethod':
                setattr(holder, name, classmethod(self.orig))
            elif kind == 'staticmethod':
                setattr(holder, name, staticmethod(self.orig))
            else:
                setattr(holder, name, self.orig)


def resolve(path):
    """'pytenet.bond_ops.qr' or 'pytenet.mps.MPS.orthonormalize' -> underlying function object."""
    parts = path.split('.')
    obj = sys.modules[parts[0]]
    i = 1
    while i < len(parts):
        nxt = parts[i]
        if isinstance(obj, types.ModuleType):
            sub = obj.__name__ + '.' + nxt
            if sub in sys.modules and not hasattr(obj, nxt):
                obj = sys.modules[sub]
            else:
                obj = getattr(obj, nxt)
        elif isinstance(obj, type):
            raw = vars(obj).get(nxt, None)
            if raw is None:
                raw = getattr(obj, nxt)
            if isinstance(raw, (classmethod, staticmethod)):
                raw = raw.__func__
            obj = raw
        else:
            obj = getattr(obj, nxt)
        i += 1
    return obj


def attach(path_or_func, around):
    """
    Replace every binding of the function by `wrapper(*a, **k) = around(orig, *a, **k)`.
    Returns an Attached handle; zero bindings found raises (a renamed helper must not pass silently).
    """
    orig = resolve(path_or_func) if isinstance(path_or_func, str) else path_or_func
    places = bindings_of(orig)
    if not places:
        raise LookupError(f'no binding of {path_or_func} found in pytenet')

    @functools.wraps(orig)
    def wrapper(*a, **k):
        return around(orig, *a, **k)
    wrapper.__pvm_orig__ = orig
    for holder, name, kind in places:
        if kind == 'classmethod':
            setattr(holder, name, classmethod(wrapper))
        elif kind == 'staticmethod':
            setattr(holder, name, staticmethod(wrapper))
        else:
            setattr(holder, name, wrapper)
    return Attached(orig, wrapper, places)


@contextlib.contextmanager
def attached(path_or_func, around):
    h = attach(path_or_func, around)
    try:
        yield h
    finally:
        h.detach()


# ---------------------------------------------------------------------------------------------------
# GUARD helpers: deep digest, reachability, alias scan, write protection
# ---------------------------------------------------------------------------------------------------

def digest(obj):
    """Deep, structure-aware digest: bytes/shape/dtype of every array, structure and type of every container."""
    h = hashlib.sha256()
    seen = {}

    def rec(o, depth=0):
        if depth > 60:
            h.update(b'<deep>')
            return
        if isinstance(o, np.ndarray):
            h.update(b'A' + str((o.shape, o.dtype.str)).encode())
            if o.dtype == object:
                for x in o.reshape(-1):
                    rec(x, depth + 1)
            else:
                h.update(np.ascontiguousarray(o).tobytes())
        elif isinstance(o, dict):
            h.update(b'{')
            for k in sorted(o, key=repr):
                h.update(repr(k).encode())
                rec(o[k], depth + 1)
            h.update(b'}')
        elif isinstance(o, (list, tuple)):
            h.update(b'[' if isinstance(o, list) else b'(')
            for x in o:
                rec(x, depth + 1)
            h.update(b']')
        elif isinstance(o, (set, frozenset)):
            h.update(b'S')
            for x in sorted(o, key=repr):
                rec(x, depth + 1)
        elif isinstance(o, (int, float, complex, str, bytes, bool, type(None), np.generic)):
            h.update(type(o).__name__.encode() + repr(o).encode())
        elif callable(o) and not hasattr(o, '__dict__'):
            h.update(b'<callable>')
        elif isinstance(o, (types.FunctionType, types.BuiltinFunctionType, types.MethodType)):
            h.update(b'<function>')
        elif hasattr(o, '__dict__'):
            if id(o) in seen:
                h.update(b'<cycle>')
                return
            seen[id(o)] = True
            h.update(b'O' + type(o).__name__.encode())
            rec(vars(o), depth + 1)
        else:
            h.update(repr(o).encode())
    rec(obj)
    return h.hexdigest()


def reach(obj):
    """All ndarrays and all mutable container objects reachable from `obj`."""
    seen = set()
    arrs = []
    conts = []

    def rec(o, depth=0):
        if id(o) in seen or depth > 60:
            return
        seen.add(id(o))
        if isinstance(o, np.ndarray):
            arrs.append(o)
            if o.dtype == object:
                for x in o.reshape(-1):
                    rec(x, depth + 1)
        elif isinstance(o, dict):
            conts.append(o)
            for x in o.values():
                rec(x, depth + 1)
        elif isinstance(o, (list, set)):
            conts.append(o)
            for x in o:
                rec(x, depth + 1)
        elif isinstance(o, tuple):
            for x in o:
                rec(x, depth + 1)
        elif isinstance(o, (int, float, complex, str, bytes, bool, type(None), np.generic)):
            return
        elif isinstance(o, (types.FunctionType, types.BuiltinFunctionType, types.MethodType, type)):
            return
        elif hasattr(o, '__dict__'):
            conts.append(o)
            rec(vars(o), depth + 1)
    rec(obj)
    return arrs, conts


def aliases(result, operands):
    """Arrays of `result` sharing memory with an operand array; mutable containers shared by identity."""
    ra, rc = reach(result)
    out = []
    for k, o in enumerate(operands):
        oa, oc = reach(o)
        for a in ra:
            if a.size == 0:
                continue
            for b in oa:
                if b.size and np.shares_memory(a, b):
                    out.append(('array', k, tuple(a.shape)))
        ids = {id(c) for c in oc}
        for c in rc:
            if id(c) in ids:
                out.append(('container', k, type(c).__name__))
    return out


@contextlib.contextmanager
def write_protected(*objs):
    """Set every reachable, owning, writeable array read-only for the duration; restore afterwards."""
    changed = []
    for o in objs:
        arrs, _ = reach(o)
        for a in arrs:
            if a.flags.writeable:
                try:
                    a.flags.writeable = False
                    changed.append(a)
                except ValueError:
                    pass
    try:
        yield len(changed)
    finally:
        for a in changed:
            try:
                a.flags.writeable = True
            except ValueError:
                pass


# ---------------------------------------------------------------------------------------------------
# step-budget watchdog (termination claims decided on logical steps, not wall-clock)
# ---------------------------------------------------------------------------------------------------

class StepBudgetExceeded(Exception):
    pass


class StepCounter:
    """
    Counts PY_START + JUMP + BRANCH events (function entries, loop back-edges, loop/branch decisions) inside the code
    objects of one module, using sys.monitoring local events (no cost elsewhere). `budget` may be reset per call;
    when exceeded, StepBudgetExceeded is raised inside the monitored code.
    """
    def __init__(self, module):
        self.mon = sys.monitoring
        self.tool = self.mon.DEBUGGER_ID
        self.module = module
        self.count = 0
        self.budget = None
        self.codes = []
        self.active = False

    def _collect(self):
        seen = set()

        def walk(code):
            if id(code) in seen:
                return
            seen.add(id(code))
            self.codes.append(code)
            for c in code.co_consts:
                if isinstance(c, types.CodeType):
                    walk(c)
        for val in vars(self.module).values():
            f = getattr(val, '__pvm_orig__', val)
            if isinstance(f, types.FunctionType) and f.__code__.co_filename == self.module.__file__:
                walk(f.__code__)
            elif isinstance(val, type) and getattr(val, '__module__', None) == self.module.__name__:
                for av in vars(val).values():
                    g = getattr(av, '__func__', av)
                    g = getattr(g, '__pvm_orig__', g)
                    if isinstance(g, types.FunctionType):
                        walk(g.__code__)

    def _cb(self, *args):
        self.count += 1
        if self.budget is not None and self.count > self.budget:
            b = self.budget
            self.budget = None
            raise StepBudgetExceeded(f'more than {b} logical steps')

    def __enter__(self):
        self._collect()
        ev = self.mon.events
        self.mon.use_tool_id(self.tool, 'pvm-steps')
        for e in (ev.PY_START, ev.JUMP, ev.BRANCH):
            self.mon.register_callback(self.tool, e, self._cb)
        for code in self.codes:
            self.mon.set_local_events(self.tool, code, ev.PY_START | ev.JUMP | ev.BRANCH)
        self.active = True
        return self

    def __exit__(self, *exc):
        ev = self.mon.events
        for code in self.codes:
            self.mon.set_local_events(self.tool, code, 0)
        for e in (ev.PY_START, ev.JUMP, ev.BRANCH):
            self.mon.register_callback(self.tool, e, None)
        self.mon.free_tool_id(self.tool)
        self.active = False
        return False

    def start(self, budget):
        self.count = 0
        self.budget = budget
