"""
Environment of a check run: locates the repository, imports pytenet from its *current working tree*
(never from an installed copy or a bytecode cache), exposes seed / tier and per-case random generators.
"""
import os
import sys
import zlib
import warnings

sys.dont_write_bytecode = True

VERIF_DIR = os.path.dirname(os.path.dirname(os.path.abspath(__file__)))
REPO = os.environ.get('PYTENET_REPO', '/repo')

if REPO not in sys.path:
    sys.path.insert(0, REPO)

import numpy as np  # noqa: E402

# the Krylov breakdown path warns by design; recorded as events by the monitors that care
warnings.simplefilter('ignore')
np.seterr(all='ignore')

import pytenet as ptn  # noqa: E402

_loaded_from = os.path.dirname(os.path.dirname(os.path.abspath(ptn.__file__)))
if os.path.realpath(_loaded_from) != os.path.realpath(REPO):
    raise RuntimeError(f'pytenet imported from {_loaded_from}, expected the working tree {REPO}')


def seed() -> int:
    try:
        return int(os.environ.get('VERIF_SEED', '0'))
    except ValueError:
        return 0


def tier(default='quick') -> str:
    t = os.environ.get('VERIF_TIER', default)
    return t if t in ('quick', 'thorough') else default


def key_hash(*keys) -> int:
    return zlib.crc32(repr(keys).encode())


def case_rng(pid: str, workload: str, idx: int, s: int = None) -> np.random.Generator:
    """Independent generator per (seed, property, workload, case index): any case is replayable alone."""
    if s is None:
        s = seed()
    return np.random.default_rng([abs(int(s)) % (2**32), key_hash(pid, workload), int(idx)])


def ncores() -> int:
    try:
        return max(1, min(16, len(os.sched_getaffinity(0))))
    except AttributeError:
        return max(1, min(16, os.cpu_count() or 1))
