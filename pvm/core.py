"""
Run context of one check: counters, monitors' statistics, verdict (held / violated / inconclusive),
known-findings handling, replay files, evidence JSON, sharding.
"""
import base64
import collections
import json
import math
import os
import subprocess
import sys
import time
import traceback

import numpy as np

from . import env
from . import cover

EVID_DIR = os.environ.get('PVM_EVID_DIR') or os.path.join(env.VERIF_DIR, 'evidence')
REPLAY_DIR = os.environ.get('PVM_REPLAY_DIR') or os.path.join(env.VERIF_DIR, 'replays')
KNOWN_FILE = os.path.join(env.VERIF_DIR, 'known_findings.json')

MAX_REPLAYS = 12
MAX_SAMPLES = 6


class CaseAbort(Exception):
    """Raised by a monitor to abandon the current case after a violation was recorded."""


def jsonable(o, depth=0):
    """Nested lists / base64-free plain JSON of arrays and containers (used for samples and replays)."""
    if depth > 8:
        return repr(o)[:200]
    if isinstance(o, np.ndarray):
        if o.size > 400:
            return {'ndarray': list(o.shape), 'dtype': str(o.dtype),
                    'b64': base64.b64encode(np.ascontiguousarray(o).tobytes()).decode()}
        if np.iscomplexobj(o):
            return {'ndarray': list(o.shape), 'dtype': str(o.dtype),
                    're': o.real.tolist(), 'im': o.imag.tolist()}
        return o.tolist()
    if isinstance(o, (np.integer,)):
        return int(o)
    if isinstance(o, (np.floating,)):
        return float(o)
    if isinstance(o, (np.complexfloating, complex)):
        return [float(o.real), float(o.imag)]
    if isinstance(o, (np.bool_,)):
        return bool(o)
    if isinstance(o, dict):
        return {str(k): jsonable(v, depth + 1) for k, v in o.items()}
    if isinstance(o, (list, tuple, set, frozenset)):
        return [jsonable(v, depth + 1) for v in o]
    if isinstance(o, (str, int, float, bool)) or o is None:
        if isinstance(o, float) and not math.isfinite(o):
            return repr(o)
        return o
    return repr(o)[:300]


def load_known():
    try:
        with open(KNOWN_FILE) as f:
            return json.load(f)
    except FileNotFoundError:
        return []


class Ctx:
    def __init__(self, pid, tier, seed, shard=(0, 1), replay=None):
        self.pid = pid
        self.tier = tier
        self.seed = seed
        self.shard = shard
        self.replaying = replay
        self.t0 = time.time()
        self.evals = 0
        self.sigs = collections.Counter()          # class signature -> count (all cases)
        self.nontrivial = set()                    # distinct signatures among non-trivial cases
        self.classes = collections.Counter()       # label -> count
        self.mon = {}                              # monitor -> {checks, fails, maxdev, tol, in_situ, skipped}
        self.events = collections.Counter()        # warnings / FP events / misc counters
        self.violations = []
        self.known_seen = collections.Counter()
        self.known_what = {}
        self.samples = []
        self.exhaustive = []
        self.inconclusive = []
        self.workloads = collections.Counter()
        self.cur = ('-', -1)
        self.cur_info = None
        self._known_open = {e['key']: e for e in load_known()
                            if e.get('status') == 'open' and e.get('property') == pid}
        self._case_failed = False
        self.coverage = {}
        self._held_old = []
        self._held_new = []

    # ---- cases -------------------------------------------------------------------------------
    def case(self, sig, nontrivial=True, sample=None, info=None):
        """Register one explored case with its class signature (tuple of labels)."""
        sig = tuple(str(s) for s in sig)
        self.evals += 1
        self.sigs[sig] += 1
        if nontrivial:
            self.nontrivial.add(sig)
        for lab in sig:
            self.classes[lab] += 1
        self.cur_info = info if info is not None else sample
        if sample is not None and len(self.samples) < MAX_SAMPLES and self.sigs[sig] == 1:
            self.samples.append({'workload': self.cur[0], 'index': self.cur[1], 'class': list(sig),
                                 'case': jsonable(sample)})

    def case_bulk(self, sig, n, nontrivial=True):
        """Register n explored cases of one class at once (tight enumeration loops)."""
        sig = tuple(str(s) for s in sig)
        self.evals += n
        self.sigs[sig] += n
        if nontrivial and n:
            self.nontrivial.add(sig)
        for lab in sig:
            self.classes[lab] += n

    def count_n(self, mon, n, in_situ=False):
        m = self._m(mon)
        m['checks'] += n
        if in_situ:
            m['in_situ'] += n

    def hold(self, fn):
        """Register a re-verification of a result obtained in this case; it is run after the NEXT case of the run has made its own calls
        (a result must stay valid when later calls are made: no shared output buffers, no caches handing out the same arrays)."""
        self._held_new.append((self.cur, fn))

    def run_held(self):
        old, self._held_old, self._held_new = self._held_old, self._held_new, []
        for cur, fn in old:
            save = self.cur
            self.cur = (cur[0], cur[1])
            try:
                fn()
            except CaseAbort:
                pass
            finally:
                self.cur = save

    def event(self, name, n=1):
        self.events[name] += n

    # ---- monitors ----------------------------------------------------------------------------
    def _m(self, mon):
        m = self.mon.get(mon)
        if m is None:
            m = self.mon[mon] = {'checks': 0, 'fails': 0, 'maxdev': 0.0, 'tol': None, 'worst_dev_over_tol': 0.0,
                                  'in_situ': 0, 'skipped': 0}
        return m

    def count(self, mon, in_situ=False):
        m = self._m(mon)
        m['checks'] += 1
        if in_situ:
            m['in_situ'] += 1

    def skip(self, mon):
        self._m(mon)['skipped'] += 1

    def ok(self, mon, cond, msg='', detail=None, in_situ=False):
        """Boolean check."""
        m = self._m(mon)
        m['checks'] += 1
        if in_situ:
            m['in_situ'] += 1
        if not cond:
            m['fails'] += 1
            self.fail(mon, msg or 'condition false', detail)
            return False
        return True

    def close(self, mon, dev, tol, msg='', detail=None, in_situ=False):
        """Numerical check dev <= tol (dev must be finite)."""
        m = self._m(mon)
        m['checks'] += 1
        if in_situ:
            m['in_situ'] += 1
        m['tol'] = tol
        try:
            dev = float(dev)
        except (TypeError, ValueError):
            dev = float('nan')
        if math.isfinite(dev):
            if dev > m['maxdev']:
                m['maxdev'] = dev
            if tol > 0 and dev / tol > m['worst_dev_over_tol']:
                m['worst_dev_over_tol'] = dev / tol
        if not (math.isfinite(dev) and dev <= tol):
            m['fails'] += 1
            self.fail(mon, f'{msg} deviation {dev:.3e} > tol {tol:.1e}', detail)
            return False
        return True

    def fail(self, mon, msg, detail=None):
        self._case_failed = True
        wl, idx = self.cur
        rec = {'property': self.pid, 'monitor': mon, 'message': msg, 'workload': wl, 'index': idx,
               'seed': self.seed, 'tier': self.tier}
        path = None
        if len(self.violations) < MAX_REPLAYS and not self.replaying:
            os.makedirs(REPLAY_DIR, exist_ok=True)
            safe = ''.join(c if c.isalnum() or c in '-_' else '_' for c in f'{self.pid}-{wl}-{idx}-{mon}')[:120]
            path = os.path.join(REPLAY_DIR, safe + '.json')
            full = dict(rec)
            full['case'] = jsonable(self.cur_info)
            full['detail'] = jsonable(detail)
            full['stack'] = ''.join(traceback.format_stack(limit=12))
            try:
                with open(path, 'w') as f:
                    json.dump(full, f, indent=1)
            except OSError:
                path = None
        elif self.replaying:
            path = self.replaying
        rec['replay'] = path or (self.violations[0].get('replay') if self.violations else None)
        self.violations.append(rec)
        if len(self.violations) <= MAX_REPLAYS:
            print(f'VIOLATION property={self.pid} replay={rec["replay"]}  [{mon}] {msg}', flush=True)

    def known(self, key, what, detail=None):
        """
        A deviation whose *mechanism* (decided by the caller from input structure only) is a listed open
        finding is counted and reported as KNOWN-FINDING; anything else is a violation.
        """
        if key in self._known_open:
            self.known_seen[key] += 1
            self.known_what.setdefault(key, what)
            return True
        self.fail('unlisted-finding:' + key, what, detail)
        return False

    def mark_inconclusive(self, reason):
        self.inconclusive.append(reason)

    # ---- serialisation -----------------------------------------------------------------------
    def to_dict(self):
        return {
            'evals': self.evals,
            'sigs': [[list(k), v] for k, v in self.sigs.items()],
            'nontrivial': [list(k) for k in self.nontrivial],
            'classes': dict(self.classes), 'mon': self.mon, 'events': dict(self.events),
            'violations': self.violations, 'known_seen': dict(self.known_seen), 'known_what': self.known_what,
            'samples': self.samples, 'exhaustive': self.exhaustive, 'inconclusive': self.inconclusive,
            'workloads': dict(self.workloads), 'coverage': self.coverage,
        }

    def merge(self, d):
        self.evals += d['evals']
        for k, v in d['sigs']:
            self.sigs[tuple(k)] += v
        for k in d['nontrivial']:
            self.nontrivial.add(tuple(k))
        self.classes.update(d['classes'])
        for name, m in d['mon'].items():
            t = self._m(name)
            for f in ('checks', 'fails', 'in_situ', 'skipped'):
                t[f] += m[f]
            t['maxdev'] = max(t['maxdev'], m['maxdev'])
            t['worst_dev_over_tol'] = max(t['worst_dev_over_tol'], m.get('worst_dev_over_tol', 0.0))
            if m['tol'] is not None:
                t['tol'] = m['tol']
        self.events.update(d['events'])
        self.violations += d['violations']
        self.known_seen.update(d['known_seen'])
        for k, v in d['known_what'].items():
            self.known_what.setdefault(k, v)
        for s in d['samples']:
            if len(self.samples) < MAX_SAMPLES:
                self.samples.append(s)
        for e in d['exhaustive']:
            if e not in self.exhaustive:
                self.exhaustive.append(e)
        self.inconclusive += d['inconclusive']
        self.workloads.update(d['workloads'])
        for k, v in d.get('coverage', {}).items():
            self.coverage[k] = sorted(set(self.coverage.get(k, [])) | set(v))

    # ---- verdict -----------------------------------------------------------------------------
    def finish(self, spec):
        """Write evidence, print verdict lines, return the exit code."""
        wall = time.time() - self.t0
        # deciding monitors never evaluated => inconclusive
        for name in spec.get('deciding', []):
            if self.mon.get(name, {}).get('checks', 0) == 0:
                self.inconclusive.append(f'deciding monitor {name} was never evaluated')
        if len(self.nontrivial) < 2 and not self.replaying:
            self.inconclusive.append('fewer than 2 distinct non-trivial cases')
        for key, n in sorted(self.known_seen.items()):
            print(f'KNOWN-FINDING: property={self.pid} {key} — {self.known_what.get(key, "")} '
                  f'(observed {n}x in this run)')
        code = 0
        if self.violations:
            code = 1
        elif self.inconclusive:
            code = 2
            for r in sorted(set(self.inconclusive)):
                print(f'INCONCLUSIVE property={self.pid} reason={r}')
        if not self.replaying:
            ev = {
                'property_id': self.pid, 'tier': self.tier, 'seed': self.seed, 'level': 'exploration',
                'coverage': {
                    'evaluations': int(self.evals),
                    'distinct_nontrivial': int(len(self.nontrivial)),
                    'rule': spec.get('rule', ''),
                    'samples': self.samples if self.samples else [{'note': 'no sample recorded'}],
                    'exhaustive': bool(spec.get('exhaustive_all', False)),
                    'exhaustive_subspaces': self.exhaustive,
                    'workloads': dict(self.workloads),
                    'monitors': {k: {kk: (vv if not isinstance(vv, float) else float(f'{vv:.3e}'))
                                     for kk, vv in v.items()} for k, v in sorted(self.mon.items())},
                    'input_classes': dict(sorted(self.classes.items(), key=lambda kv: -kv[1])[:80]),
                    'distinct_signatures_all': len(self.sigs),
                    'known_findings_seen': dict(self.known_seen),
                    'fp_and_warning_events': dict(self.events),
                    'anchor_coverage': cover.summarise(self.coverage),
                    'verdict': {0: 'held on everything monitored', 1: 'violated', 2: 'inconclusive'}[code],
                    'inconclusive_reasons': sorted(set(self.inconclusive)),
                    'violation_list': [{k: v[k] for k in ('monitor', 'message', 'workload', 'index', 'replay')}
                                       for v in self.violations[:20]],
                    'repo': env.REPO,
                },
                'assumptions': spec.get('assumptions', []),
                'wall_s': round(wall, 2),
                'violations': len(self.violations),
            }
            os.makedirs(EVID_DIR, exist_ok=True)
            with open(os.path.join(EVID_DIR, f'{self.pid}.json'), 'w') as f:
                json.dump(ev, f, indent=1)
        nmon = sum(m['checks'] for m in self.mon.values())
        print(f'{self.pid} tier={self.tier} seed={self.seed}: {self.evals} cases, '
              f'{len(self.nontrivial)} distinct non-trivial classes, {nmon} monitor evaluations, '
              f'{len(self.violations)} violations, {wall:.1f}s -> exit {code}')
        return code


class Workload:
    """
    `count(tier)` cases, each run as `fn(ctx, idx, rng)`; `exhaustive` (optional) describes the finite space
    that is enumerated completely when the count covers it.
    """
    def __init__(self, name, fn, quick, thorough, exhaustive=None, shardable=True):
        self.name = name
        self.fn = fn
        self.n = {'quick': quick, 'thorough': thorough}
        self.exhaustive = exhaustive
        self.shardable = shardable

    def count(self, tier):
        n = self.n[tier]
        return n() if callable(n) else n


def run_workloads(ctx, spec, only=None):
    """Run this shard's part of every workload of the property (line coverage of the anchored files recorded meanwhile)."""
    cov = cover.LineCoverage(cover.anchored_files(ctx.pid))
    cov.start()
    try:
        _run_workloads(ctx, spec, only)
    finally:
        cov.stop()
        for k, v in cov.result().items():
            ctx.coverage[k] = sorted(set(ctx.coverage.get(k, [])) | set(v))


def _run_workloads(ctx, spec, only=None):
    si, sn = ctx.shard
    dev_only = os.environ.get('PVM_ONLY')       # development aid: restrict to some workloads (never used by registered commands)
    if dev_only and 'PVM_EVID_DIR' not in os.environ:
        raise SystemExit('PVM_ONLY needs PVM_EVID_DIR (partial runs must not overwrite the evidence)')
    for wl in spec['workloads']:
        if only and wl.name != only[0]:
            continue
        if dev_only and wl.name not in dev_only.split(','):
            continue
        n = wl.count(ctx.tier)
        if only:
            idxs = [only[1]]
        elif wl.shardable:
            idxs = range(si, n, sn)
        else:
            idxs = range(n) if si == 0 else []
        for idx in idxs:
            ctx.cur = (wl.name, idx)
            ctx.cur_info = None
            ctx._case_failed = False
            rng = env.case_rng(ctx.pid, wl.name, idx, ctx.seed)
            try:
                wl.fn(ctx, idx, rng)
            except CaseAbort:
                pass
            except Exception as e:      # an exception escaping a legal workload is a finding in itself
                tb = traceback.format_exc(limit=12)
                in_repo = any(env.REPO in (fr.filename or '') for fr in traceback.extract_tb(e.__traceback__))
                if in_repo:
                    ctx.fail('no-exception', f'{type(e).__name__}: {str(e)[:200]}', {'traceback': tb})
                else:
                    # a crash of the harness itself is not evidence about the property
                    ctx.mark_inconclusive(f'harness error in {wl.name}[{idx}]: {type(e).__name__}: {str(e)[:120]}')
                    if ctx.events['harness_errors'] < 3:
                        print(tb, file=sys.stderr)
                    ctx.event('harness_errors')
            ctx.workloads[wl.name] += 1
            try:
                ctx.run_held()
            except Exception as e:
                ctx.mark_inconclusive(f'harness error in held re-verification: {type(e).__name__}: {str(e)[:100]}')
        if wl.exhaustive and not only and n > 0:
            e = dict(wl.exhaustive)
            e['workload'] = wl.name
            e['cases'] = n
            if e not in ctx.exhaustive:
                ctx.exhaustive.append(e)


def run_property(spec, tier, seed, shard=None, out=None, replay=None, nshards=None):
    pid = spec['id']
    if replay:
        with open(replay) as f:
            rec = json.load(f)
        ctx = Ctx(pid, rec.get('tier', tier), rec.get('seed', seed), replay=replay)
        setup = spec.get('setup')
        if setup:
            setup(ctx)
        run_workloads(ctx, spec, only=(rec['workload'], rec['index']))
        return ctx.finish(spec)

    if shard is not None:
        ctx = Ctx(pid, tier, seed, shard=shard)
        setup = spec.get('setup')
        if setup:
            setup(ctx)
        run_workloads(ctx, spec)
        with open(out, 'w') as f:
            json.dump(ctx.to_dict(), f)
        return 0

    n = nshards if nshards is not None else (spec.get('shards', {}).get(tier, 1))
    n = max(1, min(n, env.ncores()))
    ctx = Ctx(pid, tier, seed)
    if n == 1:
        setup = spec.get('setup')
        if setup:
            setup(ctx)
        run_workloads(ctx, spec)
        return ctx.finish(spec)

    # fan out: one subprocess per shard (no multiprocessing.Pool: a dying child must not hang the run)
    sdir = os.path.join(EVID_DIR, '.shards')
    os.makedirs(sdir, exist_ok=True)
    procs = []
    budget = spec.get('watchdog_s', {}).get(tier, 3600)
    for i in range(n):
        o = os.path.join(sdir, f'{pid}-{os.getpid()}-{i}.json')
        cmd = [sys.executable, '-B', '-m', 'pvm.cli', pid, '--tier', tier, '--shard', f'{i}/{n}', '--out', o]
        e = dict(os.environ)
        e['VERIF_SEED'] = str(seed)
        e['PYTHONPATH'] = env.VERIF_DIR + os.pathsep + e.get('PYTHONPATH', '')
        e.setdefault('OMP_NUM_THREADS', '1')
        e.setdefault('OPENBLAS_NUM_THREADS', '1')
        e.setdefault('MKL_NUM_THREADS', '1')
        procs.append((i, o, subprocess.Popen(cmd, env=e, cwd=env.VERIF_DIR)))
    deadline = time.time() + budget
    for i, o, p in procs:
        try:
            rc = p.wait(timeout=max(1, deadline - time.time()))
        except subprocess.TimeoutExpired:
            p.kill()
            ctx.mark_inconclusive(f'shard {i} hit the wall-clock watchdog ({budget}s)')
            continue
        if rc != 0 or not os.path.exists(o):
            ctx.mark_inconclusive(f'shard {i} exited with status {rc}')
            continue
        with open(o) as f:
            ctx.merge(json.load(f))
        os.remove(o)
    for i, o, p in procs:
        if os.path.exists(o):
            os.remove(o)
    return ctx.finish(spec)
