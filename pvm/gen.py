"""
Seeded generators of hostile inputs. Every generator returns the object plus a tuple of class labels.
"""
import numpy as np

from .env import ptn

# ---------------------------------------------------------------------------------------------------
# quantum-number layouts
# ---------------------------------------------------------------------------------------------------

QLAYOUTS = ['zero', 'sorted', 'unsorted', 'repeated', 'big', 'pairs', 'negative']


def qvec(rng, n, kind, r=2):
    if kind == 'zero':
        return np.zeros(n, dtype=int)
    if kind == 'sorted':
        return np.sort(rng.integers(-r, r + 1, size=n))
    if kind == 'unsorted':
        return rng.integers(-r, r + 1, size=n)
    if kind == 'repeated':
        return np.full(n, int(rng.integers(-r, r + 1)))
    if kind == 'big':
        return rng.integers(-2, 3, size=n) * 10**9
    if kind == 'pairs':
        return (rng.integers(-1, 2, size=n) << 16) + rng.integers(-1, 2, size=n)
    if kind == 'huge':
        # charges beyond 2**53 that differ by one or two units: not representable as (distinct) doubles
        base = int(rng.choice([(1 << 53) + 1, (1 << 60) + 12345, 10 ** 18 + 7, -(1 << 61) - 3]))
        return base + rng.integers(-r, r + 1, size=n).astype(np.int64)
    if kind == 'extreme-signs':
        # charges near +2**62 and -2**62 next to each other and next to small ones: differences of neighbours overflow int64
        pool = np.array([(1 << 62) + 5, -(1 << 62) - 7, 0, 1, (1 << 62) + 6, -(1 << 62) - 8], dtype=np.int64)
        return pool[rng.integers(0, len(pool), size=n)]
    if kind in ('wrap-sorted', 'wrap-sorted-int8'):
        # ascending runs joined by descents so large that the DIFFERENCE of the neighbours overflows the integer type (an ascent after wrap-around):
        # looks sorted to np.diff(q) >= 0, is not sorted
        if kind == 'wrap-sorted':
            hi, lo, dt = [(1 << 62) + 5, (1 << 62) + 6], [-(1 << 62) - 8, -(1 << 62) - 7], np.int64
        else:
            hi, lo, dt = [100, 127], [-128, -100], np.int8
        mid = [0, 1]
        n1 = int(rng.integers(1, max(2, n)))
        r1 = sorted(int(x) for x in rng.choice(mid + hi, size=n1))
        r1[-1] = int(rng.choice(hi))
        r2 = sorted(int(x) for x in rng.choice(lo + mid + hi, size=max(n - n1, 0)))
        if r2:
            r2[0] = int(rng.choice(lo))
        return np.array((r1 + r2)[:n], dtype=dt)
    if kind == 'many-sectors':
        # up to ~90 distinct charges (many small sectors): anything with a limit on the number of sectors
        return rng.integers(-45, 46, size=n)
    if kind == 'int8-small':
        # ordinary small charges stored as int8 (products with the bond dimension overflow for bonds >= 64)
        return rng.integers(-2, 3, size=n).astype(np.int8)
    if kind == 'int8':
        # labels stored in a narrow integer type with values near its limits (differences of neighbours overflow int8)
        return rng.choice(np.array([-120, -100, 0, 1, 100, 127]), size=n).astype(np.int8)
    if kind == 'negative':
        return -rng.integers(0, 2 * r + 1, size=n)
    if kind == 'descending':
        # non-increasing with repeated values (a reversal sorts it only if all values are distinct; a stable sort keeps the order inside a sector)
        return np.sort(rng.integers(-r, r + 1, size=n))[::-1].copy()
    if kind == 'aliased':
        # distinct charges that coincide modulo 2**32 / 2**16 / 2**31 / 2**53, interleaved: composite sort keys, narrowed copies, float round trips and
        # hashes truncated to a machine word confuse them
        b = int(rng.integers(-3, 6))
        step = int(rng.choice([1 << 32, 1 << 32, 1 << 16, 1 << 31, 1 << 53, 1 << 8]))
        pool = np.array([b, b + step, b - step, b + 2 * step, b + 1, b + 1 + step], dtype=np.int64)
        return pool[rng.integers(0, int(rng.integers(2, len(pool) + 1)), size=n)]
    if kind == 'pm-boundary':
        # wide-integer labels sitting exactly ON the boundary of a narrower type, with both signs, interleaved: +128 / -128, +32768 / -32768, +-2**31 --
        # -128 fits into int8, +128 wraps to -128; a narrowed copy used for sorting or hashing merges the two charges
        c = int(rng.choice([128, 128, 32768, 32768, 1 << 31]))
        pool = np.array([c, -c, c - 1, -c + 1, 0, c, -c], dtype=np.int64)
        return pool[rng.integers(0, int(rng.integers(2, len(pool) + 1)), size=n)]
    if kind == 'int-extremes':
        # labels at the limits of their integer type (largest / smallest representable value and their neighbours): q + 1, -q, q1 - q0 wrap around
        dt = [np.int8, np.int16, np.int32, np.int64][int(rng.integers(0, 4))]
        ii = np.iinfo(dt)
        pool = np.array([ii.max, ii.max - 1, ii.max - 2, 0, 1, ii.min + 1, ii.min + 2][:int(rng.integers(3, 8))], dtype=dt)
        return pool[rng.integers(0, len(pool), size=n)]
    raise ValueError(kind)


def entries(rng, shape, kind):
    if kind == 'mixed':
        # per-tensor dtype drawn independently (objects whose sites have different dtypes)
        kind = str(rng.choice(['complex', 'real', 'int', 'real']))
    if kind == 'complex':
        return rng.normal(size=shape) + 1j * rng.normal(size=shape)
    if kind == 'real':
        return rng.normal(size=shape)
    if kind == 'int':
        return rng.integers(-3, 4, size=shape)
    if kind == 'float32':
        return rng.normal(size=shape).astype(np.float32)
    if kind == 'complex64':
        return (rng.normal(size=shape) + 1j * rng.normal(size=shape)).astype(np.complex64)
    if kind == 'complex-be':
        # non-native byte order (e.g. data read from a big-endian file): same values, dtype('>c16') != complex
        return (rng.normal(size=shape) + 1j * rng.normal(size=shape)).astype('>c16')
    if kind == 'real-be':
        return rng.normal(size=shape).astype('>f8')
    if kind == 'longdouble':
        return rng.normal(size=shape).astype(np.longdouble)
    raise ValueError(kind)


def complex_orthogonal(rng, n):
    """n x n matrix O with O^T O = 1 to rounding but O^H O != 1: a real orthogonal matrix times a direct sum of 2x2 blocks [[cosh t, i sinh t], [-i sinh t, cosh t]]."""
    G = np.identity(n, dtype=complex)
    for j in range(0, n - 1, 2):
        t = float(rng.uniform(0.3, 1.0)) * float(rng.choice([-1, 1]))
        G[j:j + 2, j:j + 2] = [[np.cosh(t), 1j * np.sinh(t)], [-1j * np.sinh(t), np.cosh(t)]]
    R = np.linalg.qr(rng.normal(size=(n, n)))[0] if n > 1 else np.ones((1, 1))
    P = np.identity(n)[rng.permutation(n)]
    return R @ G @ P


def structured_block_matrix(rng, q0, q1, how):
    """Exact structure inside the charge blocks: 'zerocols' (random rows/columns exactly zero, also leading ones), 'binary' (entries 0/1:
    exact dependencies and zero pivots), 'dupcols' (a column/row an exact copy of another one of the same charge)."""
    m, n = len(q0), len(q1)
    mask = np.equal.outer(np.asarray(q0), np.asarray(q1))
    if how == 'binary':
        return np.where(mask, rng.integers(0, 2, size=(m, n)), 0).astype(float)
    if how == 'complex-orthogonal':
        # EVERY charge block has complex-orthogonal columns (M^T M = 1, M^H M != 1) and at least as many rows as columns where possible: the whole matrix
        # satisfies A^T A = 1 on its non-zero columns -- fools an 'already orthonormal' test that forgets the complex conjugation
        A = np.zeros((m, n), dtype=complex)
        for q in np.intersect1d(q0, q1):
            i = np.where(np.asarray(q0) == q)[0]
            j = np.where(np.asarray(q1) == q)[0]
            r, c = len(i), len(j)
            O = complex_orthogonal(rng, max(r, 2) if r >= 2 else 1)[:r, :min(r, c)]
            A[np.ix_(i, j[:min(r, c)])] = O
        return A
    if how == 'nearstruct':
        # every charge block: an exactly structured matrix (Hermitian, symmetric, skew, identity, diagonal, unitary, triangular, normal) on its leading
        # square part plus a perturbation of relative size eps in {0, 1e-13 .. 1e-3} -- "almost" structured blocks
        cplx = rng.random() < 0.5
        A = np.zeros((m, n), dtype=complex if cplx else float)
        for q in np.intersect1d(q0, q1):
            i = np.where(np.asarray(q0) == q)[0]
            j = np.where(np.asarray(q1) == q)[0]
            r, c = len(i), len(j)
            k = min(r, c)
            X = rng.normal(size=(k, k)) + (1j * rng.normal(size=(k, k)) if cplx else 0)
            st = str(rng.choice(['hermitian', 'symmetric', 'skew', 'identity', 'diagonal', 'unitary', 'triangular', 'normal', 'psd', 'complex-orthogonal']))
            if st == 'hermitian':
                S = X + X.conj().T
            elif st == 'symmetric':
                S = X + X.T
            elif st == 'skew':
                S = X - X.conj().T
            elif st == 'identity':
                S = np.identity(k) * float(rng.choice([1.0, -2.0, 0.5]))
            elif st == 'diagonal':
                S = np.diag(np.diag(X))
            elif st == 'complex-orthogonal':
                # O^T O = 1 WITHOUT O^H O = 1 (exponential of a complex antisymmetric matrix): fools an orthonormality test that forgets the conjugation
                S = complex_orthogonal(rng, k)
            elif st == 'unitary':
                S = np.linalg.qr(X)[0]
            elif st == 'triangular':
                S = np.triu(X)
            elif st == 'psd':
                S = X @ X.conj().T
            else:
                U = np.linalg.qr(X)[0]
                S = (U * (rng.normal(size=k) + (1j * rng.normal(size=k) if cplx else 0))) @ U.conj().T
            eps = float(rng.choice([0, 0, 1e-13, 1e-10, 1e-8, 1e-6, 1e-5, 1e-3]))
            P = rng.normal(size=(k, k)) + (1j * rng.normal(size=(k, k)) if cplx else 0)
            S = S + eps * max(np.abs(S).max(), 1e-300) * P
            B = rng.normal(size=(r, c)) + (1j * rng.normal(size=(r, c)) if cplx else 0)
            if rng.random() < 0.7:
                B[:] = 0            # rectangular remainder of the block: zero (default) or random
            B[:k, :k] = S
            A[np.ix_(i, j)] = B
        return A
    A = np.where(mask, rng.normal(size=(m, n)) + (1j * rng.normal(size=(m, n)) if rng.random() < 0.5 else 0), 0)
    if how == 'zerocols':
        for j in range(n):
            if rng.random() < 0.4:
                A[:, j] = 0
        for i in range(m):
            if rng.random() < 0.2:
                A[i, :] = 0
    elif how == 'dupcols':
        for _ in range(max(1, n // 2)):
            j = int(rng.integers(0, n))
            same = [k for k in range(n) if k != j and q1[k] == q1[j]]
            if same:
                A[:, int(rng.choice(same))] = A[:, j] * float(rng.choice([1, -1, 2]))
        for _ in range(max(1, m // 3)):
            i = int(rng.integers(0, m))
            same = [k for k in range(m) if k != i and q0[k] == q0[i]]
            if same:
                A[int(rng.choice(same)), :] = A[i, :]
    return A


def block_matrix(rng, q0, q1, kind='complex', rank=None):
    """Random matrix whose non-zero entries connect equal charges; rank: None=full, int=per-block rank cap, 0=zero."""
    m, n = len(q0), len(q1)
    mask = np.equal.outer(np.asarray(q0), np.asarray(q1))
    if rank == 0:
        return np.zeros((m, n), dtype=complex if kind == 'complex' else float)
    if rank is None:
        A = entries(rng, (m, n), kind)
        return np.where(mask, A, 0).astype(A.dtype)
    A = np.zeros((m, n), dtype=complex if kind == 'complex' else float)
    for q in np.intersect1d(q0, q1):
        i = np.where(np.asarray(q0) == q)[0]
        j = np.where(np.asarray(q1) == q)[0]
        B = sum(np.outer(entries(rng, len(i), kind), entries(rng, len(j), kind)) for _ in range(rank))
        A[np.ix_(i, j)] = B
    return A


# ---------------------------------------------------------------------------------------------------
# MPS / MPO
# ---------------------------------------------------------------------------------------------------

def reachable(qprev, qd):
    return np.unique(np.add.outer(np.asarray(qprev), np.asarray(qd)).reshape(-1))


def mps_qD(rng, qd, L, profile, Dmax=5, q0=0, layout='unsorted', qL=None):
    """
    Bond quantum numbers of a sector-consistent MPS.
    profile: 'one' (all bonds 1), 'random', 'max' (all reachable sectors with full multiplicity up to cap),
             'over' (over-complete: more states than the left half offers), 'disjoint' (a bond with charges no
             entry can satisfy => zero state)
    """
    qd = np.asarray(qd)
    d = len(qd)
    qD = [np.array([q0])]
    for i in range(1, L):
        allq = reachable(qD[-1], qd)
        if profile == 'one':
            q = np.array([int(rng.choice(allq))])
        elif profile == 'max':
            full = np.sort(np.add.outer(qD[-1], qd).reshape(-1))
            cap = min(len(full), d ** (L - i), Dmax * 4)
            q = full if len(full) <= cap else np.sort(rng.choice(full, size=cap, replace=False))
        elif profile == 'over':
            n = min(len(qD[-1]) * d + int(rng.integers(1, 4)), Dmax * 3)
            q = rng.choice(allq, size=n)
        else:
            q = rng.choice(allq, size=int(rng.integers(1, Dmax + 1)))
        if layout == 'sorted':
            q = np.sort(q)
        qD.append(np.asarray(q, dtype=int))
    allq = reachable(qD[-1], qd)
    qD.append(np.array([int(rng.choice(allq)) if qL is None else int(qL)]))
    if profile == 'disjoint' and L >= 2:
        k = int(rng.integers(1, L))
        qD[k] = qD[k] + 1000
    return qD


def rand_mps(rng, qd, L, profile='random', Dmax=5, kind='complex', q0=0, layout='unsorted', qL=None):
    qD = mps_qD(rng, qd, L, profile, Dmax, q0, layout, qL)
    psi = ptn.MPS(qd, qD, fill='postpone')
    d = len(qd)
    for i in range(L):
        shape = (d, len(qD[i]), len(qD[i + 1]))
        A = entries(rng, shape, kind)
        mask = np.add.outer(np.add.outer(np.asarray(qd), qD[i]), -qD[i + 1])
        A = np.where(mask == 0, A, 0).astype(A.dtype)
        if not np.issubdtype(A.dtype, np.integer):
            A = (A / np.sqrt(d * shape[1])).astype(A.dtype)
        psi.A[i] = A
    return psi


def rank_deficient_mps(rng, qd, L, Dmax=5):
    """Product of thin factors: bonds are larger than the rank they carry (charge-free for simplicity of control)."""
    d = len(qd)
    qd0 = np.zeros(d, dtype=int)
    D = [1] + [int(rng.integers(2, Dmax + 1)) for _ in range(L - 1)] + [1]
    psi = ptn.MPS(qd0, [np.zeros(x, dtype=int) for x in D], fill='postpone')
    for i in range(L):
        r = 1 if rng.random() < 0.7 else 2
        r = min(r, D[i], D[i + 1])
        X = rng.normal(size=(d, D[i], r)) + 1j * rng.normal(size=(d, D[i], r))
        Y = rng.normal(size=(r, D[i + 1])) + 1j * rng.normal(size=(r, D[i + 1]))
        psi.A[i] = np.tensordot(X, Y, 1)
    return psi


def full_sector_mps(rng, qd, L, qtot, kind='complex'):
    """Maximal bond dimensions admitting every vector of the sector (built left to right, then canonicalised)."""
    qd = np.asarray(qd)
    qD = [np.array([0])]
    for i in range(L - 1):
        qD.append(np.sort(np.add.outer(qD[-1], qd).reshape(-1)))
    qD.append(np.array([int(qtot)]))
    psi = ptn.MPS(qd, qD, fill='postpone')
    d = len(qd)
    for i in range(L):
        shape = (d, len(qD[i]), len(qD[i + 1]))
        A = entries(rng, shape, kind)
        mask = np.add.outer(np.add.outer(qd, qD[i]), -qD[i + 1])
        psi.A[i] = np.where(mask == 0, A, 0)
    return psi


def mpo_qD(rng, qd, L, Dmax=4, layout='unsorted', boundary=None):
    qd = np.asarray(qd)
    diffs = np.unique(np.subtract.outer(qd, qd).reshape(-1))
    b0 = np.array([0 if boundary is None else boundary[0]])
    qD = [b0]
    for i in range(1, L):
        allq = np.unique(np.add.outer(qD[-1], diffs).reshape(-1))
        q = rng.choice(allq, size=int(rng.integers(1, Dmax + 1)))
        if layout == 'sorted':
            q = np.sort(q)
        if layout == 'zero':
            q = np.zeros_like(q)
        qD.append(q.astype(int))
    allq = np.unique(np.add.outer(qD[-1], diffs).reshape(-1))
    if boundary is None:
        qD.append(np.array([int(rng.choice(allq))]))
    else:
        qD.append(np.array([boundary[1]]))
    return qD


def rand_mpo(rng, qd, L, Dmax=4, kind='complex', layout='unsorted', boundary=None, open_bonds=None):
    qD = mpo_qD(rng, qd, L, Dmax, layout, boundary)
    if open_bonds:
        qD[0] = np.asarray(open_bonds[0], dtype=int)
        qD[-1] = np.asarray(open_bonds[1], dtype=int)
    op = ptn.MPO(qd, qD, fill='postpone')
    d = len(qd)
    qd = np.asarray(qd)
    for i in range(L):
        shape = (d, d, len(qD[i]), len(qD[i + 1]))
        A = entries(rng, shape, kind)
        mask = np.add.outer(np.add.outer(np.add.outer(qd, -qd), qD[i]), -qD[i + 1])
        op.A[i] = np.where(mask == 0, A, 0).astype(A.dtype)
        if not np.issubdtype(A.dtype, np.integer):
            op.A[i] = (op.A[i] / np.sqrt(d * shape[2])).astype(A.dtype)
    return op


def mpo_dagger(op):
    """Harness-side adjoint: conj, swap physical legs, negate bond charges."""
    r = ptn.MPO(op.qd, [-q for q in op.qD], fill='postpone')
    r.A = [np.conj(A.transpose(1, 0, 2, 3)) for A in op.A]
    return r


def mpo_sum(a, b):
    """Harness-side block sum (independent of the repository's add_mpo)."""
    L = len(a.A)
    if L == 1:
        r = ptn.MPO(a.qd, [a.qD[0].copy(), a.qD[1].copy()], fill='postpone')
        r.A = [a.A[0] + b.A[0]]
        return r
    qD = [a.qD[0].copy()] + [np.concatenate([a.qD[i], b.qD[i]]) for i in range(1, L)] + [a.qD[L].copy()]
    r = ptn.MPO(a.qd, qD, fill='postpone')
    d = len(a.qd)
    for i in range(L):
        A, B = a.A[i], b.A[i]
        if i == 0:
            T = np.concatenate([A, B], axis=3)
        elif i == L - 1:
            T = np.concatenate([A, B], axis=2)
        else:
            T = np.zeros((d, d, A.shape[2] + B.shape[2], A.shape[3] + B.shape[3]), dtype=complex)
            T[:, :, :A.shape[2], :A.shape[3]] = A
            T[:, :, A.shape[2]:, A.shape[3]:] = B
        r.A[i] = T
    return r


def rand_hermitian_mpo(rng, qd, L, Dmax=3, kind='complex'):
    """M + M^dagger with zero boundary charges (charge conserving)."""
    M = rand_mpo(rng, qd, L, Dmax, kind, boundary=(0, 0))
    return mpo_sum(M, mpo_dagger(M))


# ---------------------------------------------------------------------------------------------------
# built-in models
# ---------------------------------------------------------------------------------------------------

def model(name, L, p):
    if name == 'ising':
        return ptn.ising_mpo(L, *p)
    if name == 'xxz':
        return ptn.heisenberg_xxz_mpo(L, *p)
    if name == 'xxz1':
        return ptn.heisenberg_xxz_spin1_mpo(L, *p)
    if name == 'bose3':
        return ptn.bose_hubbard_mpo(3, L, *p)
    if name == 'bose2':
        return ptn.bose_hubbard_mpo(2, L, *p)
    if name == 'fermi':
        return ptn.fermi_hubbard_mpo(L, *p)
    raise ValueError(name)


MODEL_D = {'ising': 2, 'xxz': 2, 'xxz1': 3, 'bose3': 3, 'bose2': 2, 'fermi': 4}


def generic_params(rng, n=3):
    return tuple(float(x) for x in rng.choice([-1, 1], size=n) * rng.uniform(0.3, 1.5, size=n))


def pick_model(rng, names=('ising', 'xxz', 'xxz1', 'bose3', 'fermi'), maxdim=1024, Lmin=2, Lmax=7):
    name = str(rng.choice(list(names)))
    d = MODEL_D[name]
    lmax = Lmax
    while d ** lmax > maxdim and lmax > Lmin:
        lmax -= 1
    L = int(rng.integers(Lmin, lmax + 1))
    p = generic_params(rng)
    return name, L, p, model(name, L, p)


# ---------------------------------------------------------------------------------------------------
# symbolic programs: chains, graphs, trees, automata
# ---------------------------------------------------------------------------------------------------

DYADIC = [-2, -1, -0.5, 0.5, 1, 2, 0.25, 1.5]


OID_POOLS = [None, None, (0, -1, -2, 1), (0, -2, -1, -3), (0, 5, 100, 2 ** 40), (0, -1, 1, 2)]


def rand_chain(rng, L, nops=3, coeffs=DYADIC, charges=True, allow_zero=False, pool=None):
    """pool: tuple of operator ids with the identity id first (None: 0..nops); negative ids matter: hash(-1) == hash(-2) in CPython."""
    ln = int(rng.integers(1, L + 1))
    ist = int(rng.integers(0, L - ln + 1))
    if pool is None:
        oids = [int(x) for x in rng.integers(0, nops + 1, size=ln)]
    else:
        oids = [int(pool[int(x)]) for x in rng.integers(0, min(len(pool), nops + 1), size=ln)]
    if charges and rng.random() < 0.5 and ln > 1:
        qn = [0] + [int(x) for x in rng.integers(-2, 3, size=ln - 1)] + [0]
    else:
        qn = [0] * (ln + 1)
    cs = list(coeffs) + ([0] if allow_zero else [])
    co = float(rng.choice(cs))
    return ptn.OpChain(oids, qn, co, ist)


def rand_graph(rng, L, idbase=0, maxw=3, nops=3, charges=True, pool=None, zero_edges=False):
    """Random consistent layered graph with parallel edges, multi-operator edges, non-contiguous ids. In half of the cases node ids are NOT monotone along
    the layers (random permutation, negative ids), the node list handed to OpGraph is shuffled, and edge ids / insertion order are shuffled as well."""
    widths = [1] + [int(rng.integers(1, maxw + 1)) for _ in range(L - 1)] + [1]
    n = sum(widths)
    ids = []
    nid = idbase
    for _ in range(n):
        ids.append(nid)
        nid += int(rng.integers(1, 3))
    hostile = rng.random() < 0.5
    if hostile:
        ids = [ids[int(k)] for k in rng.permutation(n)]
        if rng.random() < 0.3 and idbase == 0:
            ids = [x - 3 for x in ids]             # some negative ids (-1 and -2 hash alike in CPython)
    layers = []
    nodes = []
    k = 0
    for w in widths:
        lay = []
        for _ in range(w):
            q = int(rng.integers(-1, 2)) if charges else 0
            nodes.append(ptn.OpGraphNode(ids[k], [], [], q))
            lay.append(ids[k])
            k += 1
        layers.append(lay)
    if hostile:
        nodes = [nodes[int(j)] for j in rng.permutation(len(nodes))]
    g = ptn.OpGraph(nodes, [], [layers[0][0], layers[-1][0]])
    specs = []
    for l in range(L):
        pairs = set()
        for a in layers[l]:
            pairs.add((a, int(rng.choice(layers[l + 1]))))
        for b in layers[l + 1]:
            pairs.add((int(rng.choice(layers[l])), b))
        pairs = sorted(pairs)
        nreq = len(pairs)
        for _ in range(int(rng.integers(0, 3))):
            pairs.append((int(rng.choice(layers[l])), int(rng.choice(layers[l + 1]))))
        zero_first = rng.random() < 0.5
        for ip, (a, b) in enumerate(pairs):
            nop = int(rng.integers(1, 3))
            if zero_edges and ip >= nreq and rng.random() < 0.35:
                # a ZERO edge (empty operator list: the zero operator), only among the extra edges so that every path structure stays intact
                if zero_first:
                    specs.insert(max(len(specs) - ip, 0), ([a, b], []))
                else:
                    specs.append(([a, b], []))
                continue
            opics = [(int(rng.integers(0, nops)) if pool is None else int(pool[int(rng.integers(0, min(nops, len(pool))))]), float(rng.choice([-1, -.5, .5, 1, 2]))) for _ in range(nop)]
            specs.append(([a, b], opics))
    eids = []
    eid = int(rng.integers(0, 5)) + (idbase if idbase else 0)
    for _ in specs:
        eids.append(eid)
        eid += int(rng.integers(1, 3))
    if hostile:
        eids = [eids[int(j)] for j in rng.permutation(len(eids))]
        specs = [specs[int(j)] for j in rng.permutation(len(specs))]
    for e, (ab, opics) in zip(eids, specs):
        g.add_connect_edge(ptn.OpGraphEdge(e, ab, opics))
    return g


def rand_tree(rng, rem, nops=3, pleaf=0.25, maxch=3, root=True, pzero=0.0, pool=None, charges=False, root_q=None, shared=None):
    """Returns (OpTreeNode, polynomial with variable-length words). pzero: probability of an exactly-zero edge coefficient.
    charges: tree nodes carry random quantum numbers -1..1 (a node that sits on the terminal layer, rem == 0, must carry 0; root_q fixes the root's).
    shared: a list (pass []) -- inner nodes built so far; with probability 1/4 a child is the SAME OpTreeNode object as an earlier inner node of this tree
    that still fits into the remaining sites (common tails of terms of different range written once: the object then occurs at different depths)."""
    q = 0
    if charges and rem > 0:
        q = int(rng.integers(-1, 2))
    if root and root_q is not None:
        q = root_q
    if rem == 0 or (not root and rng.random() < pleaf):
        return ptn.OpTreeNode([], q), {(): 1.0}
    nch = int(rng.integers(1, maxch + 1))
    node = ptn.OpTreeNode([], q)
    poly = {}
    for _ in range(nch):
        fits = [(c_, p_) for c_, p_ in shared if max(len(w) for w in p_) <= rem - 1] if shared else []
        if fits and rng.random() < 0.25:
            child, cp = fits[int(rng.integers(0, len(fits)))]
        else:
            child, cp = rand_tree(rng, rem - 1, nops, pleaf, maxch, root=False, pzero=pzero, pool=pool, charges=charges, shared=shared)
            if shared is not None and any(len(w) for w in cp):
                shared.append((child, cp))
        oid = int(rng.integers(0, nops)) if pool is None else int(pool[int(rng.integers(0, min(nops, len(pool))))])
        co = 0.0 if rng.random() < pzero else float(rng.choice([-1, .5, 1, 2]))
        node.add_child(ptn.OpTreeEdge(oid, co, child))
        for w, c in cp.items():
            poly[(oid,) + w] = poly.get((oid,) + w, 0) + co * c
    return node, poly


# ---------------------------------------------------------------------------------------------------
# bipartite graphs
# ---------------------------------------------------------------------------------------------------

def rand_bipartite(rng, maxn=60):
    nu = int(rng.integers(1, maxn + 1))
    nv = int(rng.integers(1, maxn + 1))
    kind = str(rng.choice(['sparse', 'mid', 'dense', 'empty', 'dup', 'path', 'full']))
    if kind == 'empty':
        edges = []
    elif kind == 'full':
        edges = [(u, v) for u in range(nu) for v in range(nv)]
    elif kind == 'path':
        # long augmenting paths: u_i - v_i and u_{i+1} - v_i
        n = min(nu, nv)
        edges = [(i, i) for i in range(n)] + [(i + 1, i) for i in range(n - 1)]
        perm = rng.permutation(len(edges))
        edges = [edges[i] for i in perm]
    else:
        p = {'sparse': rng.uniform(0.01, 0.1), 'mid': rng.uniform(0.1, 0.5), 'dense': rng.uniform(0.5, 1.0),
             'dup': rng.uniform(0.05, 0.5)}[kind]
        mask = rng.random((nu, nv)) < p
        edges = [(int(u), int(v)) for u, v in zip(*np.nonzero(mask))]
        if kind == 'dup' and edges:
            extra = [edges[int(i)] for i in rng.integers(0, len(edges), size=len(edges) // 2 + 1)]
            edges = edges + extra
            perm = rng.permutation(len(edges))
            edges = [edges[i] for i in perm]
    return nu, nv, edges, kind


def memory_layout(rng, A, how=None):
    """The same matrix in a hostile memory layout: Fortran order, a strided view into a larger buffer, a transposed view, negative strides,
    read-only. Returns (array, label); values are identical to A."""
    how = how or str(rng.choice(['c', 'fortran', 'strided', 'transposed-view', 'negative-stride', 'readonly', 'byteswapped']))
    if how == 'byteswapped':
        # non-native byte order (data read from a big-endian file): identical values, but dtype('>f8') != float and dtype('>c16') != complex
        if A.dtype.kind in 'fc' and A.dtype.itemsize in (8, 16):
            return A.astype(A.dtype.newbyteorder('>')), how
        return np.ascontiguousarray(A), 'c'
    if how == 'fortran':
        return np.asfortranarray(A), how
    if how == 'strided':
        big = np.zeros((2 * A.shape[0] + 1, 3 * A.shape[1] + 2), dtype=A.dtype)
        v = big[1:1 + 2 * A.shape[0]:2, 2:2 + 3 * A.shape[1]:3]
        v[...] = A
        return v, how
    if how == 'transposed-view':
        return np.ascontiguousarray(A.T).T, how
    if how == 'negative-stride':
        return np.ascontiguousarray(A[::-1, ::-1])[::-1, ::-1], how
    if how == 'readonly':
        B = A.copy()
        B.flags.writeable = False
        return B, how
    return np.ascontiguousarray(A), 'c'


def site_field_pattern(rng, L):
    """Site-dependent field strengths: staggered (A-B-A-B), single impurity, period 3, blocks, fully random."""
    kind = str(rng.choice(['staggered', 'impurity', 'period3', 'blocks', 'random']))
    if kind == 'staggered':
        a, b = rng.normal(size=2)
        h = [a if i % 2 == 0 else b for i in range(L)]
    elif kind == 'impurity':
        h = [0.0] * L
        h[int(rng.integers(0, L))] = float(rng.normal()) + 0.5
    elif kind == 'period3':
        c = rng.normal(size=3)
        h = [c[i % 3] for i in range(L)]
    elif kind == 'blocks':
        a, b = rng.normal(size=2)
        k = int(rng.integers(1, L))
        h = [a if i < k else b for i in range(L)]
    else:
        h = list(rng.normal(size=L))
    return kind, [float(x) for x in h]


def isotropic(rng, R):
    """R + i S with S real, Frobenius-orthogonal to the real matrix R, of the same norm and the same zero pattern: the entries SQUARED sum to zero
    (sum O_ij^2 = |R|^2 - |S|^2 + 2i <R,S> = 0) although the matrix is not zero -- like S^x + i S^z or diag(1, i); a 'norm' computed without the complex
    conjugate takes it for the zero block. Returns R itself if its pattern has fewer than two entries."""
    R = np.asarray(R, dtype=float)
    mask = R != 0
    if mask.sum() < 2:
        return R.astype(complex)
    P = np.where(mask, rng.normal(size=R.shape), 0)
    S = P - (np.sum(P * R) / np.sum(R * R)) * R
    nS = np.linalg.norm(S)
    if nS == 0:
        return R.astype(complex)
    return R + 1j * S * (np.linalg.norm(R) / nS)


def charged_operator(rng, qd, c, cplx=True, iso=False):
    """Random local operator X with X[s, t] != 0 only where qd[s] - qd[t] == c (None if no such entry exists). iso: an isotropic complex operator
    (entries squared sum to ~0, see `isotropic`)."""
    qd = np.asarray(qd)
    mask = np.subtract.outer(qd, qd) == c
    if not mask.any():
        return None
    d = len(qd)
    X = rng.normal(size=(d, d)) + (1j * rng.normal(size=(d, d)) if cplx else 0)
    if iso and cplx:
        return isotropic(rng, np.where(mask, X.real, 0))
    return np.where(mask, X, 0)


def nn_pattern_hamiltonian(rng, qd, L, pattern=None, cplx=True, npairs=None, iso=None):
    """
    Hand-built automaton-form MPO (independent of the repository's graph compiler) of a Hermitian nearest-neighbour Hamiltonian with
    SITE-DEPENDENT parameters:  H = sum_i sum_k [ J_i^k X^k_i (X^k)^dagger_{i+1} + h.c. ] + sum_i h_i N_i,  N charge neutral.
    The parameter set of site i follows `pattern` (uniform / staggered A-B-A-B / impurity / period3 / blocks / random): sites with the same parameter
    set carry bit-identical bulk tensors. Returns (MPO, pattern name, dense matrix built by Kronecker products).
    """
    qd = np.asarray(qd)
    d = len(qd)
    diffs = np.unique(np.subtract.outer(qd, qd))
    K = int(rng.integers(1, 3)) if npairs is None else npairs
    Xs = []
    iso_draw = float(rng.random()) if iso is None else (0.0 if iso else 1.0)              # three in ten complex models use isotropic end-point operators (entries squared sum to zero)
    for _ in range(K):
        c = int(rng.choice(diffs))
        X = charged_operator(rng, qd, c, cplx, iso=bool(cplx and iso_draw < 0.3))
        Xs.append((c, X))
    N = np.diag(rng.normal(size=d))
    if pattern is None:
        pattern = str(rng.choice(['uniform', 'staggered', 'impurity', 'period3', 'blocks', 'random']))
    nsets = {'uniform': 1, 'staggered': 2, 'impurity': 2, 'period3': 3, 'blocks': 2, 'random': L}[pattern]
    sets = [(rng.normal(size=K) + (1j * rng.normal(size=K) if cplx else 0), float(rng.normal())) for _ in range(nsets)]
    imp = int(rng.integers(0, L))
    kb = int(rng.integers(1, max(2, L)))
    which = {'uniform': lambda i: 0, 'staggered': lambda i: i % 2, 'impurity': lambda i: int(i == imp), 'period3': lambda i: i % 3,
             'blocks': lambda i: int(i >= kb), 'random': lambda i: i}[pattern]
    # bond states: 0 = final, 1..2K = pending (X^k sent / X^k^dagger sent), 2K+1 = initial
    D = 2 * K + 2
    qb = np.zeros(D, dtype=int)
    for k, (c, X) in enumerate(Xs):
        qb[1 + 2 * k] = c
        qb[2 + 2 * k] = -c
    ident = np.identity(d)
    dt = complex if cplx else float
    tensors = []
    for i in range(L):
        J, h = sets[which(i)]
        W = np.zeros((d, d, D, D), dtype=dt)
        W[:, :, D - 1, D - 1] = ident
        W[:, :, 0, 0] = ident
        W[:, :, D - 1, 0] = h * N
        for k, (c, X) in enumerate(Xs):
            W[:, :, D - 1, 1 + 2 * k] = J[k] * X
            W[:, :, 1 + 2 * k, 0] = X.conj().T
            W[:, :, D - 1, 2 + 2 * k] = np.conj(J[k]) * X.conj().T
            W[:, :, 2 + 2 * k, 0] = X
        tensors.append(W)
    A = [t.copy() for t in tensors]
    qD = [qb.copy() for _ in range(L + 1)]
    A[0] = A[0][:, :, D - 1:D, :]
    qD[0] = np.array([0])
    A[-1] = A[-1][:, :, :, 0:1]
    qD[-1] = np.array([0])
    H = ptn.MPO(qd, qD, fill='postpone')
    H.A = A
    # dense reference by Kronecker products
    dim = d ** L
    M = np.zeros((dim, dim), dtype=complex)

    def emb(op, i, n=1):
        return np.kron(np.kron(np.identity(d ** i), op), np.identity(d ** (L - i - n)))
    for i in range(L):
        J, h = sets[which(i)]
        M += h * emb(N, i)
        if i < L - 1:
            for k, (c, X) in enumerate(Xs):
                T = J[k] * np.kron(X, X.conj().T)
                M += emb(T + T.conj().T, i, 2)
    return H, pattern, M


def staircase_bipartite(rng, sizes=None, noise=True):
    """
    Adversarial input for augmenting-path matchers: disjoint path blocks A_0 - B_1 - A_1 - B_2 - ... - A_{k-1} - B_k of different lengths k,
    listed so that the greedy first phase matches A_i with B_i (i >= 1) and leaves A_0 / B_k free: block k can only be completed by an
    augmenting path of length 2k-1, i.e. in its own Hopcroft-Karp phase -- the number of phases needed is the number of distinct block sizes,
    far above sqrt(|U|) for few vertices. Returns (nu, nv, edges (ordered), number of distinct sizes, perfect matching size).
    Variants: blocks in random order, interleaved vertex numbering that keeps the within-block order, optional swap of the two sides,
    optional noise (isolated vertices, a few pendant edges onto already saturated vertices).
    """
    if sizes is None:
        kmax = int(rng.integers(2, 9))
        sizes = [k for k in range(1, kmax + 1) if rng.random() < 0.8 or k == kmax]
        if rng.random() < 0.3:
            sizes += [int(rng.choice(sizes))]
    order = [int(i) for i in rng.permutation(len(sizes))] if rng.random() < 0.5 else list(range(len(sizes)))
    blocks = []
    nu = nv = 0
    for bi in order:
        k = sizes[bi]
        # local u numbering: A_1..A_{k-1} first, A_0 last; v numbering B_1..B_k
        us = list(range(nu, nu + k))
        vs = list(range(nv, nv + k))
        A = {0: us[-1]}
        for i in range(1, k):
            A[i] = us[i - 1]
        B = {j: vs[j - 1] for j in range(1, k + 1)}
        e = []
        for i in range(1, k):
            e.append((A[i], B[i]))
            e.append((A[i], B[i + 1]))
        e.append((A[0], B[1]))
        blocks.append(e)
        nu += k
        nv += k
    edges = [p for e in blocks for p in e]
    match = nu
    if noise and rng.random() < 0.5:
        # pendant edges from new U vertices onto V vertices that every maximum matching saturates anyway do not change the optimum ... keep it simple:
        # isolated extra vertices on either side
        nu += int(rng.integers(0, 3))
        nv += int(rng.integers(0, 3))
    if rng.random() < 0.3:
        edges = [(v, u) for (u, v) in edges]
        nu, nv = nv, nu
    return nu, nv, edges, len(set(sizes)), match


def pseudo_canonical(rng, psi, how=None):
    """
    Rescales the tensors of an MPS IN PLACE so that they satisfy NECESSARY conditions of a normalised canonical form without being isometries:
    'frob-left' / 'frob-right': squared Frobenius norm of every tensor equals its left / right bond dimension (true for right- / left-canonical tensors);
    'slice-left' / 'slice-right': every slice A[:, a, :] resp. A[:, :, b] has unit norm (hence the same Frobenius coincidence).
    Anything that recognises 'already canonical' by such a coincidence is fooled; the state itself is an ordinary generic state. Returns the label.
    """
    how = how or str(rng.choice(['frob-left', 'frob-right', 'slice-left', 'slice-right', 'complex-orthogonal']))
    if how == 'complex-orthogonal':
        # left unfoldings (d*Dl x Dr) with M^T M = 1 but M^H M != 1 (columns of exp(complex antisymmetric)); quantum-number-free states only
        if any(np.any(q) for q in psi.qD) or np.any(psi.qd):
            how = 'frob-left'
        else:
            for i, A in enumerate(psi.A):
                d, Dl, Dr = A.shape
                n = d * Dl
                if Dr > n or n < 2:
                    continue
                psi.A[i] = complex_orthogonal(rng, n)[:, :Dr].reshape(d, Dl, Dr)
            return how
    for i, A in enumerate(psi.A):
        A = np.asarray(A, dtype=complex if np.iscomplexobj(A) else float)
        ax = 1 if how.endswith('left') else 2
        if how.startswith('frob'):
            n = np.linalg.norm(A)
            if n > 0:
                A = A * (np.sqrt(A.shape[ax]) / n)
        else:
            for a in range(A.shape[ax]):
                sl = [slice(None)] * 3
                sl[ax] = a
                n = np.linalg.norm(A[tuple(sl)])
                if n > 0:
                    A[tuple(sl)] = A[tuple(sl)] / n
        psi.A[i] = A
    return how


def partially_shared_mps(rng, psi, nrep=None):
    """A second state that SHARES most site-tensor arrays by reference with `psi` (built from list(psi.A), like a correlator bra <psi| S_j S_k) and has
    new random tensors of the same sparsity pattern on one or two sites. Returns (chi, replaced sites)."""
    L = len(psi.A)
    chi = ptn.MPS(psi.qd, [np.array(q, copy=True) for q in psi.qD], fill='postpone')
    chi.A = list(psi.A)
    k = int(rng.integers(1, min(L, 2) + 1)) if nrep is None else nrep
    sites = sorted(int(x) for x in rng.choice(L, size=min(k, L), replace=False))
    for i in sites:
        a = np.asarray(psi.A[i])
        mask = np.add.outer(np.add.outer(np.asarray(psi.qd), np.asarray(psi.qD[i])), -np.asarray(psi.qD[i + 1])) == 0
        new = rng.normal(size=a.shape) + 1j * rng.normal(size=a.shape)
        chi.A[i] = np.where(mask, new, 0) / np.sqrt(max(a.shape[0] * a.shape[1], 1))
    return chi, sites


def labelled_sector_mps(rng, qd, L, qtot, modes=None, kind='complex'):
    """
    A generic state on a manifold that admits every vector of the total-charge sector `qtot`, with the bond labels enumerated per bond in one of three
    ways: 'left' (every charge reachable from the left end, full multiplicity), 'right' (qtot minus every charge reachable from the right end), 'min'
    (the smaller multiplicity per charge: the minimal complete manifold). Mixed enumerations give over-complete labellings (sectors without support
    on one side). Returns (psi, modes).
    """
    import collections
    qd = np.asarray(qd)
    modes = modes or [str(rng.choice(['left', 'right', 'min'])) for _ in range(L - 1)]
    sums = [np.array([0])]
    for _ in range(L):
        sums.append(np.sort(np.add.outer(sums[-1], qd).reshape(-1)))
    qD = [np.array([0])]
    for i in range(1, L):
        lft = sums[i]
        rgt = np.sort(int(qtot) - sums[L - i])
        if modes[i - 1] == 'left':
            q = lft
        elif modes[i - 1] == 'right':
            q = rgt
        else:
            nl, nr = collections.Counter(lft.tolist()), collections.Counter(rgt.tolist())
            q = np.array(sorted(sum(([x] * min(nl[x], nr[x]) for x in nl if nr.get(x, 0) > 0), [])), dtype=int)
            if q.size == 0:
                q = lft[:1]
        qD.append(np.asarray(q, dtype=int))
    qD.append(np.array([int(qtot)]))
    psi = ptn.MPS(qd, qD, fill='postpone')
    d = len(qd)
    for i in range(L):
        A = entries(rng, (d, len(qD[i]), len(qD[i + 1])), kind)
        mask = np.add.outer(np.add.outer(qd, qD[i]), -qD[i + 1])
        psi.A[i] = np.where(mask == 0, A, 0)
    return psi, modes


def relabelled_operator(rng, H):
    """A deep copy of the MPO H in a DIFFERENT but equally valid labelling: the sector rule of an operator tensor only involves the difference of
    its two physical labels, so a constant shift of H.qd describes the same operator; a charge-diagonal operator (all bond labels zero) may also carry
    all-zero physical labels. Algorithms acting on a state must take the physical labels from the STATE."""
    import copy
    H2 = copy.deepcopy(H)
    if all(not np.any(q) for q in H2.qD) and rng.random() < 0.5:
        H2.qd = np.zeros_like(H2.qd)
    else:
        H2.qd = np.asarray(H2.qd) + int(rng.choice([-7, -1, 1, 2, 5, 1000]))
    return H2


def long_range_hamiltonian(rng, qd, L, cplx=True):
    """
    Hermitian Hamiltonian with terms whose end points are NOT neighbours, compiled by the repository from operator chains:
        H = sum_{(i,j,k)} [ J X^k_i S_{i+1} ... S_{j-1} (X^k)^dagger_j + h.c. ] + sum_i h_i N_i
    with charged end-point operators X^k, a charge-neutral string S (the identity or a diagonal operator) on the sites in between, and fields on a
    subset of the sites. Some sites are pure SPECTATORS: no term starts or ends there, their MPO tensor only carries identities, strings and
    (possibly) a field, while channels with pending non-Hermitian operators pass through.
    """
    from .env import ptn
    qd = np.asarray(qd)
    d = len(qd)
    diffs = [int(c) for c in np.unique(np.subtract.outer(qd, qd))]
    K = int(rng.integers(1, 3))
    opmap = {0: np.identity(d)}
    Xs = []
    for k in range(K):
        c = int(rng.choice(diffs))
        X = charged_operator(rng, qd, c, cplx)
        opmap[1 + 2 * k] = X
        opmap[2 + 2 * k] = X.conj().T
        Xs.append(c)
    oN, oS = 2 * K + 1, 2 * K + 2
    opmap[oN] = np.diag(rng.normal(size=d))
    opmap[oS] = np.diag(rng.choice([-1.0, 1.0], size=d))
    spect = set(int(s) for s in rng.choice(L, size=int(rng.integers(1, max(2, L // 2 + 1))), replace=False)) if L >= 3 else set()
    ends = [i for i in range(L) if i not in spect]
    chains = []
    pairs = [(i, j) for i in ends for j in ends if i < j]
    if pairs:
        sel = rng.choice(len(pairs), size=min(len(pairs), int(rng.integers(1, 5))), replace=False)
        for s in sel:
            i, j = pairs[int(s)]
            k = int(rng.integers(0, K))
            c = Xs[k]
            J = complex(rng.normal(), rng.normal() if cplx else 0.0)
            mid = [int(rng.choice([0, 0, oS]))] * (j - i - 1) if rng.random() < 0.5 else [int(rng.choice([0, oS])) for _ in range(j - i - 1)]
            n = j - i + 1
            chains.append(ptn.OpChain([1 + 2 * k] + mid + [2 + 2 * k], [0] + [c] * (n - 1) + [0], J if cplx else J.real, i))
            chains.append(ptn.OpChain([2 + 2 * k] + mid + [1 + 2 * k], [0] + [-c] * (n - 1) + [0], np.conj(J) if cplx else J.real, i))
    for i in range(L):
        if rng.random() < 0.6 or not chains:
            chains.append(ptn.OpChain([oN], [0, 0], float(rng.normal()), i))
    g = ptn.OpGraph.from_opchains(chains, L, 0)
    return ptn.MPO.from_opgraph(qd, g, opmap)


def add_twin_paths(rng, g, ntwins=None, dead_ends=False):
    """
    Redundancy for the rewrite rules: for a few random paths n_0 -e_1-> n_1 -e_2-> ... -e_k-> n_k (k = 1..3, direction forwards or backwards) add TWIN nodes
    n_1', ..., n_{k-1}' (labels equal to the originals with probability 0.6, otherwise different) connected by edges with operator lists IDENTICAL to
    e_1 .. e_{k-1}, the last twin joined to n_k by a copy of e_k or by a fresh operator list. The result is a consistent graph (every twin has an incoming
    and an outgoing edge) with duplicated path prefixes / suffixes whose nodes may or may not be mergeable. Returns the number of twin paths added.
    """
    from .env import ptn
    nid_next = max(g.nodes) + 1 + int(rng.integers(0, 3))
    eid_next = (max(g.edges) + 1 + int(rng.integers(0, 3))) if g.edges else 0
    added = 0
    for _ in range(int(rng.integers(1, 4)) if ntwins is None else ntwins):
        direction = int(rng.integers(0, 2))              # 1: follow outgoing edges, 0: follow incoming edges
        start = g.nodes[list(g.nodes)[int(rng.integers(0, len(g.nodes)))]]
        path = []
        node = start
        for _k in range(int(rng.integers(2, 4))):
            eids = node.eids[direction]
            if not eids:
                break
            e = g.edges[eids[int(rng.integers(0, len(eids)))]]
            nxt = g.nodes[e.nids[direction]]
            path.append((e, nxt))
            node = nxt
        if len(path) < 2:
            continue
        prev = start
        for j, (e, nxt) in enumerate(path):
            last = j == len(path) - 1
            if last and dead_ends and direction == 1 and prev is not start and rng.random() < 0.5:
                break                     # leave the last twin as a DEAD END (no outgoing edge): accepted by the library's consistency check, denotes nothing
            if last:
                tgt = nxt
                opics = list(e.opics) if (rng.random() < 0.5 or not e.opics) else [(e.opics[0][0], float(rng.choice([-1, .5, 2])))]
            else:
                q = nxt.qnum if rng.random() < 0.6 else nxt.qnum + int(rng.choice([-1, 1, 2]))
                tgt = ptn.OpGraphNode(nid_next, [], [], q)
                nid_next += int(rng.integers(1, 3))
                g.add_node(tgt)
                opics = list(e.opics)
            ab = [prev.nid, tgt.nid] if direction == 1 else [tgt.nid, prev.nid]
            g.add_connect_edge(ptn.OpGraphEdge(eid_next, ab, opics))
            eid_next += int(rng.integers(1, 3))
            prev = tgt
        added += 1
    return added


def structured_operator_tensor(rng, d, Dl, Dr, cplx=True):
    """
    MPO tensor (d, d, Dl, Dr) whose bond blocks W[:, :, a, b] are STRUCTURED local operators, as in hand-written automaton-form Hamiltonians: identically
    zero blocks, the identity and multiples of it, c*I + g*X with X purely off-diagonal (constant diagonal AND off-diagonal entries), diagonal operators,
    projectors |+><+|, rank-one and nilpotent (shift) operators, Hermitian and dense random blocks. No quantum numbers (all labels zero).
    """
    c = lambda *s: rng.normal(size=s) + (1j * rng.normal(size=s) if cplx else 0)
    W = np.zeros((d, d, Dl, Dr), dtype=complex if cplx else float)
    ident = np.identity(d)
    for a in range(Dl):
        for b in range(Dr):
            k = str(rng.choice(['zero', 'zero', 'zero', 'identity', 'scaled-identity', 'identity+offdiag', 'identity+offdiag', 'diagonal', 'const-diag+dense', 'projector',
                                'rank-one', 'shift', 'hermitian', 'dense', 'isotropic']))
            if k == 'zero':
                continue
            if k == 'identity':
                B = ident
            elif k == 'scaled-identity':
                B = complex(c()) * ident if cplx else float(c()) * ident
            elif k == 'identity+offdiag':
                X = c(d, d)
                X = X - np.diag(np.diag(X))
                B = float(rng.choice([1.0, 0.7, -2.0])) * ident + float(rng.choice([0.8, 1.0, -0.5])) * X
            elif k == 'diagonal':
                B = np.diag(c(d))
            elif k == 'const-diag+dense':
                B = c(d, d)
                B = B - np.diag(np.diag(B)) + float(rng.normal()) * ident
            elif k == 'projector':
                v = np.ones(d) / np.sqrt(d)
                B = np.outer(v, v)
            elif k == 'rank-one':
                B = np.outer(c(d), c(d).conj())
            elif k == 'shift':
                B = np.diag(np.ones(d - 1), 1) if d > 1 else np.zeros((1, 1))
            elif k == 'hermitian':
                B = c(d, d)
                B = B + B.conj().T
            elif k == 'isotropic':
                B = isotropic(rng, rng.normal(size=(d, d))) if cplx else np.diag(np.ones(d))
            else:
                B = c(d, d)
            W[:, :, a, b] = B
    if not W.any():
        W[:, :, 0, 0] = ident
    return W


def structured_block_mpo(rng, d, L, Dmax=3, cplx=True):
    """MPO without quantum numbers assembled from structured_operator_tensor (dummy boundary bonds of dimension 1)."""
    from .env import ptn
    D = [1] + [int(rng.integers(1, Dmax + 1)) for _ in range(L - 1)] + [1]
    op = ptn.MPO(np.zeros(d, dtype=int), [np.zeros(Di, dtype=int) for Di in D], fill='postpone')
    op.A = [structured_operator_tensor(rng, d, D[i], D[i + 1], cplx) for i in range(L)]
    return op


def funnel_hermitian_mpo(rng, d, L, cplx=True):
    """
    Hermitian MPO M + M^dagger without quantum numbers whose bond dimensions vary STRONGLY from bond to bond (profiles such as 1-3-9-2-3-1 or 1-4-5-1-4-1
    before doubling): bonds much larger than d^2 times their neighbour (funnels), bonds of dimension one in the interior, complex non-symmetric blocks.
    """
    dims = [1] + [int(rng.choice([1, 1, 2, 3, 4, 5, 6])) for _ in range(L - 1)] + [1]
    qd = np.zeros(d, dtype=int)
    M = ptn.MPO(qd, [np.zeros(D, dtype=int) for D in dims], fill='postpone')
    for i in range(L):
        shape = (d, d, dims[i], dims[i + 1])
        A = rng.normal(size=shape) + (1j * rng.normal(size=shape) if cplx else 0)
        M.A[i] = A / np.sqrt(d * shape[2])
    return mpo_sum(M, mpo_dagger(M))


def bond_gauge_pow2(rng, T, exps=(0, 0, 20, -20, 45, -45, 60, -60)):
    """Diagonal gauge with a LARGE DYNAMIC RANGE on the interior bonds of an MPS / MPO (in place): bond index j of bond i+1 is multiplied by 2**e_j on the
    tensor to its left and by 2**-e_j on the tensor to its right (exact powers of two: the represented object is unchanged bit for bit, every product of
    matching entries is the same number as before; only the basis of the bond is badly scaled, 1e+-18 between channels). Returns the largest |e_j| used."""
    L = len(T.A)
    big = 0
    for i in range(L - 1):
        if rng.random() < 0.6:
            D = T.A[i].shape[-1]
            e = np.array([int(x) for x in rng.choice(exps, size=D)])
            big = max(big, int(np.abs(e).max()))
            for arr, sgn, ax in ((T.A[i], 1, -1), (T.A[i + 1], -1, -2)):
                a = np.asarray(arr)
                if np.issubdtype(a.dtype, np.integer):
                    a = a.astype(float)
                shape = [1] * a.ndim
                shape[ax] = D
                f = np.ldexp(1.0, sgn * e).reshape(shape)
                if arr is T.A[i]:
                    T.A[i] = a * f
                else:
                    T.A[i + 1] = a * f
    return big


def shifted_operator(H, c):
    """H + c * identity as an MPO (harness-side block sum with the identity MPO whose first tensor carries the factor c): the same eigenvectors, the spectrum
    moved by c -- e.g. to an all-positive or a far negative spectrum. Requires dummy boundary bonds with label 0."""
    L = len(H.A)
    d = len(H.qd)
    I = ptn.MPO(H.qd, [np.zeros(1, dtype=int) for _ in range(L + 1)], fill='postpone')
    I.A = [np.identity(d, dtype=complex).reshape(d, d, 1, 1) * (c if i == 0 else 1.0) for i in range(L)]
    Hc = ptn.MPO(H.qd, [np.array(q, copy=True) for q in H.qD], fill='postpone')
    Hc.A = [np.array(a, dtype=complex) for a in H.A]
    return mpo_sum(Hc, I)
