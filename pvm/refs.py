"""
Independent reference models (the trusted base). Written without using any pytenet function.
Self-tested by `python -m pvm.selfcheck`.
"""
import collections
import itertools

import numpy as np
from scipy import sparse

# ---------------------------------------------------------------------------------------------------
# dense meaning of MPS / MPO tensor lists
# ---------------------------------------------------------------------------------------------------


def dense_state(Alist):
    """Tensors (d, Dl, Dr); site 0 most significant. Returns the vector (boundary bonds must be 1)."""
    v = np.ones((1, 1), dtype=complex)          # (phys, bond)
    for T in Alist:
        T = np.asarray(T)
        # v[p, a] T[s, a, b] -> w[p, s, b]
        w = np.tensordot(v, T, axes=([1], [1]))     # (p, s, b)
        v = w.reshape(w.shape[0] * w.shape[1], w.shape[2])
    assert v.shape[1] == 1, 'trailing bond must have dimension 1'
    return v.reshape(-1)


def dense_state_open(Alist):
    """As dense_state but keeps open boundary bonds: returns array (Dl, d^n, Dr)."""
    T0 = np.asarray(Alist[0])
    v = np.transpose(T0, (1, 0, 2)).astype(complex)        # (Dl, s, b)
    for T in Alist[1:]:
        T = np.asarray(T)
        w = np.tensordot(v, T, axes=([2], [1]))           # (Dl, p, s, b)
        v = w.reshape(w.shape[0], w.shape[1] * w.shape[2], w.shape[3])
    return v


def dense_operator(Alist):
    """Tensors (d_out, d_in, Dl, Dr); rows = first physical leg; site 0 most significant."""
    M = np.ones((1, 1, 1), dtype=complex)         # (row, col, bond)
    for W in Alist:
        W = np.asarray(W)
        # M[r, c, a] W[s, t, a, b] -> [r, s, c, t, b]
        X = np.tensordot(M, W, axes=([2], [2]))       # (r, c, s, t, b)
        X = np.transpose(X, (0, 2, 1, 3, 4))
        M = X.reshape(X.shape[0] * X.shape[1], X.shape[2] * X.shape[3], X.shape[4])
    assert M.shape[2] == 1
    return M[:, :, 0]


# ---------------------------------------------------------------------------------------------------
# quantum-number rules (own statement: on the index lists of the non-zero entries)
# ---------------------------------------------------------------------------------------------------

def sector_ok(T, qs, signs):
    """Every non-zero entry T[i0,i1,...] satisfies sum_k signs[k]*qs[k][ik] == 0."""
    T = np.asarray(T)
    if T.ndim != len(qs):
        return False
    for ax, q in enumerate(qs):
        if len(q) != T.shape[ax]:
            return False
    idx = np.nonzero(T)
    if len(idx[0]) == 0:
        return True
    tot = np.zeros(len(idx[0]), dtype=np.int64)
    for ax, (q, s) in enumerate(zip(qs, signs)):
        tot = tot + s * np.asarray(q, dtype=np.int64)[idx[ax]]
    return not np.any(tot)


def qn_ok(q, n):
    return (isinstance(q, np.ndarray) and q.ndim == 1 and np.issubdtype(q.dtype, np.integer)
            and len(q) == n)


def mps_invariant(psi):
    """Class invariant of an MPS (C02). Returns None if it holds, else a description."""
    L = len(psi.A)
    d = len(psi.qd)
    if not qn_ok(psi.qd, d):
        return f'qd is not an integer ndarray: {type(psi.qd).__name__}'
    if len(psi.qD) != L + 1:
        return f'len(qD)={len(psi.qD)} != L+1={L + 1}'
    for i, q in enumerate(psi.qD):
        if not (isinstance(q, np.ndarray) and q.ndim == 1 and np.issubdtype(q.dtype, np.integer)):
            return f'qD[{i}] is not a 1-D integer ndarray: {type(q).__name__} {getattr(q, "dtype", None)}'
    for i, a in enumerate(psi.A):
        if not isinstance(a, np.ndarray) or a.ndim != 3:
            return f'A[{i}] is not a 3-leg ndarray'
        if a.shape != (d, len(psi.qD[i]), len(psi.qD[i + 1])):
            return f'A[{i}].shape={a.shape} but labels have lengths {(d, len(psi.qD[i]), len(psi.qD[i + 1]))}'
        if not np.all(np.isfinite(a)):
            return f'A[{i}] has non-finite entries'
        if not sector_ok(a, [psi.qd, psi.qD[i], psi.qD[i + 1]], [1, 1, -1]):
            return f'A[{i}] violates the additive quantum-number rule'
    if L > 0 and (len(psi.qD[0]) != 1 or len(psi.qD[-1]) != 1):
        return 'boundary bond dimension is not 1'
    return None


def mpo_invariant(op):
    L = len(op.A)
    d = len(op.qd)
    if not qn_ok(op.qd, d):
        return f'qd is not an integer ndarray: {type(op.qd).__name__}'
    if len(op.qD) != L + 1:
        return f'len(qD)={len(op.qD)} != L+1={L + 1}'
    for i, q in enumerate(op.qD):
        if not (isinstance(q, np.ndarray) and q.ndim == 1 and np.issubdtype(q.dtype, np.integer)):
            return f'qD[{i}] is not a 1-D integer ndarray: {type(q).__name__} {getattr(q, "dtype", None)}'
    for i, a in enumerate(op.A):
        if not isinstance(a, np.ndarray) or a.ndim != 4:
            return f'A[{i}] is not a 4-leg ndarray'
        if a.shape != (d, d, len(op.qD[i]), len(op.qD[i + 1])):
            return f'A[{i}].shape={a.shape} but labels have lengths {(d, d, len(op.qD[i]), len(op.qD[i + 1]))}'
        if not np.all(np.isfinite(a)):
            return f'A[{i}] has non-finite entries'
        if not sector_ok(a, [op.qd, op.qd, op.qD[i], op.qD[i + 1]], [1, -1, 1, -1]):
            return f'A[{i}] violates the additive quantum-number rule'
    return None


# ---------------------------------------------------------------------------------------------------
# site operators, embedding, Fock space
# ---------------------------------------------------------------------------------------------------

def kron_all(ops):
    M = np.identity(1)
    for o in ops:
        M = np.kron(M, o)
    return M


def embed(L, d, terms):
    """terms: dict site -> d x d operator; identity elsewhere; site 0 most significant."""
    return kron_all([terms.get(i, np.identity(d)) for i in range(L)])


def spin_half():
    sx = np.array([[0., 1.], [1., 0.]])
    sy = np.array([[0., -1j], [1j, 0.]])
    sz = np.array([[1., 0.], [0., -1.]])
    return sx, sy, sz


def spin_one():
    s = 1 / np.sqrt(2.)
    sx = s * np.array([[0., 1., 0.], [1., 0., 1.], [0., 1., 0.]])
    sy = s * np.array([[0., -1j, 0.], [1j, 0., -1j], [0., 1j, 0.]])
    sz = np.diag([1., 0., -1.])
    return sx, sy, sz


def boson_ops(d):
    b = np.zeros((d, d))
    for n in range(1, d):
        b[n - 1, n] = np.sqrt(n)
    return b, b.T.copy(), np.diag(np.arange(d, dtype=float))


def fock_annihilators(n):
    """
    Annihilators a_0..a_{n-1} on the 2^n-dimensional Fock space as sparse matrices; mode 0 is the most
    significant bit, |1> = occupied; sign = (-1)^(number of occupied modes with index > i), i.e. the
    Jordan-Wigner Z string sits on the modes to the *right* (documented convention of the repository).
    """
    dim = 1 << n
    ops = []
    for i in range(n):
        bit = 1 << (n - 1 - i)
        rows, cols, vals = [], [], []
        for s in range(dim):
            if s & bit:
                lower = s & (bit - 1)
                sign = -1.0 if bin(lower).count('1') & 1 else 1.0
                rows.append(s ^ bit)
                cols.append(s)
                vals.append(sign)
        ops.append(sparse.csr_matrix((vals, (rows, cols)), shape=(dim, dim)))
    return ops


def molecular_reference(tkin, vint):
    """H = sum t_ij a+_i a_j + 1/2 sum v_ijkl a+_i a+_j a_l a_k (spinless), sparse."""
    tkin = np.asarray(tkin)
    vint = np.asarray(vint)
    L = tkin.shape[0]
    a = fock_annihilators(L)
    ad = [x.T.tocsr() for x in a]
    H = sparse.csr_matrix((1 << L, 1 << L), dtype=complex)
    for i in range(L):
        for j in range(L):
            if tkin[i, j] != 0:
                H = H + tkin[i, j] * (ad[i] @ a[j])
    for i in range(L):
        for j in range(L):
            if i == j:
                continue
            aa = ad[i] @ ad[j]
            for k in range(L):
                for l in range(L):
                    if k == l or vint[i, j, k, l] == 0:
                        continue
                    H = H + 0.5 * vint[i, j, k, l] * (aa @ a[l] @ a[k])
    return H


def spin_molecular_reference(tkin, vint):
    """Spin-orbital version; mode order (site, up), (site, down) with 'up' = first factor of the local kron."""
    tkin = np.asarray(tkin)
    vint = np.asarray(vint)
    L = tkin.shape[0]
    a = fock_annihilators(2 * L)
    ad = [x.T.tocsr() for x in a]
    dim = 1 << (2 * L)
    H = sparse.csr_matrix((dim, dim), dtype=complex)
    for i in range(L):
        for j in range(L):
            if tkin[i, j] != 0:
                for s in (0, 1):
                    H = H + tkin[i, j] * (ad[2 * i + s] @ a[2 * j + s])
    for i in range(L):
        for j in range(L):
            for s in (0, 1):
                for u in (0, 1):
                    if (i, s) == (j, u):
                        continue
                    aa = ad[2 * i + s] @ ad[2 * j + u]
                    for k in range(L):
                        for l in range(L):
                            if vint[i, j, k, l] == 0 or (l, u) == (k, s):
                                continue
                            H = H + 0.5 * vint[i, j, k, l] * (aa @ a[2 * l + u] @ a[2 * k + s])
    return H


# ---------------------------------------------------------------------------------------------------
# free-algebra polynomials: dict word(tuple of operator ids, length L) -> coefficient
# ---------------------------------------------------------------------------------------------------

def poly_clean(p):
    return {w: c for w, c in p.items() if c != 0}


def poly_add(p, q, alpha=1):
    r = dict(p)
    for k, v in q.items():
        r[k] = r.get(k, 0) + alpha * v
    return poly_clean(r)


def poly_reverse(p):
    return {tuple(reversed(w)): c for w, c in p.items()}


def poly_close(p, q, tol):
    keys = set(p) | set(q)
    scale = max([abs(c) for c in list(p.values()) + list(q.values())] + [1.0])
    return max([abs(p.get(k, 0) - q.get(k, 0)) for k in keys] + [0.0]) / scale <= tol


def poly_maxdiff(p, q):
    keys = set(p) | set(q)
    return max([abs(p.get(k, 0) - q.get(k, 0)) for k in keys] + [0.0])


def chains_poly(chains, L, oid_identity):
    """Sum of identity-padded chains. `chains`: objects with oids, coeff, istart."""
    p = {}
    for ch in chains:
        w = tuple([int(oid_identity)] * ch.istart + [int(o) for o in ch.oids] +
                  [int(oid_identity)] * (L - ch.istart - len(ch.oids)))
        assert len(w) == L
        p[w] = p.get(w, 0) + ch.coeff
    return poly_clean(p)


def graph_poly(g, maxterms=2_000_000):
    """
    Polynomial denoted by an operator graph, layer by layer from nid_terminal[0] following out-edges
    (eids[1]) until nid_terminal[1]; never enumerates paths. Returns (poly, length) with length = number of
    layers walked, or raises ValueError on structural problems (dangling edge targets, words of unequal
    length reaching the terminal).
    """
    t0, t1 = g.nid_terminal
    polys = {t0: {(): 1.0}}
    layer = [t0]
    depth = 0
    result = None
    while layer:
        newp = collections.defaultdict(dict)
        nxt = []
        for nid in layer:
            node = g.nodes[nid]
            for eid in node.eids[1]:
                e = g.edges[eid]
                if e.nids[0] != nid:
                    raise ValueError(f'edge {eid} listed as out-edge of node {nid} but starts at {e.nids[0]}')
                tgt = e.nids[1]
                if tgt not in g.nodes:
                    raise ValueError(f'edge {eid} points to missing node {tgt}')
                tp = newp[tgt]
                for w, c in polys[nid].items():
                    for oid, co in e.opics:
                        k = w + (int(oid),)
                        tp[k] = tp.get(k, 0) + c * co
                if tgt not in nxt:
                    nxt.append(tgt)
        if sum(len(v) for v in newp.values()) > maxterms:
            raise MemoryError('polynomial too large')
        depth += 1
        if t1 in newp and result is None:
            result = (dict(newp[t1]), depth)
        elif t1 in newp:
            raise ValueError('terminal node reached at two different depths')
        polys = newp
        layer = [n for n in nxt]
        # the terminal has no out-edges in a consistent graph; keep walking in case it has (inconsistent)
        if not layer or (layer == [t1] and not g.nodes[t1].eids[1]):
            break
    if result is None:
        if t0 == t1:
            return ({(): 1.0}, 0)
        raise ValueError('terminal node not reachable')
    return poly_clean(result[0]), result[1]


def graph_structure_ok(g, allow_dead_ends=False):
    """Independent structural checker of an operator graph; returns None or a description."""
    for k, node in g.nodes.items():
        if node.nid != k:
            return f'node key {k} != nid {node.nid}'
        for d in (0, 1):
            if len(set(node.eids[d])) != len(node.eids[d]):
                return f'node {k} lists an edge twice'
            for eid in node.eids[d]:
                if eid not in g.edges:
                    return f'node {k} references missing edge {eid}'
                if g.edges[eid].nids[1 - d] != k:
                    return f'edge {eid} does not point back to node {k}'
    for k, e in g.edges.items():
        if e.eid != k:
            return f'edge key {k} != eid {e.eid}'
        if len(e.nids) != 2:
            return f'edge {k} has {len(e.nids)} ends'
        for d in (0, 1):
            if e.nids[d] not in g.nodes:
                return f'edge {k} references missing node {e.nids[d]}'
            if k not in g.nodes[e.nids[d]].eids[1 - d]:
                return f'node {e.nids[d]} does not list edge {k}'
        ids = [i for i, _ in e.opics]
        if len(set(ids)) != len(ids):
            return f'edge {k} has a repeated operator id'
    for d in (0, 1):
        if g.nid_terminal[d] not in g.nodes:
            return 'terminal missing'
        if g.nodes[g.nid_terminal[d]].eids[d]:
            return f'terminal {d} has edges beyond it'
    # layering: every node has a unique depth from the start terminal and every non-terminal node has
    # in- and out-edges (otherwise the MPO conversion meets dangling bonds)
    depth = {g.nid_terminal[0]: 0}
    queue = [g.nid_terminal[0]]
    while queue:
        nid = queue.pop()
        for eid in g.nodes[nid].eids[1]:
            t = g.edges[eid].nids[1]
            if t in depth:
                if depth[t] != depth[nid] + 1:
                    return f'node {t} sits at two depths'
            else:
                depth[t] = depth[nid] + 1
                queue.append(t)
    if len(depth) != len(g.nodes):
        return 'nodes unreachable from the start terminal'
    if allow_dead_ends:
        # the library's own consistency check accepts nodes without outgoing edges (dead ends: they denote nothing); graphs built that way on purpose
        return None
    for nid, node in g.nodes.items():
        if nid != g.nid_terminal[1] and not node.eids[1]:
            return f'dangling node {nid} (no out-edge)'
        if nid != g.nid_terminal[0] and not node.eids[0]:
            return f'dangling node {nid} (no in-edge)'
    return None


def graph_layers(g):
    """List of node-id lists per depth from the start terminal."""
    layers = [[g.nid_terminal[0]]]
    while True:
        nxt = []
        for nid in layers[-1]:
            for eid in g.nodes[nid].eids[1]:
                t = g.edges[eid].nids[1]
                if t not in nxt:
                    nxt.append(t)
        if not nxt:
            break
        layers.append(nxt)
    return layers


def poly_dense(p, L, opmap, d):
    """Evaluate a polynomial under an operator map (own kron)."""
    M = np.zeros((d ** L, d ** L), dtype=complex)
    for w, c in p.items():
        M = M + c * kron_all([np.asarray(opmap[o]) for o in w])
    return M


# ---------------------------------------------------------------------------------------------------
# bipartite matching references
# ---------------------------------------------------------------------------------------------------

def max_matching_bruteforce(nu, nv, edges):
    """Exact maximum matching size by bitmask recursion over U (small graphs)."""
    adj = [0] * nu
    for (u, v) in edges:
        adj[u] |= (1 << v)

    from functools import lru_cache

    @lru_cache(maxsize=None)
    def best(u, used):
        if u == nu:
            return 0
        r = best(u + 1, used)
        free = adj[u] & ~used
        while free:
            b = free & (-free)
            r = max(r, 1 + best(u + 1, used | b))
            free ^= b
        return r
    return best(0, 0)


def max_matching_kuhn(nu, nv, edges):
    """Kuhn's augmenting-path algorithm, independent of Hopcroft-Karp (recursion depth <= nu)."""
    adj = [[] for _ in range(nu)]
    for (u, v) in edges:
        if v not in adj[u]:
            adj[u].append(v)
    match_v = [-1] * nv

    def augment(u, seen):
        for v in adj[u]:
            if v in seen:
                continue
            seen.add(v)
            if match_v[v] == -1 or augment(match_v[v], seen):
                match_v[v] = u
                return True
        return False
    return sum(1 for u in range(nu) if augment(u, set()))


def max_matching_iterative(nu, nv, edges):
    """Maximum matching size by scipy's (compiled, non-recursive) bipartite matching: reference for graphs too deep for a recursive search."""
    from scipy.sparse import csr_array
    from scipy.sparse.csgraph import maximum_bipartite_matching
    es = sorted(set((int(u), int(v)) for u, v in edges))
    if not es or nu == 0 or nv == 0:
        return 0
    a = csr_array((np.ones(len(es), dtype=np.int8), ([e[0] for e in es], [e[1] for e in es])), shape=(nu, nv))
    return int(np.sum(maximum_bipartite_matching(a.tocsr(), perm_type='column') >= 0))


# ---------------------------------------------------------------------------------------------------
# operator Schmidt rank, sector tools
# ---------------------------------------------------------------------------------------------------

def operator_schmidt_rank(M, d, L, cut, rtol=1e-9):
    """Rank of the dense operator M (d^L x d^L) across the cut after `cut` sites."""
    dl = d ** cut
    dr = d ** (L - cut)
    T = np.asarray(M).reshape(dl, dr, dl, dr).transpose(0, 2, 1, 3).reshape(dl * dl, dr * dr)
    s = np.linalg.svd(T, compute_uv=False)
    if s.size == 0 or s[0] == 0:
        return 0
    return int(np.sum(s > rtol * s[0]))


def half_counts(qd, k):
    """Counter: total charge -> number of product basis states on k sites."""
    c = collections.Counter({0: 1})
    for _ in range(k):
        n = collections.Counter()
        for q, m in c.items():
            for p in qd:
                n[q + int(p)] += m
        c = n
    return c


def classify_manifold(qd, L, q0, qt, qD):
    """
    'E' every bond saturated on ONE side for all compatible charge blocks (TDVP exact),
    'M' sector-complete but with mixed saturation, 'N' not sector-complete.
    Decided from quantum numbers alone.
    """
    qd = [int(x) for x in qd]
    cls = 'E'
    for k in range(1, L):
        nl = half_counts(qd, k)
        nr = half_counts(qd, L - k)
        blocks = collections.Counter(int(q) - q0 for q in qD[k])
        allL = True
        allR = True
        for q in nl:
            r = qt - q0 - q
            if nr.get(r, 0) == 0:
                continue
            D = blocks.get(q, 0)
            if D != min(nl[q], nr[r]):
                return 'N'
            if D != nl[q]:
                allL = False
            if D != nr[r]:
                allR = False
        # blocks with incompatible charge carry no weight but must not exist in excess? (harmless)
        if not (allL or allR):
            cls = 'M'
    return cls


def sector_basis_mask(qd, L, qtot):
    """Boolean mask over the d^L product basis: states of total charge qtot."""
    qd = np.asarray(qd, dtype=np.int64)
    tot = np.zeros(1, dtype=np.int64)
    for _ in range(L):
        tot = np.add.outer(tot, qd).reshape(-1)
    return tot == qtot


# ---------------------------------------------------------------------------------------------------
# size-independent references (transfer-matrix contractions, no dense object): used by the 'large' workloads
# ---------------------------------------------------------------------------------------------------

def mps_overlap(Bra, Ket):
    """<Bra|Ket> for tensor lists (d, Dl, Dr) with boundary bonds of dimension 1; first argument conjugated."""
    E = np.ones((1, 1), dtype=complex)              # (bra bond, ket bond)
    for B, K in zip(Bra, Ket):
        # E[b, k] conj(B)[s, b, b'] K[s, k, k'] -> E'[b', k']
        T = np.einsum('bk,sbc->ksc', E, np.conj(np.asarray(B)))
        E = np.einsum('ksc,skl->cl', T, np.asarray(K))
    assert E.shape == (1, 1)
    return complex(E[0, 0])


def mps_overlap_log(Bra, Ket, extended=False):
    """<Bra|Ket> as (mantissa, binary exponent): value = mantissa * 2**exponent, the transfer matrix is renormalised by an exact power of
    two after every site, so chains whose overlap leaves the floating-point range are handled. extended=True: the same contraction in numpy's long
    double (64-bit mantissa on x86): the difference between the two evaluations estimates the rounding error of ANY double-precision transfer-matrix
    evaluation of this overlap (the conditioning of the contraction, which can be poor on long chains)."""
    ct = np.clongdouble if extended else complex
    E = np.ones((1, 1), dtype=ct)
    ex = 0
    for B, K in zip(Bra, Ket):
        T = np.einsum('bk,sbc->ksc', E, np.conj(np.asarray(B)).astype(ct))
        E = np.einsum('ksc,skl->cl', T, np.asarray(K).astype(ct))
        m = float(np.abs(E).max())
        if m == 0:
            return 0j, 0
        k = int(np.frexp(m)[1])
        E = (np.ldexp(E.real, -k) + 1j * np.ldexp(E.imag, -k)).astype(ct)
        ex += k
    return (E[0, 0] if extended else complex(E[0, 0])), ex


def mpo_element(Bra, W, Ket):
    """<Bra| W |Ket> for MPS tensor lists and MPO tensors (d_out, d_in, Dl, Dr); own contraction order (tensordot), independent of the library."""
    E = np.ones((1, 1, 1), dtype=complex)           # (bra bond, mpo bond, ket bond)
    for B, O, K in zip(Bra, W, Ket):
        T = np.tensordot(E, np.asarray(K), axes=(2, 1))                      # b w t l
        T = np.tensordot(T, np.asarray(O), axes=((1, 2), (2, 1)))            # b l s x   (w with Dl, t with d_in)
        E = np.tensordot(np.conj(np.asarray(B)), T, axes=((0, 1), (2, 0)))   # c l x     (s with d_out, b with bra left bond)
        E = E.transpose(0, 2, 1)                                             # c x l
    assert E.shape == (1, 1, 1)
    return complex(E[0, 0, 0])


def product_state(rng, d, L, cplx=True):
    """Random product state as an MPS tensor list with bond dimension 1 (probe for large objects)."""
    return [(rng.normal(size=(d, 1, 1)) + (1j * rng.normal(size=(d, 1, 1)) if cplx else 0)) / np.sqrt(d) for _ in range(L)]


def random_probe(rng, d, L, D=2):
    """Random MPS tensor list with small bonds (entangled probe)."""
    dims = [1] + [D] * (L - 1) + [1]
    return [(rng.normal(size=(d, dims[i], dims[i + 1])) + 1j * rng.normal(size=(d, dims[i], dims[i + 1]))) / np.sqrt(d * dims[i]) for i in range(L)]


def first_sweep_reduction(qd, qD):
    """
    Structure-only classifier for single-site TDVP on a right-orthonormal start: (reduced, unsaturated).
    reduced: the QR steps of the first left-to-right sweep shrink an inner bond (some charge sector has more bond states than the left block
    can supply); unsaturated: such a shrunk bond is afterwards NOT saturated from the left in every charge sector (some sector carries fewer states
    than the left block offers). Uses the quantum numbers only (multiplicities per charge, generic tensors assumed).
    """
    from collections import Counter
    sup = Counter(int(x) for x in qD[0])
    reduced_any = False
    bad = False
    for i in range(len(qD) - 1):
        avail = Counter()
        for q, m in sup.items():
            for s in qd:
                avail[q + int(s)] += m
        mult = Counter(int(x) for x in qD[i + 1])
        new = Counter({q: min(mult[q], avail[q]) for q in mult if min(mult[q], avail[q]) > 0})
        if i < len(qD) - 2:
            reduced = any(mult[q] > avail[q] for q in mult)
            unsat = any(new[q] < avail[q] for q in avail if avail[q] > 0)
            reduced_any |= reduced
            bad |= reduced and unsat
        sup = new
    return reduced_any, bad
