"""C20 — compiled Hamiltonian MPOs are as compact as the operator allows."""
import copy

import numpy as np

from .. import gen, refs
from ..core import Workload
from ..env import ptn

MODELS = [('ising', 2, 8), ('xxz', 2, 8), ('xxz1', 3, 5), ('bose3', 3, 5), ('bose4', 4, 4), ('bose2', 2, 8), ('fermi', 4, 4), ('molecular', 2, 9), ('spin-molecular', 4, 5)]


def generic(rng, n):
    return tuple(float(x) for x in rng.choice([-1, 1], size=n) * rng.uniform(0.1, 2.0, size=n))


TRUTHY = [True, True, np.bool_(True), 1, np.int64(1)]          # the documented flag `optimize` in the forms callers produce (a comparison of numpy integers yields np.bool_)


def build(name, L, rng):
    if name == 'molecular':
        t = rng.uniform(0.1, 2, size=(L, L)) * rng.choice([-1, 1], size=(L, L))
        v = rng.uniform(0.1, 2, size=(L, L, L, L)) * rng.choice([-1, 1], size=(L, L, L, L))
        if rng.random() < 0.5:
            t = t + 1j * rng.uniform(0.1, 2, size=(L, L))
        opt = TRUTHY[int(rng.integers(0, len(TRUTHY)))]
        return ptn.molecular_hamiltonian_mpo(t, v, optimize=opt), {'tkin': t, 'optimize': repr(opt)}
    if name == 'spin-molecular':
        t = rng.uniform(0.1, 2, size=(L, L)) * rng.choice([-1, 1], size=(L, L))
        v = rng.uniform(0.1, 2, size=(L, L, L, L)) * rng.choice([-1, 1], size=(L, L, L, L))
        opt = TRUTHY[int(rng.integers(0, len(TRUTHY)))]
        return ptn.spin_molecular_hamiltonian_mpo(t, v, optimize=opt), {'tkin': t, 'optimize': repr(opt)}
    p = generic(rng, 3)
    if name.startswith('bose'):
        return ptn.bose_hubbard_mpo(int(name[4:]), L, *p), {'params': p}
    return gen.model(name, L, p), {'params': p}


def model_case(ctx, idx, rng):
    name, d, lmax = MODELS[idx % len(MODELS)]
    if ctx.tier == 'thorough' and name in ('xxz1', 'bose3'):
        lmax = 6
    if ctx.tier == 'thorough' and name == 'molecular':
        lmax = 10
    L = 2 + (idx // len(MODELS)) % (lmax - 1)
    H, par = build(name, L, rng)
    ctx.case((name, f'L{L}'), sample=dict(par, model=name, L=L), info=dict(par, model=name, L=L))
    detail = dict(par, model=name, L=L, bond_dims=H.bond_dims)
    M = refs.dense_operator(H.A)
    ranks = [1] + [refs.operator_schmidt_rank(M, d, L, c) for c in range(1, L)] + [1]
    ctx.ok('model.bond-dims==schmidt-ranks', list(H.bond_dims) == ranks, f'bond dims {H.bond_dims} vs operator Schmidt ranks {ranks}', detail)
    ctx.ok('model.bond-dims>=schmidt-ranks', all(b >= r for b, r in zip(H.bond_dims, ranks)), 'a bond is smaller than the Schmidt rank: the oracle or the MPO is wrong', detail)


ROUND = [1.0, -1.0, 2.0, -2.0, 0.5, 1.0, 1.0]


def build_round(name, L, rng):
    """Parameter points with exactly representable 'round' values (1.0 in particular: the value internal code likes to use as a sentinel):
    all parameters round, or generic parameters with one / a few entries replaced by exactly 1.0."""
    how = str(rng.choice(['all-round', 'one-unit', 'few-units']))
    if name in ('molecular', 'spin-molecular'):
        t = rng.uniform(0.1, 2, size=(L, L)) * rng.choice([-1, 1], size=(L, L))
        v = rng.uniform(0.1, 2, size=(L, L, L, L)) * rng.choice([-1, 1], size=(L, L, L, L))
        k = 1 if how == 'one-unit' else int(rng.integers(2, 2 + L))
        for _ in range(k):
            if rng.random() < 0.6 or how == 'one-unit':
                t[int(rng.integers(0, L)), int(rng.integers(0, L))] = float(rng.choice([1.0, 1.0, -1.0]))
            else:
                v[tuple(int(x) for x in rng.integers(0, L, size=4))] = float(rng.choice([1.0, 1.0, -1.0, 2.0]))
        fn = ptn.molecular_hamiltonian_mpo if name == 'molecular' else ptn.spin_molecular_hamiltonian_mpo
        opt = TRUTHY[int(rng.integers(0, len(TRUTHY)))]
        return fn(t, v, optimize=opt), {'tkin': t, 'how': how, 'optimize': repr(opt)}, how
    if how == 'all-round':
        p = tuple(float(rng.choice(ROUND)) for _ in range(3))
    else:
        p = list(generic(rng, 3))
        for j in ([int(rng.integers(0, 3))] if how == 'one-unit' else [0, 1, 2][:int(rng.integers(2, 4))]):
            p[j] = float(rng.choice([1.0, 1.0, -1.0]))
        p = tuple(p)
    if name.startswith('bose'):
        return ptn.bose_hubbard_mpo(int(name[4:]), L, *p), {'params': p, 'how': how}, how
    return gen.model(name, L, p), {'params': p, 'how': how}, how


def round_params_case(ctx, idx, rng):
    """Round parameter points (exactly 1.0, -1.0, 2.0, 0.5): wherever the operator Schmidt ranks at such a point equal those of a generic point of the
    same model and size (no accidental cancellation), the point behaves generically and the bond dimensions must equal the ranks."""
    name, d, lmax = MODELS[idx % len(MODELS)]
    L = 2 + (idx // len(MODELS)) % (lmax - 1)
    H, par, how = build_round(name, L, rng)
    Hg, _ = build(name, L, rng)                 # a generic point of the same model and size
    M = refs.dense_operator(H.A)
    Mg = refs.dense_operator(Hg.A)
    ranks = [1] + [refs.operator_schmidt_rank(M, d, L, c) for c in range(1, L)] + [1]
    ranks_g = [1] + [refs.operator_schmidt_rank(Mg, d, L, c) for c in range(1, L)] + [1]
    generic_like = ranks == ranks_g
    ctx.case((name, f'L{L}', 'round-' + how, 'generic-ranks' if generic_like else 'reduced-ranks'), nontrivial=generic_like, sample=dict(par, model=name, L=L), info=dict(par, model=name, L=L))
    detail = dict(par, model=name, L=L, bond_dims=H.bond_dims, ranks=ranks, generic_ranks=ranks_g)
    if generic_like:
        ctx.ok('model.bond-dims==schmidt-ranks[round-parameters]', list(H.bond_dims) == ranks, f'bond dims {H.bond_dims} vs operator Schmidt ranks {ranks} at a round parameter point', detail)
    else:
        ctx.skip('model.bond-dims==schmidt-ranks[round-parameters]')
    ctx.ok('model.bond-dims>=schmidt-ranks', all(b >= r for b, r in zip(H.bond_dims, ranks)), 'a bond is smaller than the Schmidt rank: the oracle or the MPO is wrong', detail)


def ising_site_dependent_case(ctx, idx, rng):
    """The Ising automaton of the library with SITE-DEPENDENT edges (callable active / opics): Z Z couplings present on a random subset of the bonds only,
    expressed on the opening edge, on the closing edge, or on both; site-dependent fields. Equivalent descriptions of one Hamiltonian must give the exact
    operator and, at every cut, a bond dimension equal to the operator Schmidt rank (nodes that cannot be completed to a path must be pruned)."""
    L = int(rng.integers(2, 8))
    bonds = [bool(rng.random() < 0.55) for _ in range(L - 1)]
    J = [float(x) for x in rng.choice([-1, 1], size=L - 1) * rng.uniform(0.3, 1.5, size=L - 1)]
    h = [float(x) for x in rng.choice([-1, 1], size=L) * rng.uniform(0.3, 1.5, size=L)]
    g = [float(x) for x in rng.choice([-1, 1], size=L) * rng.uniform(0.3, 1.5, size=L)]
    form = ('closing-edge', 'opening-edge', 'both-edges')[idx % 3]
    nt0, nt1, nz = ptn.AutOpNode(0, [], [], 0), ptn.AutOpNode(1, [], [], 0), ptn.AutOpNode(2, [], [], 0)
    au = ptn.AutOp([nt0, nt1, nz], [], [0, 1])
    au.add_connect_edge(ptn.AutOpEdge(0, [0, 0], [(0, 1.)]))
    au.add_connect_edge(ptn.AutOpEdge(1, [1, 1], [(0, 1.)]))
    open_on = (lambda i: i < L - 1 and bonds[i]) if form in ('opening-edge', 'both-edges') else True
    close_on = (lambda i: i >= 1 and bonds[i - 1]) if form in ('closing-edge', 'both-edges') else True
    au.add_connect_edge(ptn.AutOpEdge(2, [0, 2], (lambda i: [(1, J[i] if i < L - 1 else 0.0)]), open_on))
    au.add_connect_edge(ptn.AutOpEdge(3, [2, 1], [(1, 1.)], close_on))
    au.add_connect_edge(ptn.AutOpEdge(4, [0, 1], (lambda i: [(1, h[i])])))
    au.add_connect_edge(ptn.AutOpEdge(5, [0, 1], (lambda i: [(2, g[i])])))
    Z = np.diag([1., -1.]); X = np.array([[0., 1.], [1., 0.]]); I2 = np.identity(2)
    opmap = {0: I2, 1: Z, 2: X}
    ctx.case(('ising-site-dependent', f'L{L}', form, f'bonds{sum(bonds)}of{L - 1}'), sample={'L': L, 'bonds': bonds, 'form': form})
    detail = {'L': L, 'bonds': bonds, 'J': J, 'h': h, 'g': g, 'form': form}
    graph = ptn.OpGraph.from_automaton(au, L)
    op = ptn.MPO.from_opgraph([0, 0], graph, opmap)

    def site(o, i):
        out = np.ones((1, 1))
        for k in range(L):
            out = np.kron(out, o if k == i else I2)
        return out
    M = sum(h[i] * site(Z, i) + g[i] * site(X, i) for i in range(L))
    for i in range(L - 1):
        if bonds[i]:
            M = M + J[i] * site(Z, i) @ site(Z, i + 1)
    got = refs.dense_operator(op.A)
    ctx.close('automaton-model.dense==formula', float(np.abs(got - M).max()), 1e-12 * max(1.0, float(np.abs(M).max())), 'site-dependent Ising MPO differs from the formula', detail)
    ranks = [1] + [refs.operator_schmidt_rank(M, 2, L, c) for c in range(1, L)] + [1]
    ctx.ok('automaton-model.bond-dims==schmidt-ranks', list(op.bond_dims) == ranks, f'bond dims {list(op.bond_dims)} vs operator Schmidt ranks {ranks} ({form})', detail)


def long_lattice_case(ctx, idx, rng):
    """Lattices far beyond the dense reach (Fermi-Hubbard 300..330, Bose-Hubbard 320..340, XXZ 520..540 sites, optimized molecular L = 12, 15, 18): per-site
    bipartite problems with hundreds to 14641 right vertices against a handful of left vertices (size- and ratio-dependent shortcuts in the cover routine).
    Reference for the translation-invariant models: the bond profile of the SAME model at L = 12 (dense-checked family), whose first two, interior and last
    two bonds must repeat; for the molecular model the closed formula of the optimal construction (Chan et al.; D1 + D2 + D3 below)."""
    which = ('fermi', 'bose3', 'xxz', 'molecular')[idx % 4]
    p = generic(rng, 3)
    if which == 'molecular':
        L = (12, 15, 18)[(idx // 4) % 3] if ctx.tier == 'thorough' else 12
        t = rng.normal(size=(L, L)); v = rng.normal(size=(L, L, L, L))
        H = ptn.molecular_hamiltonian_mpo(t, v, optimize=True)
        want = []
        for i in range(L + 1):
            nl, nr = i, L - i
            n = min(nl, nr)
            D1 = 2 if 1 < i < L - 1 else 1
            D2 = 2 * min(nl ** 2 * (nl - 1) // 2, nr) + 2 * min(nl, nr ** 2 * (nr - 1) // 2)
            D3 = 2 * n * (n - 1) // 2 + n ** 2
            want.append(D1 + D2 + D3)
    else:
        L = {'fermi': int(rng.integers(300, 331)), 'bose3': int(rng.integers(320, 341)), 'xxz': int(rng.integers(520, 541))}[which]
        if ctx.tier == 'quick':
            L = {'fermi': 300, 'bose3': 322, 'xxz': 200}[which]
        mk = {'fermi': lambda n: ptn.fermi_hubbard_mpo(n, *p), 'bose3': lambda n: ptn.bose_hubbard_mpo(3, n, *p), 'xxz': lambda n: ptn.heisenberg_xxz_mpo(n, *p)}[which]
        H = mk(L)
        small = list(mk(12).bond_dims)
        want = small[:3] + [small[6]] * (L + 1 - 6) + small[-3:]
    ctx.case(('long-lattice', which, f'L{L}'), sample={'model': which, 'L': L, 'params': p if which != 'molecular' else None})
    detail = {'model': which, 'L': L, 'params': p}
    got = list(H.bond_dims)
    bad = [(i, g, w) for i, (g, w) in enumerate(zip(got, want)) if g != w][:6]
    ctx.ok('long-lattice.bond-dims==reference-profile', got == want, f'bond dimensions differ from the reference profile at (bond, got, expected) {bad}', detail)


def chains_case(ctx, idx, rng):
    L = int(rng.integers(2, 9))
    kind = str(rng.choice(['few', 'many', 'shared-prefix', 'shared-suffix', 'with-zeros']))
    n = int(rng.integers(1, 6)) if kind == 'few' else int(rng.integers(4, 30))
    chains = [gen.rand_chain(rng, L, nops=int(rng.integers(1, 4)), charges=bool(rng.random() < 0.3), allow_zero=(kind == 'with-zeros')) for _ in range(n)]
    if kind in ('shared-prefix', 'shared-suffix'):
        base = gen.rand_chain(rng, L, nops=3, charges=False)
        base.oids = [int(x) for x in rng.integers(0, 4, size=L)]; base.qnums = [0] * (L + 1); base.istart = 0
        for _ in range(int(rng.integers(2, 10))):
            c = copy.deepcopy(base)
            k = int(rng.integers(0, L))
            if kind == 'shared-prefix':
                c.oids[k:] = [int(x) for x in rng.integers(0, 4, size=L - k)]
            else:
                c.oids[:k + 1] = [int(x) for x in rng.integers(0, 4, size=k + 1)]
            c.coeff = float(rng.choice(gen.DYADIC))
            chains.append(c)
    if not any(c.coeff != 0 for c in chains):
        chains[0].coeff = 1.0
    nnz = sum(1 for c in chains if c.coeff != 0)
    ctx.case(('chains', kind, f'L{min(L, 5)}', f'n{min(nnz, 10)}'), sample={'L': L, 'chains': [(c.oids, c.coeff, c.istart) for c in chains[:6]]},
             info={'L': L, 'chains': [(c.oids, c.qnums, c.coeff, c.istart) for c in chains]})
    detail = ctx.cur_info
    g = ptn.OpGraph.from_opchains(chains, L, 0)
    w = [len(l) for l in refs.graph_layers(g)]
    ctx.ok('chains.bond-dim<=number-of-chains', len(w) == L + 1 and max(w) <= nnz, f'layer widths {w} exceed the number of non-zero chains {nnz}', detail)
    # lower bound: the exact symbolic rank of the coefficient matrix across each cut (words as basis) bounds the width from below;
    # from_opchains promises the minimum vertex cover, which is optimal for the bipartite structure: width == rank when no
    # further linear dependencies exist between coefficients (generic). Here: check against the cover-size bound only.
    poly = refs.chains_poly(chains, L, 0)
    for c in range(1, L):
        ctx.ok('chains.bond-dim<=min(prefixes,suffixes)', w[c] <= max(1, min(len({(tuple(ch.padded(L, 0).oids[:c]), tuple(ch.padded(L, 0).qnums[:c + 1])) for ch in chains if ch.coeff != 0}),
                                                                       len({(tuple(ch.padded(L, 0).oids[c:]), tuple(ch.padded(L, 0).qnums[c:])) for ch in chains if ch.coeff != 0}))),
               f'width {w[c]} at cut {c} exceeds the number of distinct half-chains on either side', detail)
    # simplify never increases a bond dimension
    g2 = copy.deepcopy(g)
    g2.simplify()
    w2 = [len(l) for l in refs.graph_layers(g2)]
    ctx.ok('simplify.no-bond-increase', len(w2) == len(w) and all(a <= b for a, b in zip(w2, w)), f'simplify changed widths {w} -> {w2}', detail)
    # MPO bond dimensions are the layer widths
    if all(not any(c.qnums) for c in chains):
        op = ptn.MPO.from_opgraph(np.zeros(2, dtype=int), g, {k: np.identity(2) for k in range(0, 5)})
        ctx.ok('mpo.bond-dims==layer-widths', list(op.bond_dims) == w, f'MPO bonds {op.bond_dims} vs widths {w}', detail)


def random_graph_case(ctx, idx, rng):
    L = int(rng.integers(1, 7))
    g = gen.rand_graph(rng, L, maxw=4, nops=3, charges=bool(rng.random() < 0.5))
    w = [len(l) for l in refs.graph_layers(g)]
    ctx.case(('simplify', f'L{L}', f'w{max(w)}'), sample={'L': L, 'widths': w})
    g.simplify()
    w2 = [len(l) for l in refs.graph_layers(g)]
    ctx.ok('simplify.no-bond-increase', len(w2) == len(w) and all(a <= b for a, b in zip(w2, w)), f'simplify changed widths {w} -> {w2}', {'L': L, 'before': w, 'after': w2})


SPEC = {
    'id': 'C20',
    'rule': ('models: Ising (automaton), XXZ, spin-1 XXZ, Bose-Hubbard d=2,3,4, Fermi-Hubbard (chains), optimized molecular and spin-molecular, every '
             'L from 2 to the dense reach (8 for two-level sites, 5-6 for three-level, 4 for four-level, 9-10 molecular (sites with far more than 128 distinct half-chains), 5 spin-molecular), generic parameters '
             '|p| in [0.1, 2] with random signs: bond_dims == numerical operator Schmidt rank (relative threshold 1e-9) at every cut; random chain '
             'lists (few/many/shared prefixes/suffixes/zero coefficients): layer width <= number of non-zero chains and <= number of distinct '
             'half-chains on either side; simplify never increases a width. distinct = (model or kind, L, size).'),
    'deciding': ['model.bond-dims==schmidt-ranks', 'chains.bond-dim<=number-of-chains', 'simplify.no-bond-increase'],
    'workloads': [
        Workload('models', model_case, quick=300, thorough=16200),
        Workload('round-parameters', round_params_case, quick=200, thorough=12000),
        Workload('long-lattice', long_lattice_case, quick=4, thorough=24),
        Workload('ising-site-dependent', ising_site_dependent_case, quick=240, thorough=12000),
        Workload('chains', chains_case, quick=1800, thorough=200000),
        Workload('simplify', random_graph_case, quick=900, thorough=100000),
    ],
    'shards': {'quick': 4, 'thorough': 16},
    'assumptions': ['operator Schmidt rank from numpy SVD of the reshaped dense operator with relative threshold 1e-9; parameters generic by construction'],
}
