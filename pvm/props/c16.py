"""C16 — operator-graph rewrites preserve the denoted operator and graph consistency."""
import copy
from itertools import combinations

import numpy as np

from .. import gen, monitor, refs
from ..core import Workload, CaseAbort
from ..env import ptn


def dump(g):
    return {'nodes': {k: (list(n.eids[0]), list(n.eids[1]), n.qnum) for k, n in g.nodes.items()},
            'edges': {k: (list(e.nids), list(e.opics)) for k, e in g.edges.items()}, 'terminal': list(g.nid_terminal)}


def consistent(ctx, g, what, detail):
    st = refs.graph_structure_ok(g, allow_dead_ends=getattr(ctx, 'allow_dead_ends', False))
    a = ctx.ok('rewrite.structure-after', st is None, f'after {what}: {st}', detail)
    b = ctx.ok('rewrite.is_consistent-after', bool(g.is_consistent()), f'after {what}: is_consistent() is False', detail)
    return a and b


def mergeable_pairs(g, direction):
    """Edge pairs satisfying the documented merge conditions (same base node in `direction`; same far node, or equal
    operators, far nodes with a single edge towards the base and equal quantum numbers)."""
    out = []
    for nid, node in g.nodes.items():
        for e1, e2 in combinations(node.eids[1 - direction], 2):
            a, b = g.edges[e1], g.edges[e2]
            if a.nids[1 - direction] == b.nids[1 - direction]:
                out.append((e1, e2, 'same-far-node'))
            elif a.opics == b.opics:
                n1, n2 = g.nodes[a.nids[1 - direction]], g.nodes[b.nids[1 - direction]]
                if len(n1.eids[direction]) == 1 and len(n2.eids[direction]) == 1 and n1.qnum == n2.qnum:
                    out.append((e1, e2, 'fuse-nodes'))
    return out


def widths(g):
    return [len(l) for l in refs.graph_layers(g)]


def apply_rewrite(ctx, g, poly, rng, L, label_hist):
    """Applies one random rewrite in place; returns the expected polynomial afterwards."""
    op = str(rng.choice(['simplify', 'merge', 'rename-node', 'rename-edge', 'add', 'flip', 'illegal-rename']))
    if getattr(ctx, 'allow_dead_ends', False):
        # graphs with dead-end nodes: only the rewrites whose meaning does not depend on every node lying on a start-to-end path
        op = str(rng.choice(['simplify', 'merge', 'merge', 'rename-node', 'rename-edge']))
    detail = {'before': dump(g), 'op': op, 'history': list(label_hist)}
    ctx.cur_info = detail
    if op == 'simplify':
        n0, e0, w0 = len(g.nodes), len(g.edges), widths(g)
        merges = [0]

        def around(orig, self, eid1, eid2, direction):
            merges[0] += 1
            if merges[0] > e0 + 1:
                raise monitor.StepBudgetExceeded(f'simplify performed more than |E|+1 = {e0 + 1} merges')
            return orig(self, eid1, eid2, direction)
        with monitor.attached('pytenet.opgraph.OpGraph.merge_edges', around):
            try:
                r = g.simplify()
            except monitor.StepBudgetExceeded as e:
                ctx.fail('simplify.terminates-within-budget', str(e), detail)
                raise CaseAbort()
        ctx.count('simplify.terminates-within-budget')
        ctx.ok('simplify.returns-self', r is g, 'simplify must return the graph', detail)
        ctx.ok('simplify.counts-do-not-increase', len(g.nodes) <= n0 and len(g.edges) <= e0, f'nodes {n0}->{len(g.nodes)}, edges {e0}->{len(g.edges)}', detail)
        if consistent(ctx, g, op, detail) and not getattr(ctx, 'allow_dead_ends', False):
            w1 = widths(g)
            ctx.ok('simplify.layer-widths-do-not-increase', len(w1) == len(w0) and all(a <= b for a, b in zip(w1, w0)), f'widths {w0} -> {w1}', detail)
            # fixed point: nothing mergeable is left
            left = mergeable_pairs(g, 0) + mergeable_pairs(g, 1)
            ctx.ok('simplify.fixed-point', not left, f'mergeable edge pairs remain after simplify: {left[:3]}', detail)
        label_hist.append('simplify')
        return poly
    if op == 'merge':
        direction = int(rng.integers(0, 2))
        pairs = mergeable_pairs(g, direction)
        if not pairs:
            return None
        e1, e2, kind = pairs[int(rng.integers(0, len(pairs)))]
        if rng.random() < 0.5:
            e1, e2 = e2, e1
        n0, e0 = len(g.nodes), len(g.edges)
        g.merge_edges(e1, e2, direction)
        ctx.ok('merge.counts', len(g.edges) == e0 - 1 and len(g.nodes) == n0 - (1 if kind == 'fuse-nodes' else 0), f'{kind}: nodes {n0}->{len(g.nodes)}, edges {e0}->{len(g.edges)}', detail)
        label_hist.append(f'merge-{kind}-dir{direction}')
        return poly
    if op == 'rename-node':
        cur = int(rng.choice(list(g.nodes.keys())))
        new = max(g.nodes.keys()) + int(rng.integers(1, 5)) if rng.random() < 0.7 else min(g.nodes.keys()) - int(rng.integers(1, 4))
        g.rename_node_id(cur, new)
        ctx.ok('rename-node.effect', new in g.nodes and cur not in g.nodes and g.nodes[new].nid == new, 'node not renamed', detail)
        label_hist.append('rename-node' + ('-terminal' if new in g.nid_terminal else ''))
        return poly
    if op == 'rename-edge':
        cur = int(rng.choice(list(g.edges.keys())))
        new = max(g.edges.keys()) + int(rng.integers(1, 5)) if rng.random() < 0.7 else min(g.edges.keys()) - int(rng.integers(1, 4))
        g.rename_edge_id(cur, new)
        ctx.ok('rename-edge.effect', new in g.edges and cur not in g.edges and g.edges[new].eid == new, 'edge not renamed', detail)
        label_hist.append('rename-edge')
        return poly
    if op == 'illegal-rename':
        d0 = monitor.digest(g)
        which = int(rng.integers(0, 4))
        nk, ek = list(g.nodes.keys()), list(g.edges.keys())
        try:
            if which == 0:
                g.rename_node_id(max(nk) + 17, max(nk) + 18)
            elif which == 1:
                g.rename_node_id(nk[0], nk[-1] if len(nk) > 1 else nk[0])
            elif which == 2:
                g.rename_edge_id(max(ek) + 17, max(ek) + 18)
            else:
                g.rename_edge_id(ek[0], ek[-1] if len(ek) > 1 else ek[0])
            raised = False
        except ValueError:
            raised = True
        ctx.ok('illegal-rename.raises-ValueError', raised, f'illegal rename (variant {which}) did not raise ValueError', detail)
        ctx.ok('illegal-rename.graph-unchanged', monitor.digest(g) == d0, 'graph changed by a rejected rename', detail)
        label_hist.append('illegal-rename')
        return poly
    if op == 'add':
        collide = str(rng.choice(['same-range', 'offset', 'disjoint', 'self-copy', 'flipped-copy', 'swapped-terminal-ids', 'fully-disjoint-ids', 'same-object']))
        if collide == 'same-object':
            # the graph added to ITSELF (the very same object): twice the operator
            r = g.add(g)
            ctx.ok('add.returns-self', r is g, 'add must return the graph', detail)
            label_hist.append('add-same-object')
            return refs.poly_add(poly, poly)
        if collide == 'self-copy':
            h = copy.deepcopy(g)
        elif collide == 'flipped-copy':
            h = copy.deepcopy(g)
            h.flip()                      # same ids, terminal ids exactly swapped
        else:
            base = {'same-range': min(g.nodes.keys()), 'offset': min(g.nodes.keys()) + 1, 'disjoint': max(g.nodes.keys()) + 50,
                    'swapped-terminal-ids': max(g.nodes.keys()) + 50, 'fully-disjoint-ids': max(g.nodes.keys()) + 50}[collide]
            h = gen.rand_graph(rng, L, idbase=int(base), maxw=3, nops=3, charges=False, pool=getattr(ctx, 'pool', None))
            if collide == 'swapped-terminal-ids':
                # the other graph's terminals carry this graph's terminal ids in exchanged order
                t0, t1 = h.nid_terminal
                a0, a1 = g.nid_terminal
                if a0 != a1 and a0 not in h.nodes and a1 not in h.nodes:
                    h.rename_node_id(t0, a1)
                    h.rename_node_id(t1, a0)
            if collide == 'fully-disjoint-ids' and g.edges:
                # edge ids disjoint as well
                shift = max(g.edges.keys()) + 100
                for eid in sorted(h.edges.keys(), reverse=True):
                    h.rename_edge_id(eid, eid + shift)
        # the other graph must have the same terminal charges to denote a compatible operator
        h.nodes[h.nid_terminal[0]].qnum = g.nodes[g.nid_terminal[0]].qnum
        h.nodes[h.nid_terminal[1]].qnum = g.nodes[g.nid_terminal[1]].qnum
        ph, _ = refs.graph_poly(h)
        dh = monitor.digest(h)
        dump_h = dump(h)
        detail['other'] = dump_h
        r = g.add(h)
        ctx.ok('add.returns-self', r is g, 'add must return the graph', detail)
        ctx.ok('add.other-graph-untouched', monitor.digest(h) == dh, 'add modified the other graph', detail)
        # no state shared with the other graph: mutating `other` afterwards must not affect g
        before = monitor.digest(g)
        for e in h.edges.values():
            e.opics = [(i, c * 3) for i, c in e.opics]
            e.nids[0] = -999
        for n in h.nodes.values():
            n.eids[0].clear()
        ctx.ok('add.no-shared-state', monitor.digest(g) == before, 'graph shares mutable state with the added graph', detail)
        label_hist.append(f'add-{collide}')
        return refs.poly_add(poly, ph)
    if op == 'flip':
        g.flip()
        label_hist.append('flip')
        return refs.poly_reverse(poly)
    return None


def history_case(ctx, idx, rng):
    L = int(rng.integers(1, 7)) if idx % 10 else int(rng.integers(7, 10))
    charges = bool(rng.random() < 0.5)
    pool = gen.OID_POOLS[int(rng.integers(0, len(gen.OID_POOLS)))]
    ctx.pool = pool
    g = gen.rand_graph(rng, L, idbase=int(rng.integers(0, 4)), maxw=(4 if rng.random() < 0.3 else 3) if idx % 6 != 1 else 2, nops=3, charges=charges, pool=pool, zero_edges=bool(idx % 4 == 3))
    twins = 0
    ctx.allow_dead_ends = False
    if idx % 3 == 1:
        # duplicated path prefixes / suffixes: twin nodes reached through IDENTICAL operator lists, with equal or with different labels
        dead = bool(idx % 9 == 4)
        twins = gen.add_twin_paths(rng, g, dead_ends=dead)
        ctx.allow_dead_ends = dead
    near = idx % 5 == 2
    if near:
        # coefficients that agree to 6..12 digits without being equal (a tolerance-based operator comparison would merge distinct edges);
        # polynomials are then compared to 1e-12 of the largest coefficient instead of exactly
        for e in g.edges.values():
            e.opics = [(o, c * (1 + float(rng.choice([0, 1e-12, -1e-9, 1e-7, 1e-6, -3e-6, 3e-6, 8e-6])))) for o, c in e.opics]
    same = (lambda a, b: refs.poly_close(a, b, 1e-12)) if near else (lambda a, b: a == b)
    poly, depth = refs.graph_poly(g)
    hist = []
    nsteps = int(rng.integers(1, 9))
    for step in range(nsteps):
        exp = apply_rewrite(ctx, g, poly, rng, L, hist)
        if exp is None:
            continue
        detail = ctx.cur_info
        if not consistent(ctx, g, hist[-1], detail):
            raise CaseAbort()
        got, dep = refs.graph_poly(g)
        if not ctx.allow_dead_ends:
            # (the library's `length` follows first out-edges and is not meaningful once a dead end exists)
            ctx.ok('rewrite.length-kept', dep == L and g.length == L, f'after {hist[-1]}: length {g.length}', detail)
        if not ctx.ok('rewrite.polynomial', same(got, exp), f'after {hist[-1]}: graph denotes {dict(list(got.items())[:4])}..., expected {dict(list(exp.items())[:4])}...', detail):
            raise CaseAbort()
        poly = exp
        ctx.event('rewrite:' + hist[-1].split('-')[0])
    ctx.case(('rewrites', f'L{min(L, 4)}', 'charged' if charges else 'uncharged', 'near-equal-coefficients' if near else 'dyadic-coefficients', 'twin-paths' if twins else 'no-twins', 'ids-default' if pool is None else f'ids{pool}') + tuple(hist), nontrivial=len(hist) >= 1,
             sample={'L': L, 'history': hist})


def chains_then_rewrites(ctx, idx, rng):
    """Rewrites on graphs produced by the repository's own constructors (from_opchains)."""
    L = int(rng.integers(1, 6))
    ctx.pool = None
    chains = [gen.rand_chain(rng, L, nops=2, charges=False) for _ in range(int(rng.integers(1, 10)))]
    g = ptn.OpGraph.from_opchains(chains, L, 0)
    poly = refs.chains_poly(chains, L, 0)
    hist = ['from_opchains']
    for step in range(int(rng.integers(1, 5))):
        exp = apply_rewrite(ctx, g, poly, rng, L, hist)
        if exp is None:
            continue
        detail = ctx.cur_info
        if not consistent(ctx, g, hist[-1], detail):
            raise CaseAbort()
        got, dep = refs.graph_poly(g)
        if not ctx.ok('rewrite.polynomial', got == exp, f'after {hist[-1]}: polynomial changed', detail):
            raise CaseAbort()
        poly = exp
    ctx.case(('chains-rewrites', f'L{min(L, 4)}') + tuple(hist), sample={'L': L, 'history': hist})


SPEC = {
    'id': 'C16',
    'rule': ('random consistent layered graphs (L 1..6, widths 1..4, parallel edges, multi-operator edges with cancelling coefficients, node charges, '
             'non-contiguous and colliding id ranges; every third graph with twin paths: duplicated path prefixes / suffixes through identical operator lists whose twin nodes carry equal or different labels) and graphs from from_opchains are driven through 1..8 random rewrites: simplify, merge_edges '
             '(on pairs satisfying the documented conditions, both directions, both argument orders), rename_node_id / rename_edge_id (incl. terminals, '
             'negative ids), illegal renames, add (same / offset / disjoint id ranges), flip. After each: exact polynomial equality with the expected '
             'operator, own structural checker and is_consistent(), counts/widths under simplify, fixed point, merge budget |E|+1, other graph '
             'digest-identical and state-disjoint. distinct = distinct rewrite sequences.'),
    'deciding': ['rewrite.polynomial', 'rewrite.structure-after', 'rewrite.is_consistent-after', 'simplify.counts-do-not-increase',
                 'add.other-graph-untouched', 'illegal-rename.raises-ValueError', 'illegal-rename.graph-unchanged', 'simplify.terminates-within-budget'],
    'workloads': [
        Workload('histories', history_case, quick=2500, thorough=300000),
        Workload('chains-rewrites', chains_then_rewrites, quick=500, thorough=80000),
    ],
    'shards': {'quick': 2, 'thorough': 16},
    'assumptions': ['free-algebra polynomial as the meaning of a graph'],
}
