import importlib

IDS = ['C%02d' % i for i in range(1, 21)]


def load(pid):
    mod = importlib.import_module('pvm.props.' + pid.lower())
    return mod.SPEC
