"""C10 — DMRG energies are variational, consistent with the returned state and monotone (TRACE on every local Ritz value)."""
import copy
import itertools

import numpy as np

from .. import gen, monitor, refs
from ..core import Workload
from ..env import ptn
from .c09 import MODELS, sector_list

TOL = 1e-9


def sector_min(mH, qd, L, qrel):
    mask = refs.sector_basis_mask(qd, L, qrel)
    if not mask.any():
        return None
    return float(np.linalg.eigvalsh(mH[np.ix_(mask, mask)])[0])


def run_dmrg(ctx, H, psi, two, nsweeps, numiter, tol_split, detail, label):
    """Runs one DMRG call under the trace monitor; returns (energies, local trace) after checking consistency."""
    local = []
    splits = []

    def around_ret(orig, sv, tol):
        idx = orig(sv, tol)
        try:
            splits.append((len(sv), len(idx)))
        except Exception:
            splits.append((None, None))
        return idx

    def around(orig, Lb, Rb, W, Astart, numiter_):
        out = orig(Lb, Rb, W, Astart, numiter_)
        try:
            local.append(float(np.real(out[0])))
        except Exception:
            local.append(float('nan'))
        return out
    if np.any(psi.qd) and (nsweeps + numiter + psi.nsites + int(two)) % 4 == 0:
        # the operator in a different, equally valid labelling (shifted physical labels): the state's own labels are the ones that count
        H = gen.relabelled_operator(np.random.default_rng(nsweeps * 1000 + numiter), H)
    dH = monitor.digest(H)
    fn = ptn.calculate_ground_state_local_twosite if two else ptn.calculate_ground_state_local_singlesite
    with monitor.attached('pytenet.minimization._minimize_local_energy', around), monitor.attached('pytenet.bond_ops.retained_bond_indices', around_ret), monitor.write_protected(H):
        if numiter == 25 and not tol_split and nsweeps % 2:
            en = fn(H, psi, nsweeps)                  # documented defaults: numiter_lanczos = 25, tol_split = 0
        elif two:
            en = fn(H, psi, nsweeps, numiter_lanczos=numiter, tol_split=tol_split) if tol_split else fn(H, psi, nsweeps, numiter_lanczos=numiter)
        else:
            en = fn(H, psi, nsweeps, numiter_lanczos=numiter)
    ctx.ok('hamiltonian-untouched', monitor.digest(H) == dH, 'DMRG modified the Hamiltonian', detail)
    # did the LAST singular-value truncation of the run keep everything? (then the returned state is exactly the last optimised one)
    run_dmrg.last_split_complete = bool(splits) and splits[-1][0] is not None and splits[-1][0] == splits[-1][1]
    run_dmrg.splits = len(splits)
    return np.asarray(en), local


def symmetric_sector_case(ctx, idx, rng):
    """Directed runs in sectors with an INTERNAL symmetry (total S^z = 0 of the XXZ chains: spin flip; half filling of the Bose chain is not symmetric and serves
    as control): once the state has converged, a local start vector can be exactly orthogonal to the ground state of a perturbed local problem by symmetry.
    Krylov dimension at or above the local dimension, three to five sweeps, zero split tolerance; every C10 relation of the runs workload is demanded."""
    name = ('xxz', 'xxz1', 'xxz', 'bose3')[(idx // 2) % 4]
    L = {'xxz': int(rng.choice([4, 4, 6])), 'xxz1': int(rng.integers(3, 6)), 'bose3': int(rng.integers(3, 6))}[name]
    dmrg_case(ctx, idx, rng, force={'src': name, 'L': L, 'qL': 0 if name != 'bose3' else L // 2, 'prof': str(rng.choice(['max', 'random'])), 'nsweeps': int(rng.integers(3, 6))})


def dmrg_case(ctx, idx, rng, force=None):
    two = bool(idx % 2)
    src = str(rng.choice(['xxz', 'xxz1', 'bose3', 'ising', 'fermi', 'hermitian', 'nn-pattern', 'nn-pattern']))
    if force:
        src = force['src']
    if src == 'nn-pattern':
        # hand-built automaton-form MPO with site-dependent couplings (staggered A-B-A-B, impurity, period 3, blocks, random, uniform)
        d = int(rng.choice([2, 3]))
        L = int(rng.integers(2, 8 if d == 2 else 6))
        qd = rng.integers(-1, 2, size=d) if rng.random() < 0.6 else np.zeros(d, dtype=int)
        H, pat, _ = gen.nn_pattern_hamiltonian(rng, qd, L, cplx=bool(rng.random() < 0.5))
        src = 'nn-' + pat
    elif src == 'hermitian':
        d = int(rng.choice([2, 3]))
        L = int(rng.integers(2, 7 if d == 2 else 5))
        qd = rng.integers(-1, 2, size=d) if rng.random() < 0.6 else np.zeros(d, dtype=int)
        H = gen.rand_hermitian_mpo(rng, qd, L, Dmax=2)
    else:
        d = gen.MODEL_D[src]
        lmax = 7
        while d ** lmax > 512:
            lmax -= 1
        L = int(rng.integers(2, lmax + 1))
        if force:
            L = force['L']
        H = gen.model(src, L, gen.generic_params(rng))
    shift = ''
    if idx % 4 == 1 and not force and int(H.qD[0][0]) == 0 and int(H.qD[-1][0]) == 0 and len(H.qD[0]) == 1 and len(H.qD[-1]) == 1:
        # the same operator with its spectrum moved far up or down (H + c 1, |c| = 2..5 ||H||): all-positive / all-negative spectra -- an energy that
        # is rescaled, or compared in magnitude, behaves differently on the two sides of zero
        c = float(rng.choice([-1, 1])) * float(rng.uniform(2, 5)) * max(1.0, float(np.linalg.norm(refs.dense_operator(H.A), 2)))
        H = gen.shifted_operator(H, c)
        shift = '+shifted-up' if c > 0 else '+shifted-down'
    prof = str(rng.choice(['random', 'random', 'one', 'max', 'over']))
    if force:
        prof = force['prof']
    if idx % 9 == 8 and len(H.qd) ** L <= 256 and not force:
        # start from an EXACT eigenstate of H (ground state or an excited one; quantum numbers switched off on a copy of the operator):
        # every local Krylov space is one-dimensional (breakdown at the first iteration); the energy can only stay or go down
        H = copy.deepcopy(H).zero_qnumbers()
        mh = refs.dense_operator(H.A)
        lam_, U_ = np.linalg.eigh((mh + mh.conj().T) / 2)
        psi0 = ptn.MPS.from_vector(len(H.qd), L, U_[:, int(rng.choice([0, 0, int(rng.integers(0, U_.shape[1]))]))] * complex(rng.normal(), rng.normal()), 0)
        prof = 'eigenstate'
    for _ in range(20):
        if prof == 'eigenstate':
            psi = psi0
            break
        psi = gen.rand_mps(rng, H.qd, L, prof, Dmax=4 if not force else 6, kind=str(rng.choice(['complex', 'real'])), qL=None if not force else force['qL'])
        if np.linalg.norm(refs.dense_state(psi.A)) > 1e-8:
            break
        prof = 'max'
    else:
        ctx.case(('no-state',), nontrivial=False)
        return
    psi.A[0] = psi.A[0] * float(rng.choice([1.0, 0.2, 5.0]))
    nsweeps = int(rng.integers(1, 5)) if idx % 16 != 7 else int(rng.choice([10, 16, 17, 33]))      # every 16th case: many sweeps in one call
    numiter = int(rng.choice([2, 3, 5, 25]))
    tol_split = 0.0 if (not two or rng.random() < 0.7) else float(rng.choice([1e-8, 1e-3]))
    conv = ''
    if (idx % 7 in (3, 4) or force) and prof != 'eigenstate' and len(H.qd) ** L <= (256 if not force else 1024):
        # runs that CONVERGE and keep sweeping: Krylov dimension at or above the local dimension of the first and last pairs, three to five sweeps, zero split
        # tolerance -- from the second sweep on every local problem starts from a (nearly) converged state, whose sector blocks carry arbitrary relative signs
        dloc = len(H.qd) ** 2 * max(psi.bond_dims[min(2, L)], 1)
        numiter = int(dloc + int(rng.integers(0, 12)))
        nsweeps = int(rng.integers(3, 6))
        tol_split = 0.0
        if two and shift:
            # converged AND truncating on a spectrum far from zero: a reported energy that is off by the discarded weight w is off by w |c|, far more than the
            # distance of the truncated state from the ground state
            tol_split = float(rng.choice([0.0, 1e-3, 0.05]))
        conv = '+converging' + ('+symmetric-sector' if force else '')
    mH = refs.dense_operator(H.A)
    nH = max(np.linalg.norm(mH, 2), 1.0)
    v_in = refs.dense_state(psi.A)
    E_start = float(np.real(np.vdot(v_in, mH @ v_in)) / np.vdot(v_in, v_in).real)
    lam = sector_min(mH, H.qd, L, int(psi.qD[-1][0]) - int(psi.qD[0][0]))
    D_in = list(psi.bond_dims)
    ends = (psi.qD[0].copy(), psi.qD[-1].copy())
    integ = 'twosite' if two else 'singlesite'
    ctx.case((integ, src + shift, f'L{L}', prof + conv, f'numiter{numiter}' if not conv else 'numiter>=local-dim', f'sweeps{min(nsweeps, 2)}', 'tol_split0' if tol_split == 0 else 'tol_split>0'),
             sample={'algorithm': integ, 'model': src, 'L': L, 'qD': psi.qD, 'sweeps': nsweeps, 'numiter': numiter, 'tol_split': tol_split},
             info={'algorithm': integ, 'model': src, 'L': L, 'qd': H.qd, 'qD': psi.qD, 'A': psi.A, 'H_A': H.A, 'H_qD': H.qD, 'sweeps': nsweeps, 'numiter': numiter, 'tol_split': tol_split})
    detail = ctx.cur_info
    en, local = run_dmrg(ctx, H, psi, two, nsweeps, numiter, tol_split, detail, integ)
    if not ctx.ok('energies.shape', en.shape == (nsweeps,) and np.isrealobj(en) and bool(np.all(np.isfinite(en))), f'returned {en!r}', detail):
        return
    inv = refs.mps_invariant(psi)
    if not ctx.ok('block-sparse-after', inv is None, str(inv), detail):
        return
    v = refs.dense_state(psi.A)
    ctx.close('normalised', abs(np.linalg.norm(v) - 1), TOL, 'state after DMRG not normalised', detail)
    E = float(np.real(np.vdot(v, mH @ v)))
    if tol_split == 0:
        ctx.close('energy==last-reported', abs(E - en[-1]), TOL * nH, f'<psi|H|psi> = {E} but last reported energy {en[-1]}', detail)
    elif run_dmrg.last_split_complete:
        # positive split tolerance, but the last truncation of the run (observed through a monitor on retained_bond_indices) kept every singular value:
        # the returned state is the last optimised one, so its energy is the last reported energy
        ctx.close('energy==last-reported[last-split-kept-everything]', abs(E - en[-1]), TOL * nH,
                  f'<psi|H|psi> = {E} but last reported energy {en[-1]} (tol_split = {tol_split}, nothing discarded by the last split)', detail)
        ctx.event('tol_split>0_with_complete_last_split')
    else:
        # a truncation after the last local optimisation changes the state (raises the energy slightly): nothing to compare
        ctx.skip('energy==last-reported')
    ctx.ok('total-charge-kept', np.array_equal(psi.qD[0], ends[0]) and np.array_equal(psi.qD[-1], ends[1]), 'boundary charges changed', detail)
    ctx.ok('bond-dims-do-not-grow', all(a <= b for a, b in zip(psi.bond_dims, D_in)) if not two else True, f'{D_in} -> {psi.bond_dims}', detail)
    if lam is not None:
        ctx.close('variational.reported>=ground-state', max(0.0, lam - en.min()), TOL * nH, f'reported energy {en.min()} below the sector ground state {lam}', detail)
        ctx.close('variational.local>=ground-state', max(0.0, lam - min(local)) if local else 0.0, TOL * nH, 'a local Ritz value lies below the sector ground state', detail)
        ctx.close('variational.state>=ground-state', max(0.0, lam - E), TOL * nH, 'energy of the returned state below the sector ground state', detail)
    ctx.ok('trace.local-steps-observed', len(local) >= 1, 'no local minimisation observed: internal hook not reached', detail)
    if tol_split == 0:
        ctx.close('upper-bound.reported<=start', max(0.0, en.max() - E_start), TOL * nH, f'reported energy {en.max()} above the energy of the normalised start {E_start}', detail)
        ctx.close('monotone.reported', max([0.0] + list(np.diff(en))), TOL * nH, f'reported energies increase: {en}', detail)
        if local:
            seq = np.array([E_start] + local)
            ctx.close('monotone.every-local-step', max(0.0, float(np.max(np.diff(seq)))), TOL * nH, 'a local step raised the energy', detail)
            ctx.event('local_steps', len(local))
    # history: the Hamiltonian held by the same MPO object is changed in place (rescaled by c), then DMRG is run again on the same state:
    # everything must refer to the Hamiltonian as it is now
    if tol_split == 0 and idx % 3 == 1:
        c = float(rng.choice([0.5, 2.0, -1.0]))
        H.A[int(rng.integers(0, L))] *= c
        mH2 = refs.dense_operator(H.A)
        v_b = refs.dense_state(psi.A)
        E_b = float(np.real(np.vdot(v_b, mH2 @ v_b)))
        en3, local3 = run_dmrg(ctx, H, psi, two, 1, numiter, 0.0, detail, integ)
        v_a = refs.dense_state(psi.A)
        ctx.close('after-inplace-change-of-H.energy==last-reported', abs(float(np.real(np.vdot(v_a, mH2 @ v_a))) - en3[-1]), TOL * nH * abs(c) + TOL,
                  'after an in-place change of the MPO the reported energy is not the energy of the returned state under the current Hamiltonian', detail)
        ctx.close('after-inplace-change-of-H.upper-bound', max(0.0, float(en3.max() - E_b)), TOL * nH * max(abs(c), 1), 'energy above the start energy under the current Hamiltonian', detail)
        if local3:
            ctx.close('after-inplace-change-of-H.monotone', max(0.0, float(np.max(np.diff(np.array([E_b] + local3))))), TOL * nH * max(abs(c), 1), 'a local step raised the energy', detail)
        return
    # repeated invocation never raises the energy
    if tol_split == 0 and idx % 3 == 0:
        en2, local2 = run_dmrg(ctx, H, psi, two, 1, numiter, 0.0, detail, integ)
        ctx.close('repeated-invocation.does-not-raise', max(0.0, float(en2[-1] - en[-1])), TOL * nH, f'second invocation raised the energy {en[-1]} -> {en2[-1]}', detail)


def large_case(ctx, idx, rng):
    """DMRG beyond the dense reach (L 8..14): consistency, monotonicity, normalisation and the start bound through transfer-matrix contractions."""
    from .. import large
    two = bool(idx % 2)
    name, d, L, H = large.pick_large(rng)
    psi = large.big_state(rng, H.qd, L, int(rng.choice([3, 6])), kind=str(rng.choice(['complex', 'real'])))
    numiter = int(rng.choice([2, 5, 25]))
    nsweeps = int(rng.integers(1, 4))
    n0 = large.norm_of(psi.A)
    E_start = refs.mpo_element(psi.A, H.A, psi.A).real / n0 ** 2
    nH = float(np.sum([np.linalg.norm(w) for w in H.A]))
    integ = 'twosite' if two else 'singlesite'
    ctx.case(('large', integ, name, f'L{L}', f'numiter{numiter}', f'sweeps{nsweeps}'), sample={'algorithm': integ, 'model': name, 'L': L, 'bond_dims': psi.bond_dims})
    detail = {'algorithm': integ, 'model': name, 'L': L, 'bond_dims': list(psi.bond_dims), 'numiter': numiter, 'sweeps': nsweeps}
    en, local = run_dmrg(ctx, H, psi, two, nsweeps, numiter, 0.0, detail, integ)
    inv = refs.mps_invariant(psi)
    if not ctx.ok('large.block-sparse-after', inv is None, str(inv), detail):
        return
    tol = TOL * max(1.0, nH)
    ctx.close('large.normalised', abs(large.norm_of(psi.A) - 1), 1e-9, 'not normalised', detail)
    ctx.close('large.energy==last-reported', abs(refs.mpo_element(psi.A, H.A, psi.A).real - en[-1]), tol, 'energy of the returned state != last reported energy', detail)
    ctx.close('large.upper-bound', max(0.0, float(en.max() - E_start)), tol, 'reported energy above the start energy', detail)
    ctx.close('large.monotone-reported', max([0.0] + list(np.diff(en))), tol, f'reported energies increase: {en}', detail)
    if local:
        ctx.close('large.monotone-every-local-step', max(0.0, float(np.max(np.diff(np.array([E_start] + local))))), tol, 'a local step raised the energy', detail)


CASES = []
for _name, (_mk, _qd) in MODELS.items():
    _d = len(_qd)
    for _L in range(2, 6):
        if _d ** _L > 243:
            continue
        for _q in sector_list(_qd, _L):
            CASES.append((_name, _L, _q))


def complete_case(ctx, idx, rng):
    """Complete manifold + enough Lanczos iterations: the exact sector ground-state energy is reached."""
    name, L, qtot = CASES[idx % len(CASES)]
    two = bool((idx // len(CASES)) % 2) or bool((idx // len(CASES)) % 3 == 2)          # every third repetition: two-site from a product basis state
    mk, qd = MODELS[name]
    H = mk(L, gen.generic_params(rng))
    psi = gen.full_sector_mps(rng, qd, L, qtot)
    gauge = bool(idx % 3 == 1)
    if gauge:
        # the same model in a site-dependent diagonal phase gauge (U H U^+ with U = prod_i diag(exp(i theta_i,s)): same labels, same spectrum, genuinely complex
        # entries) started from a state whose tensors have a REAL dtype: the local eigenvectors must leave the real subspace the start tensors live in
        for i_ in range(L):
            ph = np.exp(1j * rng.uniform(0, 2 * np.pi, size=len(qd)))
            H.A[i_] = ph[:, None, None, None] * H.A[i_] * ph.conj()[None, :, None, None]
        psi = gen.full_sector_mps(rng, qd, L, qtot, kind='real')
    if np.linalg.norm(refs.dense_state(psi.A)) == 0:
        ctx.case((name, f'L{L}', 'empty-sector'), nontrivial=False)
        return
    psi.orthonormalize('left'); psi.orthonormalize('right')
    basis_start = bool((idx // len(CASES)) % 3 == 2) and two
    if basis_start:
        # the SAME complete manifold, started from a product BASIS state: every tensor is one-hot (all other allowed entries are exactly zero) -- the support of
        # the current tensor is not its symmetry sector
        qDf = [np.array(q) for q in psi.qD]
        for _try in range(50):
            conf = [int(x) for x in rng.integers(0, len(qd), size=L)]
            if sum(int(qd[s_]) for s_ in conf) == qtot - int(qDf[0][0]) + 0:
                break
        else:
            basis_start = False
        if basis_start:
            lab = int(qDf[0][0])
            idxs = [0]
            okp = True
            for i_, s_ in enumerate(conf):
                lab += int(qd[s_])
                w_ = np.where(qDf[i_ + 1] == lab)[0]
                if len(w_) == 0:
                    okp = False
                    break
                idxs.append(int(w_[int(rng.integers(0, len(w_)))]))
            if okp:
                for i_, s_ in enumerate(conf):
                    psi.A[i_] = np.zeros_like(psi.A[i_])
                    psi.A[i_][s_, idxs[i_], idxs[i_ + 1]] = 1.0
            else:
                basis_start = False
    cls = refs.classify_manifold(qd, L, 0, qtot, psi.qD)
    mH = refs.dense_operator(H.A)
    nH = max(np.linalg.norm(mH, 2), 1.0)
    lam = sector_min(mH, qd, L, qtot)
    psi_start_A = [np.array(a, copy=True) for a in psi.A]
    _v0 = refs.dense_state(psi_start_A)
    E_basis = float(np.real(np.vdot(_v0, mH @ _v0)) / max(np.vdot(_v0, _v0).real, 1e-300))
    integ = 'twosite' if two else 'singlesite'
    # structure classifier (input only): a Hamiltonian whose restriction to the sector is REDUCIBLE in the product basis (the graph of its non-zero matrix
    # elements on the product configurations of the sector is disconnected: conserved quantities beyond the labelled charge). Extreme case: a Hamiltonian
    # that is diagonal in the product basis (only charge-neutral diagonal terms); another: long-range terms that leave the spin of a spectator site conserved
    from scipy.sparse.csgraph import connected_components
    mask = refs.sector_basis_mask(qd, L, qtot)
    sub = mH[np.ix_(mask, mask)]
    diagonal = int(connected_components(np.abs(sub) > 0, directed=False)[0]) > 1
    if diagonal:
        cls = cls + ('-diagonal-H' if not np.any(mH - np.diag(np.diag(mH))) else '-reducible-H')
    ctx.case(('complete', integ, name, f'L{L}', f'class{cls}', ('basis-state-start' if basis_start else 'generic-start') + ('+phase-gauge-H+real-dtype-start' if gauge else '')), sample={'model': name, 'L': L, 'sector': qtot, 'bond_dims': psi.bond_dims, 'class': cls},
             info={'model': name, 'L': L, 'sector': qtot, 'qD': psi.qD, 'A': psi.A, 'H_A': H.A, 'H_qD': H.qD, 'algorithm': integ})
    detail = ctx.cur_info
    fn = ptn.calculate_ground_state_local_twosite if two else ptn.calculate_ground_state_local_singlesite
    nloc = max(a.size for a in psi.A) * (len(qd) if two else 1)
    numiter = int(min(max(nloc, 2) + 2, 120))
    en_all = []
    sweeps = 0
    reached = False
    cap = 1 if (cls == 'E' and not basis_start) else 30
    if diagonal:
        cap = 30
    while sweeps < cap:
        en = fn(H, psi, 1, numiter_lanczos=numiter)
        en_all.append(float(en[-1]))
        sweeps += 1
        if abs(en_all[-1] - lam) <= 1e-8 * nH:
            reached = True
            break
        if len(en_all) >= 3 and abs(en_all[-1] - en_all[-2]) < 1e-13 * nH and abs(en_all[-2] - en_all[-3]) < 1e-13 * nH:
            break       # stalled
    if basis_start:
        # sound demand for a one-hot start: if the basis state |s> has a non-zero matrix element <s'|H|s> to a configuration s' that differs from s on ONE pair of
        # neighbouring sites (or one site), the two-site local problem of that pair is not solved by the current one-hot tensor, so the FIRST sweep must lower
        # the energy strictly (numiter >= local dimension). Reaching the ground state from such a start is recorded, not demanded (the tangent space at a
        # one-hot point is small; 11 of 5760 runs of the unchanged code need more than one sweep).
        v_s = refs.dense_state(psi_start_A)
        k_s = int(np.argmax(np.abs(v_s)))
        dloc = len(qd)
        digits = [(k_s // dloc ** (L - 1 - i_)) % dloc for i_ in range(L)]
        movable = False
        col = mH[:, k_s]
        for k2 in np.nonzero(np.abs(col) > 1e-12 * nH)[0]:
            if k2 == k_s:
                continue
            d2 = [(int(k2) // dloc ** (L - 1 - i_)) % dloc for i_ in range(L)]
            diff = [i_ for i_ in range(L) if d2[i_] != digits[i_]]
            if len(diff) == 1 or (len(diff) == 2 and diff[1] == diff[0] + 1):
                movable = True
                break
        if movable:
            ctx.ok('complete.basis-start-first-sweep-lowers-energy', en_all[0] < E_basis - 1e-10 * nH,
                   f'two-site DMRG started from a product basis state with a neighbouring-pair matrix element did not lower the energy in its first sweep ({E_basis} -> {en_all[0]})', detail)
        else:
            ctx.skip('complete.basis-start-first-sweep-lowers-energy')
        ctx.count('complete.basis-start-reaches-ground-state' if reached else 'complete.basis-start-does-not-reach-ground-state')
    elif diagonal:
        if reached:
            ctx.count('complete.reducible-H-reaches-ground-state')
        else:
            # every local effective Hamiltonian is diagonal too: the Krylov space built from the current tensor never leaves the configurations the state
            # already has weight on, and each local step collapses the state further -- a greedy descent that can end on a configuration of higher energy
            ctx.known('C10/product-reducible-hamiltonian-greedy-descent',
                      'DMRG on a complete manifold with a Hamiltonian that is reducible in the product basis of the sector (disconnected configuration graph; extreme case: '
                      'a diagonal Hamiltonian) does not reach the exact ground-state energy: local Krylov solvers started from the current tensor cannot regain invariant '
                      'blocks the state has lost (greedy descent to a local minimum)', detail)
    elif cls == 'E':
        ctx.ok('complete.classE-reaches-ground-state-in-one-sweep', reached, f'energy {en_all[-1]} after one sweep, exact sector ground state {lam} (bond dims {psi.bond_dims})', detail)
    elif reached:
        ctx.count('complete.classM-reaches-ground-state')
        ctx.event('classM_sweeps', sweeps)
    elif sweeps >= cap:
        ctx.mark_inconclusive(f'class M run still decreasing after {cap} sweeps')
    else:
        ctx.ok('complete.classM-reaches-ground-state', False, f'stalled at {en_all[-1]} above the exact sector ground state {lam} after {sweeps} sweeps', detail)
    ctx.close('complete.never-below-ground-state', max(0.0, lam - min(en_all)), TOL * nH, 'energy below the exact ground state', detail)


SPEC = {
    'id': 'C10',
    'rule': ('runs: single-site and two-site DMRG on built-in models (XXZ, spin-1, Bose d=3, Ising, Fermi-Hubbard) and random Hermitian MPOs with and '
             'without charges, L 2..7, start states of profile random / all-one / maximal / over-complete, real and complex, norms 0.2..5, 1..4 sweeps, '
             'numiter in {2,3,5,25}, two-site with tol_split in {0, 1e-8, 1e-3}; every local Ritz value is recorded in order by a monitor on the '
             'internal minimiser. Complete manifolds: every total-charge sector of every (model, L) with d^L <= 243, numiter >= local dimension; '
             'class E must reach the exact sector ground-state energy in one sweep, class M within 30 sweeps (stall = violation, still decreasing = '
             'inconclusive); Hamiltonians whose sector restriction is reducible in the product basis (disconnected configuration graph, classified from the dense matrix) fall under the known finding. distinct = (algorithm, model, L, profile, numiter, sweeps, tol_split class / manifold class).'),
    'deciding': ['normalised', 'energy==last-reported', 'variational.reported>=ground-state', 'variational.local>=ground-state', 'upper-bound.reported<=start',
                 'monotone.reported', 'monotone.every-local-step', 'hamiltonian-untouched', 'complete.classE-reaches-ground-state-in-one-sweep',
                 'trace.local-steps-observed'],
    'workloads': [
        Workload('runs', dmrg_case, quick=780, thorough=64000),
        Workload('symmetric-sectors', symmetric_sector_case, quick=160, thorough=8000),
        Workload('large', large_case, quick=60, thorough=4000),
        Workload('complete', complete_case, quick=len(CASES) * 3, thorough=len(CASES) * 30),
    ],
    'shards': {'quick': 4, 'thorough': 16},
    'watchdog_s': {'quick': 900, 'thorough': 7200},
    'assumptions': ['dense eigvalsh restricted to the charge sector of the state is the exact ground-state energy; tolerance 1e-9*||H||'],
}
