"""C14 — Lanczos and Arnoldi iterations satisfy their Krylov factorization relations."""
import warnings

import numpy as np

from .. import krylov_ref as kr
from ..core import Workload
from ..env import ptn

COND = 1e-5


def check_lanczos(ctx, A, v, m, sig_extra=(), rng=None, style=None):
    n = len(v)
    Afunc, style, calls = kr.make_callable(rng or np.random.default_rng(n * 1000 + m), A, style)
    ctx.event('callable_style:' + style)
    detail = {'A': A, 'v': v, 'm': m, 'callable_style': style}
    v0 = v.copy()
    with warnings.catch_warnings(record=True) as wl:
        warnings.simplefilter('always')
        out = ptn.lanczos_iteration(Afunc, v, m)
    if any(issubclass(w.category, RuntimeWarning) for w in wl):
        ctx.event('lanczos_breakdown_warning')
    return verify_lanczos(ctx, A, v, v0, m, out, calls[0], detail)


def verify_lanczos(ctx, A, v, v0, m, out, ncalls, detail, s=False):
    """Oracle over one observed lanczos_iteration call: A dense matrix of the linear map, v the live start vector, v0 its copy from before."""
    n = len(v0)
    if not ctx.ok('lanczos.returns-triple', isinstance(out, tuple) and len(out) == 3, 'must return (alpha, beta, V)', detail, s):
        return
    al, be, V = (np.asarray(x) for x in out)
    k = len(al) if al.ndim == 1 else -1
    if not ctx.ok('lanczos.sizes', al.ndim == 1 and be.ndim == 1 and V.ndim == 2 and 1 <= k <= m and len(be) == k - 1 and V.shape == (n, k),
                  f'sizes alpha{al.shape} beta{be.shape} V{V.shape} for n={n}, m={m}', detail, s):
        return
    ctx.ok('lanczos.start-unmodified', np.array_equal(v, v0), 'start vector modified', detail, s)
    ctx.ok('lanczos.alpha-real', not np.iscomplexobj(al) and not np.iscomplexobj(be) and bool(np.all(np.isfinite(al))), 'alpha/beta must be real and finite', detail, s)
    ctx.ok('lanczos.beta-positive', bool(np.all(be > 0)), f'beta not positive: {be}', detail, s)
    ctx.ok('lanczos.afunc-calls', ncalls == k, f'Afunc called {ncalls} times for k={k}', detail, s)
    nA = max(np.linalg.norm(A, 2), 1e-300)
    ctx.close('lanczos.unit-columns', np.abs(np.linalg.norm(V, axis=0) - 1).max(), 1e-10, 'Lanczos vectors not normalised', detail, s)
    ctx.close('lanczos.first-vector', np.linalg.norm(V[:, 0] - v0 / np.linalg.norm(v0)), 1e-12, 'V[:,0] != v/|v|', detail, s)
    T = np.diag(al) + np.diag(be, 1) + np.diag(be, -1)
    if k > 1:
        ctx.close('lanczos.three-term-recurrence', np.abs(A @ V[:, :k - 1] - V @ T[:, :k - 1]).max() / nA, 1e-10, 'A V != V T on the leading columns', detail, s)
        # <v_j, w_j> with w_j = beta_j v_{j+1} the un-normalised new direction (scale-free form: beyond the exhaustion point
        # beta_j ~ rounding level and v_{j+1} is amplified noise, which the property does not constrain)
        ctx.close('lanczos.local-orthogonality', max(abs(np.vdot(V[:, j], V[:, j + 1])) * be[j] for j in range(k - 1)) / nA, 1e-10,
                  'new direction not orthogonal to the previous vector', detail, s)
    ctx.close('lanczos.alpha-is-rayleigh', np.abs(np.real(np.einsum('ij,ij->j', V.conj(), A @ V)) - al).max() / nA, 1e-10, 'alpha_j != v_j^H A v_j', detail, s)
    # independent Krylov dimension
    res = kr.krylov_residuals(A, v0, m + 1)
    kd = kr.krylov_dim(res)
    if k < m:
        # early return only if the Krylov space is exhausted at k
        # the space must be exhausted AT OR BEFORE k (the iteration may have continued past a numerically exhausted space -- residual ~3e-13, just above its
        # absolute breakdown threshold -- into rounding noise and stopped a few steps later)
        rk = min(res[:k]) if k - 1 < len(res) else 0.0
        # a residual of relative size r amplifies the rounding noise of the next Krylov vector to ~eps / r: right after a near-breakdown step (r ~ 3e-8) the
        # next residual is only known to ~1e-8, and the iteration's absolute threshold may legitimately see it below its limit (observed: 1.3e-8 for a matrix
        # scaled by 1e-4, thorough tier seed 1). The bound stays between 1e-8 and 2.2e-7.
        prev = min(res[:k - 1]) if k >= 2 and len(res) >= k - 1 else 1.0
        tol_j = max(1e-8, 10 * np.finfo(float).eps / max(prev, 1e-8))
        ctx.close('lanczos.early-return-justified', rk, tol_j, f'returned k={k} < m={m} although the residual after {k} vectors is not ~0', detail, s)
        ctx.event('lanczos_early_return')
    margin = min(res[:m - 1]) if m > 1 and len(res) >= m - 1 else (np.inf if m == 1 else 0.0)
    if margin > 1e-5:
        ctx.ok('lanczos.full-length-when-not-exhausted', k == m, f'Krylov dimension >= {m} (margin {margin:.1e}) but k={k}', detail, s)
    # orthonormality / projection on the leading part, in the conditioned class
    kk = min(k, kd)
    ind = kr.paige_indicator(al[:kk], be[:kk - 1])
    G = V[:, :kk].conj().T @ V[:, :kk]
    orth = np.abs(G - np.identity(kk)).max()
    proj = np.abs(V[:, :kk].conj().T @ A @ V[:, :kk] - T[:kk, :kk]).max() / nA
    # demanded in every class: the iteration re-orthogonalises (repository fix 3c1fa1a); the conditioning class is recorded as coverage
    ctx.event('lanczos_converged_class' if ind < COND else 'lanczos_conditioned_class')
    ctx.close('lanczos.orthonormal', orth, 1e-8, f'V^H V != I on the leading {kk} vectors (conditioning indicator {ind:.1e})', detail, s)
    ctx.close('lanczos.projection', proj, 1e-8, f'V^H A V != T on the leading {kk} vectors (conditioning indicator {ind:.1e})', detail, s)
    return k, kd, ind


def check_arnoldi(ctx, A, v, m, rng=None, style=None):
    n = len(v)
    Afunc, style, calls = kr.make_callable(rng or np.random.default_rng(n * 1000 + m + 7), A, style)
    ctx.event('callable_style:' + style)
    detail = {'A': A, 'v': v, 'm': m, 'callable_style': style}
    v0 = v.copy()
    with warnings.catch_warnings(record=True) as wl:
        warnings.simplefilter('always')
        out = ptn.arnoldi_iteration(Afunc, v, m)
    if any(issubclass(w.category, RuntimeWarning) for w in wl):
        ctx.event('arnoldi_breakdown_warning')
    return verify_arnoldi(ctx, A, v, v0, m, out, calls[0], detail)


def verify_arnoldi(ctx, A, v, v0, m, out, ncalls, detail, s=False):
    n = len(v0)
    if not ctx.ok('arnoldi.returns-pair', isinstance(out, tuple) and len(out) == 2, 'must return (H, V)', detail, s):
        return
    H, V = (np.asarray(x) for x in out)
    k = H.shape[0] if H.ndim == 2 else -1
    if not ctx.ok('arnoldi.sizes', H.ndim == 2 and V.ndim == 2 and 1 <= k <= m and H.shape == (k, k) and V.shape == (n, k),
                  f'sizes H{H.shape} V{V.shape} for n={n}, m={m}', detail, s):
        return
    nA = max(np.linalg.norm(A, 2), 1e-300)
    ctx.ok('arnoldi.start-unmodified', np.array_equal(v, v0), 'start vector modified', detail, s)
    ctx.ok('arnoldi.afunc-calls', ncalls == k, f'Afunc called {ncalls} times for k={k}', detail, s)
    ctx.ok('arnoldi.hessenberg', not np.any(np.tril(H, -2)), 'H not upper Hessenberg', detail, s)
    sub = np.diag(H, -1)
    ctx.ok('arnoldi.subdiagonal-positive', bool(np.all(np.abs(sub.imag) == 0) and np.all(sub.real > 0)), f'subdiagonal not positive real: {sub}', detail, s)
    ctx.close('arnoldi.unit-columns', np.abs(np.linalg.norm(V, axis=0) - 1).max(), 1e-10, 'Arnoldi vectors not normalised', detail, s)
    ctx.close('arnoldi.first-vector', np.linalg.norm(V[:, 0] - v0 / np.linalg.norm(v0)), 1e-12, 'V[:,0] != v/|v|', detail, s)
    if k > 1:
        ctx.close('arnoldi.recurrence', np.abs(A @ V[:, :k - 1] - V @ H[:, :k - 1]).max() / nA, 1e-10, 'A V != V H on the leading columns', detail, s)
    res, Qref = kr.krylov_residuals(A, v0, m + 1, basis=True)
    kd = kr.krylov_dim(res)
    if k < m:
        # the space must be exhausted AT OR BEFORE k (the iteration may have continued past a numerically exhausted space -- residual ~3e-13, just above its
        # absolute breakdown threshold -- into rounding noise and stopped a few steps later)
        rk = min(res[:k]) if k - 1 < len(res) else 0.0
        prev = min(res[:k - 1]) if k >= 2 and len(res) >= k - 1 else 1.0
        ctx.close('arnoldi.early-return-justified', rk, max(1e-8, 10 * np.finfo(float).eps / max(prev, 1e-8)), f'returned k={k} < m={m} although the Krylov space is not exhausted', detail, s)
        ctx.event('arnoldi_early_return')
    margin = min(res[:m - 1]) if m > 1 and len(res) >= m - 1 else (np.inf if m == 1 else 0.0)
    if margin > 1e-5:
        ctx.ok('arnoldi.full-length-when-not-exhausted', k == m, f'Krylov dimension >= {m} but k={k}', detail, s)
    kk = min(k, kd)
    # modified Gram-Schmidt loses orthogonality proportionally to the conditioning of the Krylov basis (loss <= c eps cond([v, A V])):
    # 1e-8 is demanded where every residual of the leading part exceeds 1e-3 of ||A|| and the basis condition number (from the
    # independent reference basis) is below 1e6; the bound grows like 1e-14 / min_residual^2 resp. 1e-14 * cond beyond that
    if kk >= 1:
        mr = 1.0 if kk == 1 else min(min(res[:kk - 1]), 1.0)
        # (the earlier heuristic 1e-14 / min_residual^2 was dropped in favour of the bound itself: it excused everything on graded matrices)
        tol_o = max(1e-8, 1e-13 * kr.basis_condition(A, v0, Qref, min(kk, Qref.shape[1] + 1)))
        if tol_o <= 1e-3:
            ctx.close('arnoldi.orthonormal', np.abs(V[:, :kk].conj().T @ V[:, :kk] - np.identity(kk)).max(), tol_o, 'V^H V != I', detail, s)
            ctx.close('arnoldi.projection', np.abs(V[:, :kk].conj().T @ A @ V[:, :kk] - H[:kk, :kk]).max() / nA, tol_o, 'V^H A V != H', detail, s)
        else:
            ctx.skip('arnoldi.orthonormal')


GRID = [(n, m) for n in range(1, 11) for m in range(1, n + 6)]
SPECTRA = ['separated', 'degenerate', 'clustered', 'gaussian']
STARTS = ['generic', 'real', 'invariant-structural', 'invariant-rotated', 'eigenvector']


def grid_case(ctx, idx, rng):
    n, m = GRID[idx % len(GRID)]
    rep = idx // len(GRID)
    cplx = bool((rep + idx) % 2)
    spectrum = SPECTRA[(idx // 2 + rep) % len(SPECTRA)]
    start = STARTS[(idx // 3 + rep) % len(STARTS)]
    A, v = kr.make_case(rng, n, cplx, spectrum, start)
    A = A * float(rng.choice([1, 1, 1, 1e-4, 1e4]))          # the relations are scale covariant (the breakdown threshold of the iteration is absolute: scales below 1e-4 would make exhaustion ambiguous)
    ctx.case(('lanczos', 'n<=10', 'm>n' if m > n else ('m=n' if m == n else 'm<n'), spectrum, start, 'complex' if cplx else 'real'),
             sample={'n': n, 'm': m, 'spectrum': spectrum, 'start': start, 'A': A, 'v': v})
    check_lanczos(ctx, A, v, m, rng=rng)
    if idx % 9 == 4:
        # the identity map handed over as `lambda x: x` (returns its argument / a view of it): Krylov dimension 1
        I = np.identity(n)
        ctx.case(('lanczos', 'identity-map-returning-its-argument', f'm{min(m, 3)}'), sample={'n': n, 'm': m})
        check_lanczos(ctx, I, v, m, rng=rng, style='argument-when-identity')
        ctx.case(('arnoldi', 'identity-map-returning-its-argument', f'm{min(m, 3)}'), sample={'n': n, 'm': m})
        check_arnoldi(ctx, I, v, m, rng=rng, style='argument-when-identity')
    if idx % 4 == 0:
        # history: the SAME start-vector object changed in place, iteration run again (also with the same matrix object scaled in place)
        v *= 2.0
        v[0] = v[0] + 1.0
        A *= 0.5
        ctx.case(('lanczos', 'n<=10', 'after-inplace-edit', spectrum, start), sample={'n': n, 'm': m})
        check_lanczos(ctx, A, v, m)
    # general (non-Hermitian) matrix for Arnoldi, same start class
    B = A + (rng.normal(size=(n, n)) + (1j * rng.normal(size=(n, n)) if cplx else 0)) * float(rng.choice([0, 0.5]))
    if start.startswith('invariant') or start == 'eigenvector':
        B = A      # keep the invariant subspace
    ctx.case(('arnoldi', 'n<=10', 'm>n' if m > n else ('m=n' if m == n else 'm<n'), spectrum, start, 'complex' if cplx else 'real',
              'hermitian' if B is A else 'general'), sample={'n': n, 'm': m, 'B': B, 'v': v})
    check_arnoldi(ctx, B, v, m, rng=rng)
    if idx % 5 == 2:
        # phase-structured data: a purely imaginary matrix i*M (M real: the real-time generator -iH of a real Hamiltonian) with a REAL or purely
        # imaginary start vector -- the Krylov vectors alternate between exactly real and exactly imaginary, and so do the images A V[j]
        M = rng.normal(size=(n, n))
        ph = (1j, -1j, 1.0)[(idx // 5) % 3]
        vr = rng.normal(size=n) * (1j if (idx // 15) % 2 else 1.0)
        if ph == 1.0:
            vr = vr * 1j if np.isrealobj(vr) else vr                  # real matrix, purely imaginary start vector
        ctx.case(('arnoldi', 'n<=10', 'phase-structured', {1j: 'i*real', -1j: '-i*real', 1.0: 'real'}[ph], 'imag-start' if np.iscomplexobj(vr) else 'real-start',
                  'm>n' if m > n else 'm<=n'), sample={'n': n, 'm': m, 'B': ph * M, 'v': vr})
        check_arnoldi(ctx, ph * M, vr, m, rng=rng)
        K = 1j * (M - M.T)                                            # Hermitian and purely imaginary
        ctx.case(('lanczos', 'n<=10', 'phase-structured', 'i*antisymmetric', 'imag-start' if np.iscomplexobj(vr) else 'real-start', 'm>n' if m > n else 'm<=n'),
                 sample={'n': n, 'm': m, 'A': K, 'v': vr})
        check_lanczos(ctx, K, vr, m, rng=rng)
    if idx % 5 == 4 and n >= 3:
        # LOCALISED start vector on a sparse / banded map whose character changes away from the start: a tight-binding chain with complex (Peierls) phases on
        # bonds far from a localised real start state, a dense Hermitian matrix whose imaginary part vanishes on the rows and columns of the support of the
        # start vector -- the first images A v, A^2 v, ... are exactly real (or exactly sparse) although the map is not
        k = int(rng.integers(1, max(2, n // 2)))
        v0 = np.zeros(n)
        v0[:k] = rng.normal(size=k)
        if not v0.any():
            v0[0] = 1.0
        fam = ('peierls-chain', 'imaginary-part-off-support')[(idx // 5) % 2]
        if fam == 'peierls-chain':
            hop = rng.normal(size=n - 1).astype(complex)
            far = np.arange(n - 1) >= k
            hop = np.where(far, hop * np.exp(1j * rng.uniform(0.3, 2.8, size=n - 1)), hop)
            As = np.diag(rng.normal(size=n)).astype(complex) + np.diag(hop, 1) + np.diag(hop.conj(), -1)
        else:
            R = rng.normal(size=(n, n)); R = R + R.T
            Kp = rng.normal(size=(n, n)); Kp = Kp - Kp.T
            Kp[:k, :] = 0; Kp[:, :k] = 0
            As = R + 1j * Kp
        ctx.case(('lanczos', 'n<=10', 'localised-real-start', fam, 'm>n' if m > n else 'm<=n'), sample={'n': n, 'm': m, 'A': As, 'v': v0, 'support': k})
        check_lanczos(ctx, As, v0, m, rng=rng)
        Bs = As + np.triu(rng.normal(size=(n, n)) * (np.arange(n)[:, None] >= k), 1) * 1j      # non-Hermitian, still real on the support of v0
        ctx.case(('arnoldi', 'n<=10', 'localised-real-start', fam, 'm>n' if m > n else 'm<=n'), sample={'n': n, 'm': m, 'B': Bs, 'v': v0, 'support': k})
        check_arnoldi(ctx, Bs, v0, m, rng=rng)


def large_case(ctx, idx, rng):
    n = int(rng.choice([20, 50, 120, 300]))
    m = int(rng.integers(2, 25)) if idx % 3 else int(rng.integers(min(25, n), min(n, 96) + 1))      # every third case: long runs (m up to 96)
    cplx = bool(rng.random() < 0.5)
    spectrum = str(rng.choice(SPECTRA))
    start = str(rng.choice(['generic', 'real', 'invariant-rotated']))
    A, v = kr.make_case(rng, n, cplx, spectrum, start)
    A = A / max(1.0, np.sqrt(n) / 3)
    ctx.case(('lanczos', 'large-n', 'm>32' if m > 32 else 'm<=32', spectrum, start, 'complex' if cplx else 'real'), sample={'n': n, 'm': m, 'spectrum': spectrum, 'start': start})
    check_lanczos(ctx, A, v, m)
    G = rng.normal(size=(n, n)) + (1j * rng.normal(size=(n, n)) if cplx else 0)
    gk = 'general'
    if idx % 4 == 1:
        # two-sided graded matrix D G D with D = 10^-linspace(0, p, n): a full-dimensional Krylov space whose basis is moderately ill conditioned
        # (condition 1e4 .. 1e8) -- the regime where classical and modified Gram-Schmidt differ by orders of magnitude
        Dg = 10.0 ** -np.linspace(0, float(rng.uniform(4, 8)), n)
        G = (Dg[:, None] * G) * Dg[None, :] * np.sqrt(n)
        m = int(rng.integers(min(25, n), min(n, 60) + 1))
        gk = 'graded'
    ctx.case(('arnoldi', 'large-n', gk, 'complex' if cplx else 'real'), sample={'n': n, 'm': m})
    check_arnoldi(ctx, G / np.sqrt(n), v, m)


def held_results_case(ctx, idx, rng):
    """History: several iterations of the same shape are run first, their results are verified only afterwards (a result must not be
    invalidated by a later call: no shared output buffers), Lanczos and Arnoldi interleaved."""
    n = int(rng.integers(2, 12))
    m = int(rng.integers(1, n + 1))
    k = int(rng.integers(2, 5))
    runs = []
    for j in range(k):
        cplx = bool(rng.random() < 0.5)
        A, v = kr.make_case(rng, n, cplx, str(rng.choice(['separated', 'gaussian'])), 'generic')
        if rng.random() < 0.5:
            out = ptn.lanczos_iteration(lambda x, A=A: A @ x, v, m)
            runs.append(('lanczos', A, v.copy(), tuple(np.asarray(o) for o in out)))
        else:
            G = A + 0.3 * (rng.normal(size=(n, n)))
            out = ptn.arnoldi_iteration(lambda x, G=G: G @ x, v, m)
            runs.append(('arnoldi', G, v.copy(), tuple(np.asarray(o) for o in out)))
    ctx.case(('held-results', f'n{min(n, 6)}', f'k{k}') + tuple(r[0] for r in runs), sample={'n': n, 'm': m, 'sequence': [r[0] for r in runs]})
    for j, (kind, A, v, out) in enumerate(runs):
        nA = max(np.linalg.norm(A, 2), 1e-300)
        detail = {'position-in-batch': j, 'batch': [r[0] for r in runs], 'n': n, 'm': m}
        if kind == 'lanczos':
            al, be, V = out
            kk = len(al)
            T = np.diag(al) + np.diag(be, 1) + np.diag(be, -1)
            ctx.close('held.lanczos-first-vector', np.linalg.norm(V[:, 0] - v / np.linalg.norm(v)), 1e-12, 'a Lanczos result was altered by a later call', detail)
            if kk > 1:
                ctx.close('held.lanczos-recurrence', np.abs(A @ V[:, :kk - 1] - V @ T[:, :kk - 1]).max() / nA, 1e-10, 'a Lanczos result no longer satisfies A V = V T after later calls', detail)
        else:
            Hh, V = out
            kk = Hh.shape[0]
            ctx.close('held.arnoldi-first-vector', np.linalg.norm(V[:, 0] - v / np.linalg.norm(v)), 1e-12, 'an Arnoldi result was altered by a later call', detail)
            if kk > 1:
                ctx.close('held.arnoldi-recurrence', np.abs(A @ V[:, :kk - 1] - V @ Hh[:, :kk - 1]).max() / nA, 1e-10, 'an Arnoldi result no longer satisfies A V = V H after later calls', detail)


def f6_case(ctx, idx, rng):
    """Regression workload of the fixed orthogonality-loss defect: n = m in {32, 48, 64} Gaussian Hermitian matrices."""
    n = (32, 64, 48)[idx % 3]
    A = rng.normal(size=(n, n)) + 1j * rng.normal(size=(n, n))
    A = (A + A.conj().T) / np.sqrt(n)
    v = rng.normal(size=n) + 1j * rng.normal(size=n)
    ctx.case(('lanczos', 'n=m-large', f'n{n}'), sample={'n': n, 'm': n})
    check_lanczos(ctx, A, v, n)
    ctx.case(('arnoldi', 'n=m-large', f'n{n}'), sample={'n': n, 'm': n})
    check_arnoldi(ctx, A + 0.3 * rng.normal(size=(n, n)) / np.sqrt(n), v, n)


def materialise(Afunc, n):
    """Dense matrix of a matrix-free linear map (column j = Afunc(e_j))."""
    A = np.zeros((n, n), dtype=complex)
    for j in range(n):
        e = np.zeros(n, dtype=complex)
        e[j] = 1
        A[:, j] = np.asarray(Afunc(e)).reshape(-1)
    return A


def insitu_monitors(ctx, counts, nmax=320):
    """around-functions for lanczos_iteration / arnoldi_iteration observing real call sites (matrix-free local Hamiltonians)."""
    def around_lanczos(orig, Afunc, vstart, numiter):
        n = len(vstart)
        calls = [0]

        def counted(x):
            calls[0] += 1
            return Afunc(x)
        v0 = np.array(vstart, copy=True)
        out = orig(counted, vstart, numiter)
        counts['lanczos'] = counts.get('lanczos', 0) + 1
        if n > nmax:
            ctx.skip('lanczos.three-term-recurrence')
            return out
        A = materialise(Afunc, n)
        nA = np.linalg.norm(A, 2)
        if nA == 0 or np.linalg.norm(A - A.conj().T, 2) > 1e-9 * nA:
            counts['non-hermitian-or-zero'] = counts.get('non-hermitian-or-zero', 0) + 1
            return out
        verify_lanczos(ctx, A, vstart, v0, numiter, out, calls[0], {'n': n, 'm': numiter, 'A': A, 'v': v0}, True)
        return out

    def around_arnoldi(orig, Afunc, vstart, numiter):
        n = len(vstart)
        calls = [0]

        def counted(x):
            calls[0] += 1
            return Afunc(x)
        v0 = np.array(vstart, copy=True)
        out = orig(counted, vstart, numiter)
        counts['arnoldi'] = counts.get('arnoldi', 0) + 1
        if n > nmax:
            ctx.skip('arnoldi.recurrence')
            return out
        A = materialise(Afunc, n)
        if np.linalg.norm(A, 2) == 0:
            return out
        verify_arnoldi(ctx, A, vstart, v0, numiter, out, calls[0], {'n': n, 'm': numiter, 'A': A, 'v': v0}, True)
        return out
    return [('pytenet.krylov.lanczos_iteration', around_lanczos), ('pytenet.krylov.arnoldi_iteration', around_arnoldi)]


def insitu_case(ctx, idx, rng):
    """Real call sites: the site-local and bond-local effective Hamiltonians of TDVP and DMRG (block-sparse vectors confined to charge
    sectors, Krylov spaces that exhaust early, numiter above and below the local dimension) and expm_krylov with hermitian=False."""
    from .. import gen, monitor, refs
    counts = {}
    name, L, p, H = gen.pick_model(rng, maxdim=512, Lmax=6)
    prof = str(rng.choice(['random', 'max', 'over', 'one']))
    psi = gen.rand_mps(rng, H.qd, L, prof, Dmax=4)
    if np.linalg.norm(refs.dense_state(psi.A)) == 0:
        psi = gen.rand_mps(rng, H.qd, L, 'max', Dmax=4)
        if np.linalg.norm(refs.dense_state(psi.A)) == 0:
            return
    op = str(rng.choice(['tdvp1', 'tdvp2', 'dmrg1', 'dmrg2', 'expm-general']))
    m = int(rng.choice([1, 2, 3, 5, 8, 13, 25]))
    ctx.case(('insitu', name, prof, op, 'm<=3' if m <= 3 else 'm>3'), sample={'model': name, 'L': L, 'op': op, 'numiter': m})
    mons = insitu_monitors(ctx, counts)
    with monitor.attached(*mons[0]), monitor.attached(*mons[1]), warnings.catch_warnings():
        warnings.simplefilter('ignore')
        psi.orthonormalize('left' if op.startswith('dmrg') else 'right') if op != 'expm-general' else None
        if op == 'tdvp1':
            ptn.integrate_local_singlesite(H, psi, complex(rng.choice([0.1j, 0.05, 0.02 + 0.1j])), 1, numiter_lanczos=m)
        elif op == 'tdvp2':
            ptn.integrate_local_twosite(H, psi, 0.1j, 1, numiter_lanczos=m, tol_split=float(rng.choice([0, 1e-8])))
        elif op == 'dmrg1':
            ptn.calculate_ground_state_local_singlesite(H, psi, 1, numiter_lanczos=m)
        elif op == 'dmrg2':
            ptn.calculate_ground_state_local_twosite(H, psi, 1, numiter_lanczos=m)
        else:
            A = refs.dense_operator(H.A)
            v = refs.dense_state(psi.A)
            if rng.random() < 0.5:
                A = A + 0.2j * A @ A
            ptn.expm_krylov(lambda x: A @ x, v, 0.3, min(m, len(v)), hermitian=bool(np.allclose(A, A.conj().T)) and rng.random() < 0.5)
    for k, c in counts.items():
        ctx.event('insitu_' + k + '_calls', c)
    if not counts:
        ctx.event('insitu_no_call')


def soak_case(ctx, idx, rng):
    """The repository's own test-suite with the Krylov oracles attached to every call of lanczos_iteration / arnoldi_iteration."""
    from .. import soak
    counts = {}
    ctx.case(('soak', 'repository-test-suite'), sample={'functions_monitored': ['lanczos_iteration', 'arnoldi_iteration']})
    soak.run_suite(ctx, insitu_monitors(ctx, counts, nmax=260))
    for k, c in counts.items():
        ctx.event('soak_' + k + '_calls', c)


SPEC = {
    'id': 'C14',
    'rule': ('grid: every (n, m) with 1<=n<=10, 1<=m<=n+5 x spectra (separated, degenerate, clustered, Gaussian) x starts (generic, real, '
             'structural / rotated invariant subspace, eigenvector) x real/complex, Lanczos on the Hermitian matrix and Arnoldi on a general or '
             'the same matrix, plus phase-structured data (i*real / -i*real matrices with real or purely imaginary start vectors, i*antisymmetric Hermitian matrices) and localised real start vectors on maps that are real only on the support of the start vector (Peierls chains, imaginary part off the support); large: n in {20,50,120,300}, m<=24 and long runs m up to 96; F6 cases n=m in {32,48,64}; in situ: every lanczos/arnoldi call raised by one/two-site TDVP and DMRG sweeps (site-local and bond-local effective Hamiltonians materialised column by column, block-sparse start vectors, numiter 1..25 below and above the local dimension), by expm_krylov on general matrices, and (thorough) by the repository test-suite. The always-on relations (sizes, real alpha, '
             'beta>0, unit norms, three-term recurrence, local orthogonality, Afunc call count, justified early return, full length when '
             'the independent re-orthogonalised Krylov dimension is >= m with margin) are demanded everywhere; and so are global '
             'orthonormality and V^H A V = T on the leading min(k, Krylov dimension) vectors (the conditioning indicator min beta_j|s_ji|/||T|| '
             'is recorded per case to show that converged-Ritz-pair cases are covered). distinct = '
             '(routine, size class, m vs n, spectrum, start, dtype).'),
    'deciding': ['held.lanczos-recurrence', 'held.arnoldi-recurrence', 'lanczos.three-term-recurrence', 'lanczos.sizes', 'lanczos.beta-positive', 'lanczos.alpha-real', 'lanczos.orthonormal',
                 'lanczos.projection', 'lanczos.early-return-justified', 'arnoldi.recurrence', 'arnoldi.orthonormal', 'arnoldi.projection',
                 'arnoldi.hessenberg'],
    'workloads': [
        Workload('grid', grid_case, quick=len(GRID) * 8, thorough=len(GRID) * 3000,
                 exhaustive={'space': 'all (n,m), 1<=n<=10, 1<=m<=n+5 (each with rotating spectrum/start/dtype classes)'}),
        Workload('large', large_case, quick=300, thorough=36000),
        Workload('held-results', held_results_case, quick=300, thorough=20000),
        Workload('f6', f6_case, quick=6, thorough=288),
        Workload('insitu', insitu_case, quick=120, thorough=8000),
        Workload('suite-soak', soak_case, quick=0, thorough=1, shardable=False),
    ],
    'shards': {'quick': 1, 'thorough': 16},
    'assumptions': ['reference Krylov dimension from a twice re-orthogonalised Arnoldi process; thresholds 1e-8 (exhausted) and 1e-5 (margin)'],
}
