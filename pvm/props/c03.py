"""C03 — MPS/MPO arithmetic agrees with dense linear algebra."""
import numpy as np
from scipy import sparse

from .. import gen, monitor, refs
from ..core import Workload
from ..env import ptn
from .c01 import _qd

TOL = 1e-11


def ts(obj):
    """natural scale of an MPS/MPO: product of its tensor norms (rounding errors of contractions are relative to it)"""
    return float(np.prod([max(float(np.linalg.norm(np.asarray(a, dtype=complex))), 1e-300) for a in obj.A]))


def _rel(ctx, mon, got, want, scale, detail):
    ctx.close(mon, float(np.linalg.norm(np.asarray(got) - np.asarray(want))), TOL * max(scale, 1e-300), '', detail)


def site_edit_probe(ctx, tag, obj, is_mpo, rng, scale, detail):
    """History: ONE site tensor of a freshly returned object is edited in place; the dense form must change at that site only
    (reference: independent copies of the tensors with the same edit) -- site tensors of a result must not be one shared array."""
    L = len(obj.A)
    if L == 0 or any(not a.flags.writeable for a in obj.A):
        ctx.skip(f'{tag}.site-edit-stays-local')
        return
    copies = [np.array(a, copy=True) for a in obj.A]
    i = int(rng.integers(0, L))
    c = 3 if np.issubdtype(obj.A[i].dtype, np.integer) else 2.5
    obj.A[i] *= c
    copies[i] = copies[i] * c
    nz = np.argwhere(copies[i] != 0)
    if len(nz) and rng.random() < 0.5:
        j = tuple(nz[int(rng.integers(0, len(nz)))])
        obj.A[i][j] += 1
        copies[i][j] += 1
    want = refs.dense_operator(copies) if is_mpo else refs.dense_state(copies)
    got = obj.as_matrix() if is_mpo else obj.as_vector()
    ctx.close(f'{tag}.site-edit-stays-local', float(np.linalg.norm(np.asarray(got) - want)), TOL * max(4 * scale + float(np.linalg.norm(want)), 1e-300),
              f'after an in-place edit of site {i} of the result, its dense form differs from (copies of its tensors with the same edit)', dict(detail or {}, edited_site=i))


def _pair_mps(rng, L, d, layout):
    qd = _qd(rng, d, layout)
    p0 = str(rng.choice(['one', 'random', 'max', 'over']))
    p1 = str(rng.choice(['one', 'random', 'max', 'over']))
    k0 = str(rng.choice(['complex', 'real', 'int', 'mixed']))
    k1 = str(rng.choice(['complex', 'real', 'int', 'mixed']))
    q0 = int(rng.integers(-1, 2))
    a = gen.rand_mps(rng, qd, L, p0, Dmax=4, kind=k0, q0=q0)
    b = gen.rand_mps(rng, qd, L, p1, Dmax=4, kind=k1, q0=q0, qL=int(a.qD[-1][0]))
    return qd, a, b, (p0, p1, k0, k1)


def mps_sum(ctx, idx, rng):
    L = int(rng.choice([1, 1, 2, 3, 4, 5, 6]))
    d = int(rng.choice([1, 2, 3]))
    layout = str(rng.choice(['zero', 'unsorted', 'sorted', 'pairs', 'huge']))
    qd, a, b, lab = _pair_mps(rng, L, d, layout)
    if idx % 6 == 4 and L >= 1:
        b, _ = gen.partially_shared_mps(rng, a)       # the second summand SHARES most site-tensor arrays by reference with the first
        lab = lab[:1] + ('shares-tensors',) + lab[2:]
    if idx % 6 == 5:
        b = a                      # the SAME object on both sides (psi - psi, psi + psi, add_mps(psi, psi, alpha))
        lab = lab[:1] + ('same-object',) + lab[2:]
    va, vb = refs.dense_state(a.A), refs.dense_state(b.A)
    sub = bool(idx % 2)
    ctx.case(('mps-sum', f'L{min(L, 3)}', f'd{d}', layout, 'sub' if sub else 'add') + lab, sample={'qd': qd, 'qDa': a.qD, 'qDb': b.qD})
    detail = {'qd': qd, 'a': {'qD': a.qD, 'A': a.A}, 'b': {'qD': b.qD, 'A': b.A}, 'sub': sub}
    with monitor.write_protected(a, b):
        r = (a - b) if sub else (a + b)
    inv = refs.mps_invariant(r)
    ctx.ok('mps-sum.block-sparse', inv is None, str(inv), detail)
    if inv is None:
        _rel(ctx, 'mps-sum.dense', refs.dense_state(r.A), va - vb if sub else va + vb, ts(a) + ts(b), detail)
        _rel(ctx, 'as_vector.dense', r.as_vector(), refs.dense_state(r.A), ts(a) + ts(b), detail)
        if idx % 2:
            def later(r=r, want=(va - vb if sub else va + vb), sc=ts(a) + ts(b)):
                _rel(ctx, 'mps-sum.result-still-valid-after-later-calls', refs.dense_state(r.A), want, sc, None)
            ctx.hold(later)
        if L > 1:
            ctx.ok('mps-sum.bond-dims-add', r.bond_dims[1:-1] == [x + y for x, y in zip(a.bond_dims[1:-1], b.bond_dims[1:-1])], 'inner bond dims must add', detail)
    if inv is None and idx % 2 == 0:
        i = int(rng.integers(0, L))
        r.A[i] = r.A[i] * 1 if np.issubdtype(r.A[i].dtype, np.integer) else r.A[i]
        r.A[i] *= 3 if np.issubdtype(r.A[i].dtype, np.integer) else 2.5
        want2 = refs.dense_state(r.A)
        _rel(ctx, 'as_vector.dense[after-inplace-edit]', r.as_vector(), want2, 3 * (ts(a) + ts(b)), detail)
        _rel(ctx, 'mps-sum.dense[after-inplace-edit]', refs.dense_state((r - a).A), want2 - va, 3 * (ts(a) + ts(b)) + ts(a), detail)
    # direct call with a general alpha
    alpha = complex(rng.normal(), rng.normal()) if rng.random() < 0.5 else float(rng.choice([-1, 0.5, 2]))
    import pytenet.mps as pm
    r2 = pm.add_mps(a, b, alpha=alpha)
    _rel(ctx, 'add_mps.alpha', refs.dense_state(r2.A), va + alpha * vb, ts(a) + abs(alpha) * ts(b), detail)
    if refs.mps_invariant(r2) is None and idx % 4 == 1:
        site_edit_probe(ctx, 'mps-sum', r2, False, rng, ts(a) + abs(alpha) * ts(b), detail)


def mpo_arith(ctx, idx, rng):
    L = int(rng.choice([1, 1, 2, 3, 4]))
    d = int(rng.choice([1, 2, 3]))
    while d ** (2 * L) > 4096:
        L -= 1
    layout = str(rng.choice(['zero', 'unsorted', 'sorted', 'pairs', 'huge']))
    qd = _qd(rng, d, layout)
    diffs = np.unique(np.subtract.outer(qd, qd))
    b0 = int(rng.choice(diffs))
    k0 = str(rng.choice(['complex', 'real', 'int', 'mixed']))
    k1 = str(rng.choice(['complex', 'real', 'int', 'mixed']))
    A = gen.rand_mpo(rng, qd, L, Dmax=3, kind=k0)
    B = gen.rand_mpo(rng, qd, L, Dmax=3, kind=k1, boundary=(int(A.qD[0][0]), int(A.qD[-1][0])))
    # B's trailing charge must be reachable: re-mask (rand_mpo masks with its own qD, so B is consistent by construction)
    C = gen.rand_mpo(rng, qd, L, Dmax=2, kind='complex')
    if idx % 5 == 3 and d >= 2 and layout == 'zero':
        # operands assembled from structured blocks (zero blocks, identities, c*I + g*X, projectors, shifts) as in hand-written automaton-form operators
        A = gen.structured_block_mpo(rng, d, L, Dmax=3, cplx=True)
        B = gen.structured_block_mpo(rng, d, L, Dmax=3, cplx=bool(rng.random() < 0.5))
        C = gen.structured_block_mpo(rng, d, L, Dmax=2, cplx=True)
        k0 = k1 = 'structured-blocks'
    same = idx % 7 == 6
    if same:
        B = A                      # the SAME object on both sides (A - A, A + A, A @ A)
        C = A
        k1 = 'same-object'
    mA, mB, mC = refs.dense_operator(A.A), refs.dense_operator(B.A), refs.dense_operator(C.A)
    op = ('add', 'sub', 'matmul', 'chain')[idx % 4]
    ctx.case(('mpo', op, f'L{L}', f'd{d}', layout, k0, k1), sample={'qd': qd, 'qDA': A.qD, 'qDB': B.qD, 'op': op})
    detail = {'qd': qd, 'A': {'qD': A.qD, 'A': A.A}, 'B': {'qD': B.qD, 'A': B.A}, 'C': {'qD': C.qD, 'A': C.A}, 'op': op}
    sc = ts(A) + ts(B)
    with monitor.write_protected(A, B, C):
        if op == 'add':
            r = A + B
            want = mA + mB
        elif op == 'sub':
            r = A - B
            want = mA - mB
        elif op == 'matmul':
            r = A @ C
            want = mA @ mC
            sc = ts(A) * ts(C)
        else:
            r = ((A + B) @ C) - (A @ C)
            want = mB @ mC
            sc = (ts(A) + ts(B)) * ts(C)
    inv = refs.mpo_invariant(r)
    ctx.ok(f'mpo-{op}.block-sparse', inv is None, str(inv), detail)
    if inv is None:
        _rel(ctx, f'mpo-{op}.dense', refs.dense_operator(r.A), want, sc, detail)
        dm = r.as_matrix()
        _rel(ctx, 'as_matrix.dense-format', dm, refs.dense_operator(r.A), sc, detail)
        sm = r.as_matrix(sparse_format=(True, np.bool_(True), 1)[idx % 3])
        ctx.ok('as_matrix.sparse-type', sparse.issparse(sm), f'sparse_format=True returned {type(sm).__name__}', detail)
        if sparse.issparse(sm):
            _rel(ctx, 'as_matrix.sparse==dense', sm.toarray(), dm, sc, detail)
    if inv is None and idx % 2 == 1 and rng.random() < 0.5:
        site_edit_probe(ctx, f'mpo-{op}', r, True, rng, sc, detail)
    if inv is None and idx % 2 == 0:
        # history: the same object is edited IN PLACE between two requests (a result cached by object identity would be stale)
        i = int(rng.integers(0, L))
        if np.issubdtype(r.A[i].dtype, np.integer):
            r.A[i] *= 3
        else:
            r.A[i] *= 2.5
        if rng.random() < 0.5:
            nz = np.argwhere(r.A[0] != 0)
            if len(nz):
                r.A[0][tuple(nz[int(rng.integers(0, len(nz)))])] += 1
        want2 = refs.dense_operator(r.A)
        _rel(ctx, 'as_matrix.dense-format[after-inplace-edit]', r.as_matrix(), want2, 3 * sc + 1, detail)
        sm2 = r.as_matrix(sparse_format=True)
        if sparse.issparse(sm2):
            _rel(ctx, 'as_matrix.sparse==dense[after-inplace-edit]', sm2.toarray(), want2, 3 * sc + 1, detail)
        # and the edited object as an operand
        r2 = r + r
        _rel(ctx, 'mpo-add.dense[after-inplace-edit]', refs.dense_operator(r2.A), 2 * want2, 6 * sc + 2, detail)
    if op in ('add', 'sub'):
        import pytenet.mpo as pmo
        alpha = complex(rng.normal(), rng.normal())
        r2 = pmo.add_mpo(A, B, alpha=alpha)
        _rel(ctx, 'add_mpo.alpha', refs.dense_operator(r2.A), mA + alpha * mB, sc * (1 + abs(alpha)), detail)


def apply_case(ctx, idx, rng):
    L = int(rng.choice([1, 2, 3, 4, 5]))
    d = int(rng.choice([1, 2, 3]))
    while d ** L > 1024:
        L -= 1
    layout = str(rng.choice(['zero', 'unsorted', 'pairs', 'huge']))
    qd, a, b, lab = _pair_mps(rng, L, d, layout)
    src = str(rng.choice(['random', 'random-open-charge', 'model']))
    if src == 'model' and d in (2, 3) and L >= 2:
        H = gen.model({2: 'xxz', 3: 'xxz1'}[d], L, gen.generic_params(rng))
        a = gen.rand_mps(rng, H.qd, L, 'random', Dmax=4)
        b = gen.rand_mps(rng, H.qd, L, 'random', Dmax=3, qL=int(a.qD[-1][0]))
        qd = H.qd
    else:
        H = gen.rand_mpo(rng, qd, L, Dmax=3, kind=str(rng.choice(['complex', 'real'])))
        if not np.any(qd) and len(qd) >= 2 and idx % 3 == 1:
            H = gen.structured_block_mpo(rng, len(qd), L, Dmax=3, cplx=True)
            src = src + '+structured-blocks'
    mH = refs.dense_operator(H.A)
    va, vb = refs.dense_state(a.A), refs.dense_state(b.A)
    ctx.case(('apply', f'L{L}', f'd{d}', layout, src) + lab[:2], sample={'qd': qd, 'qDH': H.qD, 'qDpsi': a.qD})
    detail = {'qd': qd, 'H': {'qD': H.qD, 'A': H.A}, 'psi': {'qD': a.qD, 'A': a.A}}
    with monitor.write_protected(H, a, b):
        r = ptn.apply_operator(H, a)
        chain = ptn.apply_operator(H, a - b)
    inv = refs.mps_invariant(r)
    ctx.ok('apply.block-sparse', inv is None, str(inv), detail)
    sc = ts(H) * (ts(a) + ts(b))
    if inv is None:
        _rel(ctx, 'apply.dense', refs.dense_state(r.A), mH @ va, sc, detail)
        ctx.ok('apply.bond-dims-multiply', r.bond_dims == [x * y for x, y in zip(H.bond_dims, a.bond_dims)], 'bond dims must multiply', detail)
    if refs.mps_invariant(chain) is None:
        _rel(ctx, 'apply.chained-expression', refs.dense_state(chain.A), mH @ (va - vb), sc, detail)
    if inv is None and idx % 3 == 0:
        site_edit_probe(ctx, 'apply', r, False, rng, sc, detail)


def identity_case(ctx, idx, rng):
    L = int(rng.integers(1, 7))
    d = int(rng.integers(1, 4))
    while d ** (2 * L) > 4096 * 4:
        L -= 1
    qd = _qd(rng, d, str(rng.choice(['zero', 'unsorted', 'pairs', 'huge'])))
    scale = float(rng.choice([1, -2.5, 0.5]))
    dt = (complex, float)[idx % 2]
    if idx % 4 == 3:
        # scale and dtype of different kinds: the scale must never be narrowed to the dtype (non-integer scale with an integer dtype, complex scale with
        # a real dtype, double-precision scale with a single-precision dtype)
        scale, dt = [(2.5, int), (-0.5, np.int64), (0.5 + 1.5j, float), (1j, int), (np.float64(1.0) / 3, np.float32), (1 + 2j, np.float32)][(idx // 4) % 6]
    ctx.case(('identity', f'L{L}', f'd{d}', f'scale{scale}', np.dtype(dt).name), sample={'qd': qd, 'L': L, 'scale': scale})
    detail = {'qd': qd, 'L': L, 'scale': scale}
    qd0 = qd.copy()
    op = ptn.MPO.identity(qd, L, scale=scale, dtype=dt) if idx % 3 else (ptn.MPO.identity(qd, L) if scale == 1 else ptn.MPO.identity(qd, L, scale))
    inv = refs.mpo_invariant(op)
    ctx.ok('identity.block-sparse', inv is None, str(inv), detail)
    ctx.ok('identity.qd-untouched', np.array_equal(qd, qd0), 'qd modified', detail)
    if inv is None:
        M = refs.dense_operator(op.A)
        if scale == 1:
            _rel(ctx, 'identity.dense', M, np.identity(d ** L), np.sqrt(d ** L), detail)
        else:
            # the statement fixes the meaning only for scale 1; for other scales accept either reading (per-site or overall factor)
            c = M[0, 0]
            _rel(ctx, 'identity.dense', M, c * np.identity(d ** L), abs(c) * np.sqrt(d ** L), detail)
            ctx.ok('identity.scale-factor', min(abs(c - scale ** L), abs(c - scale)) <= 1e-12 * abs(c), f'factor {c} is neither scale nor scale^L', detail)
        ctx.ok('identity.bond-dims-one', op.bond_dims == [1] * (L + 1), 'identity MPO must have bond dimension 1', detail)
        site_edit_probe(ctx, 'identity', op, True, rng, abs(M[0, 0]) * np.sqrt(d ** L), detail)


def from_vector_case(ctx, idx, rng):
    d = int(rng.choice([1, 2, 3, 4]))
    L = int(rng.integers(1, 8))
    while d ** L > 2048:
        L -= 1
    kind = str(rng.choice(['complex', 'real', 'product', 'sparse', 'int', 'phase-times-real']))
    if idx % 8 == 5:
        # long chains: the first matricizations are extremely wide (2 x 8192, 3 x 6561, 6 x 7776), and data that are NEARLY of low rank across
        # the cuts (singular-value ratios 1e-8 .. 1e-13): at zero tolerance every one of these directions has to survive
        d = int(rng.choice([2, 3, 4, 5, 6]))
        L = int(rng.integers({2: 10, 3: 8, 4: 6, 5: 5, 6: 5}[d], {2: 14, 3: 9, 4: 7, 5: 6, 6: 5}[d] + 1))
        kind = str(rng.choice(['near-product', 'near-product', 'near-low-rank', 'complex', 'product']))
    n = d ** L
    if kind in ('near-product', 'near-low-rank'):
        v = np.ones(1)
        for _ in range(L):
            v = np.kron(v, rng.normal(size=d) + 1j * rng.normal(size=d))
        if kind == 'near-low-rank':
            w = np.ones(1)
            for _ in range(L):
                w = np.kron(w, rng.normal(size=d) + 1j * rng.normal(size=d))
            v = v + w * float(rng.choice([1.0, 1e-4]))
        g = rng.normal(size=n) + 1j * rng.normal(size=n)
        v = v / np.linalg.norm(v) + float(rng.choice([1e-8, 1e-9, 1e-10, 1e-12])) * g / np.linalg.norm(g)
        if idx % 16 == 5:
            v = v.real.copy()
        kind_gen = None
    else:
        kind_gen = kind
    kind, kind_lbl = kind_gen, kind
    if kind is None:
        pass
    elif kind == 'complex':
        v = rng.normal(size=n) + 1j * rng.normal(size=n)
    elif kind == 'real':
        v = rng.normal(size=n)
    elif kind == 'phase-times-real':
        # a real vector times ONE complex number whose real and imaginary parts are related exactly (1 - 1j, -1 + 1j, 1 + 1j, 1j, exp(-i pi/4)): entries with
        # Re = -Im, Re = Im, Re = 0 -- sign conventions taken from 're + im', 'sign(re)' or a vanishing real part
        v = rng.normal(size=n) * complex([1 - 1j, -1 + 1j, 1 + 1j, 1j, np.exp(-0.25j * np.pi), -1j][int(rng.integers(0, 6))])
    elif kind == 'int':
        v = rng.integers(-3, 4, size=n)
        if not v.any():
            v[0] = 1
    elif kind == 'product':
        v = np.ones(1)
        for _ in range(L):
            v = np.kron(v, rng.normal(size=d) + 1j * rng.normal(size=d))
    else:
        v = np.zeros(n, dtype=complex)
        v[rng.integers(0, n, size=max(1, n // 8))] = rng.normal(size=max(1, n // 8))
        if not v.any():
            v[0] = 1
    v = v * float(rng.choice([1, 1e-6, 1e6]))
    ctx.case(('from_vector', f'd{d}', f'L{min(L, 4)}' if L < 5 else ('L5-7' if L < 8 else 'L>=8'), kind_lbl), sample={'d': d, 'L': L, 'v': v[:32]})
    detail = {'d': d, 'L': L, 'v': v}
    v0 = np.array(v, copy=True)
    with monitor.write_protected(v):
        psi = ptn.MPS.from_vector(d, L, v) if idx % 2 else ptn.MPS.from_vector(d, L, v, tol=0)
    ctx.ok('from_vector.input-unchanged', np.array_equal(v, v0), 'input vector modified', detail)
    inv = refs.mps_invariant(psi)
    ctx.ok('from_vector.invariant', inv is None, str(inv), detail)
    if inv is None:
        _rel(ctx, 'from_vector.tol0-reproduces', refs.dense_state(psi.A), v0, np.linalg.norm(v0), detail)
        ctx.ok('from_vector.bond-dims', all(D <= min(d ** i, d ** (L - i)) for i, D in enumerate(psi.bond_dims)), f'bond dims {psi.bond_dims} exceed the Schmidt bound', detail)
        if idx % 3 == 0:
            site_edit_probe(ctx, 'from_vector', psi, False, rng, float(np.linalg.norm(v0)), detail)


def open_segment_case(ctx, idx, rng):
    """Composition of CHAIN SEGMENTS: MPOs whose first and / or last bond has dimension > 1 (the MPO constructor allows this; segments of a longer operator).
    Reference: the dense four-leg form (left bond, rows, columns, right bond) contracted independently; the outer bonds of a @ b are the products of the
    operands' outer bonds (a major, b minor), with labels qa + qb."""
    L = int(rng.integers(1, 4))
    d = int(rng.choice([1, 2, 2, 3]))
    qd = _qd(rng, d, str(rng.choice(['zero', 'unsorted', 'pairs'])))
    diffs = np.unique(np.subtract.outer(qd, qd))
    ends = ('both', 'left', 'right', 'one-each')[idx % 4]
    def lab(n):
        return rng.choice(diffs, size=n)
    na = [int(rng.integers(2, 4)) if ends in ('both', 'left', 'one-each') else 1, int(rng.integers(2, 4)) if ends in ('both', 'right') else 1]
    nb = [int(rng.integers(2, 4)) if ends in ('both', 'left') else 1, int(rng.integers(2, 4)) if ends in ('both', 'right', 'one-each') else 1]
    A = gen.rand_mpo(rng, qd, L, Dmax=2, kind='complex', open_bonds=(lab(na[0]), lab(na[1])))
    B = gen.rand_mpo(rng, qd, L, Dmax=2, kind=str(rng.choice(['complex', 'real'])), open_bonds=(lab(nb[0]), lab(nb[1])))
    ctx.case(('mpo-open-segments', f'L{L}', f'd{d}', ends), sample={'qd': qd, 'qDA': A.qD, 'qDB': B.qD})
    detail = {'qd': qd, 'A': {'qD': A.qD, 'A': A.A}, 'B': {'qD': B.qD, 'A': B.A}}

    def dense4(T):
        M = np.ones((T[0].shape[2], 1, 1, T[0].shape[2]), dtype=complex) * 0
        for a in range(T[0].shape[2]):
            M[a, 0, 0, a] = 1
        for W in T:
            X = np.tensordot(M, np.asarray(W), axes=([3], [2]))          # a r c s t b
            X = X.transpose(0, 1, 3, 2, 4, 5)
            M = X.reshape(X.shape[0], X.shape[1] * X.shape[2], X.shape[3] * X.shape[4], X.shape[5])
        return M
    with monitor.write_protected(A, B):
        C = A @ B
    inv = refs.mpo_invariant(C)
    if not ctx.ok('mpo-open.block-sparse', inv is None, str(inv), detail):
        return
    want = np.einsum('arsb,cstd->acrtbd', dense4(A.A), dense4(B.A))
    want = want.reshape(want.shape[0] * want.shape[1], want.shape[2], want.shape[3], want.shape[4] * want.shape[5])
    got = dense4(C.A)
    if ctx.ok('mpo-open.outer-bonds', got.shape == want.shape and np.array_equal(C.qD[0], np.add.outer(A.qD[0], B.qD[0]).reshape(-1))
              and np.array_equal(C.qD[-1], np.add.outer(A.qD[-1], B.qD[-1]).reshape(-1)), f'outer bonds {C.qD[0]} / {C.qD[-1]}', detail):
        _rel(ctx, 'mpo-open.matmul.dense', got, want, ts(A) * ts(B), detail)


def merge_split_case(ctx, idx, rng):
    import pytenet.mpo as pmo
    d0, d1 = int(rng.integers(1, 4)), int(rng.integers(1, 4))
    D0, D1, D2 = int(rng.integers(1, 5)), int(rng.integers(1, 5)), int(rng.integers(1, 5))
    cplx = rng.random() < 0.5
    A0 = gen.entries(rng, (d0, D0, D1), 'complex' if cplx else 'real')
    A1 = gen.entries(rng, (d1, D1, D2), 'complex' if cplx else 'real')
    ctx.case(('merge', f'd{d0}{d1}', 'complex' if cplx else 'real', ('left', 'right', 'sqrt')[idx % 3]), sample={'A0': A0, 'A1': A1})
    detail = {'A0': A0, 'A1': A1}
    with monitor.write_protected(A0, A1):
        M = ptn.merge_mps_tensor_pair(A0, A1)
    want = np.einsum('sab,tbc->stac', A0, A1).reshape(d0 * d1, D0, D2)
    ctx.ok('merge_mps.shape', M.shape == want.shape, f'{M.shape} != {want.shape}', detail)
    if M.shape == want.shape:
        _rel(ctx, 'merge_mps.dense', M, want, np.linalg.norm(want), detail)
        # merge undoes a zero-tolerance split for every distribution (charge-free here; C12 covers charged tensors)
        distr = ('left', 'right', 'sqrt')[idx % 3]
        z = lambda n: np.zeros(n, dtype=int)
        B0, B1, qb = ptn.split_mps_tensor(M, z(d0), z(d1), [z(D0), z(D2)], distr, 0) if idx % 2 else ptn.split_mps_tensor(M, z(d0), z(d1), [z(D0), z(D2)], distr)
        M2 = ptn.merge_mps_tensor_pair(B0, B1)
        _rel(ctx, 'merge-undoes-split[tol0]', M2, want, np.linalg.norm(want), dict(detail, distr=distr))
    # MPO pair
    W0 = gen.entries(rng, (d0, d0, D0, D1), 'complex')
    W1 = gen.entries(rng, (d1, d1, D1, D2), 'complex')
    with monitor.write_protected(W0, W1):
        W = ptn.merge_mpo_tensor_pair(W0, W1)
    wantW = np.einsum('stab,uvbc->sutvac', W0, W1).reshape(d0 * d1, d0 * d1, D0, D2)
    ctx.ok('merge_mpo.shape', W.shape == wantW.shape, f'{W.shape} != {wantW.shape}', {'W0': W0, 'W1': W1})
    if W.shape == wantW.shape:
        _rel(ctx, 'merge_mpo.dense', W, wantW, np.linalg.norm(wantW), {'W0': W0, 'W1': W1})


def empty_bond_case(ctx, idx, rng):
    """Operands with an interior bond of dimension ZERO (a legal representation of the zero state / zero operator; the library itself produces such bonds
    when it splits an exactly vanishing tensor pair): every arithmetic operation and both matrix forms must treat them as zero."""
    L = int(rng.integers(2, 5))
    d = int(rng.choice([2, 3]))
    layout = str(rng.choice(['zero', 'unsorted', 'pairs']))
    qd, a, b, lab = _pair_mps(rng, L, d, layout)
    k = int(rng.integers(1, L))
    z = ptn.MPS(qd, [np.array(q, copy=True) for q in a.qD], fill='postpone')
    z.qD[k] = np.zeros(0, dtype=int)
    z.A = [np.zeros((d, len(z.qD[i]), len(z.qD[i + 1])), dtype=complex) for i in range(L)]
    A = gen.rand_mpo(rng, qd, L, Dmax=3, kind='complex')
    Z = ptn.MPO(qd, [np.array(q, copy=True) for q in A.qD], fill='postpone')
    kz = int(rng.integers(1, L))
    Z.qD[kz] = np.zeros(0, dtype=int)
    Z.A = [np.zeros((d, d, len(Z.qD[i]), len(Z.qD[i + 1])), dtype=complex) for i in range(L)]
    va, mA = refs.dense_state(a.A), refs.dense_operator(A.A)
    ctx.case(('empty-bond', f'L{L}', f'd{d}', layout, f'k{k}'), sample={'L': L, 'd': d, 'empty_mps_bond': k, 'empty_mpo_bond': kz})
    detail = {'L': L, 'qd': qd, 'empty_mps_bond': k, 'empty_mpo_bond': kz, 'qD_a': a.qD, 'qD_A': A.qD}
    sa, sA = ts(a), ts(A)
    with monitor.write_protected(a, z, A, Z):
        _rel(ctx, 'empty-bond.as_vector', z.as_vector(), 0 * va, 1.0, detail)
        _rel(ctx, 'empty-bond.mps-add', refs.dense_state((a + z).A), va, sa, detail)
        _rel(ctx, 'empty-bond.mps-sub', refs.dense_state((z - a).A), -va, sa, detail)
        _rel(ctx, 'empty-bond.apply[zero state]', refs.dense_state(ptn.apply_operator(A, z).A), 0 * va, 1.0, detail)
        _rel(ctx, 'empty-bond.apply[zero operator]', refs.dense_state(ptn.apply_operator(Z, a).A), 0 * va, 1.0, detail)
        _rel(ctx, 'empty-bond.mpo-add', refs.dense_operator((A + Z).A), mA, sA, detail)
        _rel(ctx, 'empty-bond.mpo-matmul', refs.dense_operator((Z @ A).A), 0 * mA, 1.0, detail)
        _rel(ctx, 'empty-bond.as_matrix-dense', Z.as_matrix(), 0 * mA, 1.0, detail)
        sm = Z.as_matrix(sparse_format=True)
        ctx.ok('empty-bond.as_matrix-sparse', sparse.issparse(sm) and sm.shape == mA.shape and sm.nnz == 0, 'sparse form of a zero operator with an empty bond', detail)


def large_case(ctx, idx, rng):
    """Sums, differences and operator application beyond the dense reach, compared through probe overlaps."""
    from .. import large
    which = ('add', 'sub', 'apply', 'mpo-add-apply')[idx % 4]
    if which in ('apply', 'mpo-add-apply'):
        name, d, L, H = large.pick_large(rng)
        qd = H.qd
    else:
        L = int(rng.integers(8, 25)); d = int(rng.choice([2, 3, 5]))
        qd = _qd(rng, d, str(rng.choice(['zero', 'unsorted', 'pairs', 'huge'])))
    a = large.big_state(rng, qd, L, int(rng.choice([4, 8])))
    b = gen.rand_mps(rng, qd, L, 'random', Dmax=int(rng.choice([3, 6])), q0=int(a.qD[0][0]), qL=int(a.qD[-1][0]))
    probes = large.probes_near(rng, [np.asarray(x, dtype=complex) for x in a.A], k=2) + [[np.asarray(x, dtype=complex) for x in b.A]]
    ctx.case(('large', which, f'L{L // 8 * 8}+', f'd{d}'), sample={'op': which, 'L': L, 'd': d, 'bond_dims_a': a.bond_dims, 'bond_dims_b': b.bond_dims})
    detail = {'op': which, 'L': L, 'd': d}
    sa, sb = large.tensor_scale(a.A), large.tensor_scale(b.A)
    if which in ('add', 'sub'):
        r = (a + b) if which == 'add' else (a - b)
        sgn = 1 if which == 'add' else -1
        inv = refs.mps_invariant(r)
        ctx.ok('large.sum-block-sparse', inv is None, str(inv), detail)
        for p in probes:
            want = refs.mps_overlap(p, a.A) + sgn * refs.mps_overlap(p, b.A)
            ctx.close('large.sum[probe-overlaps]', abs(refs.mps_overlap(p, r.A) - want), 1e-10 * large.tensor_scale(p) * (sa + sb), '<probe|a+-b> != <probe|a> +- <probe|b>', detail)
    else:
        Hs = large.tensor_scale(H.A)
        if which == 'mpo-add-apply':
            H2 = H + H
            r = ptn.apply_operator(H2, a)
            fac = 2.0
        else:
            r = ptn.apply_operator(H, a)
            fac = 1.0
        inv = refs.mps_invariant(r)
        ctx.ok('large.apply-block-sparse', inv is None, str(inv), detail)
        for p in probes:
            want = fac * refs.mpo_element(p, H.A, a.A)
            ctx.close('large.apply[probe-overlaps]', abs(refs.mps_overlap(p, r.A) - want), 1e-10 * large.tensor_scale(p) * Hs * sa * fac, '<probe|H a> != <probe|H|a>', detail)
        ctx.close('large.operator_average', abs(ptn.operator_average(a, H) - refs.mpo_element(a.A, H.A, a.A)), 1e-10 * Hs * sa ** 2, 'operator_average at large L', detail)
        ctx.close('large.vdot', abs(ptn.vdot(b, a) - refs.mps_overlap(b.A, a.A)), 1e-10 * sa * sb, 'vdot at large L', detail)


def soak_case(ctx, idx, rng):
    """The repository's own test-suite and documentation notebooks with dense references attached to add_mps / add_mpo / multiply_mpo / apply_operator
    (objects within dense reach; larger ones are counted and passed through)."""
    from .. import soak
    n = {'checked': 0, 'beyond-dense-reach': 0}

    def dense(o):
        return refs.dense_operator(o.A) if isinstance(o, ptn.MPO) else refs.dense_state(o.A)

    def small(*objs):
        for o in objs:
            L = len(o.A)
            d = len(o.qd)
            if (isinstance(o, ptn.MPO) and d ** (2 * L) > 4096 * 64) or (not isinstance(o, ptn.MPO) and d ** L > 16384) or L == 0:
                return False
        return True

    def make(name, ref):
        def around(orig, *a, **k):
            objs = [x for x in a if isinstance(x, (ptn.MPS, ptn.MPO))]
            if not small(*objs):
                n['beyond-dense-reach'] += 1
                return orig(*a, **k)
            ds = [dense(o) for o in objs]
            r = orig(*a, **k)
            n['checked'] += 1
            alpha = k.get('alpha', a[2] if len(a) > 2 else 1)
            want = ref(ds, alpha)
            sc = float(np.sum([ts(o) for o in objs])) if name.startswith('add') else float(np.prod([ts(o) for o in objs]))
            ctx.close(f'soak.{name}.dense', float(np.linalg.norm(dense(r) - want)), 1e-10 * max(sc * (1 + abs(alpha)), 1e-300),
                      f'{name} called from the test-suite / notebooks deviates from dense linear algebra', {'function': name}, True)
            return r
        return around
    att = [('pytenet.mps.add_mps', make('add_mps', lambda ds, al: ds[0] + al * ds[1])),
           ('pytenet.mpo.add_mpo', make('add_mpo', lambda ds, al: ds[0] + al * ds[1])),
           ('pytenet.mpo.multiply_mpo', make('multiply_mpo', lambda ds, al: ds[0] @ ds[1])),
           ('pytenet.operation.apply_operator', make('apply_operator', lambda ds, al: ds[0] @ ds[1]))]
    ctx.case(('soak', 'repository-test-suite+notebooks'), sample={'functions_monitored': [a for a, _ in att]})
    soak.run_suite(ctx, att)
    soak.run_notebooks(ctx, att)
    for k, v in n.items():
        ctx.event('soak_calls_' + k, v)


SPEC = {
    'id': 'C03',
    'rule': ('histories: every result object is edited in place and converted / used again (stale caches); sums/differences of MPS and MPO (L 1..6 incl. the single-site path, independent bond profiles one/random/maximal/over-complete for the '
             'two operands, matching non-trivial boundary charges, real/complex/mixed, general alpha), MPO composition, chained expression '
             '((A+B)@C - A@C), apply_operator incl. H(psi - phi), MPO.identity (scale, dtype), as_matrix dense vs sparse, as_vector, from_vector '
             'with zero tolerance (complex, real, integer, product, sparse vectors, scales 1e-6..1e6; every eighth case a LONG chain of 2^10..2^14 / 3^8..3^9 / 4^6..4^7 / 5^5..5^6 / 6^5 entries with nearly low-rank data, perturbation 1e-8..1e-12), merge/split of tensor pairs for '
             'left/right/sqrt. All compared with dense algebra on independently contracted operands (rel 1e-11). distinct = (operation, L, d, '
             'layout, profiles, dtypes).'),
    'deciding': ['as_matrix.sparse==dense[after-inplace-edit]', 'mps-sum.dense', 'mpo-add.dense', 'mpo-sub.dense', 'mpo-matmul.dense', 'mpo-chain.dense', 'apply.dense', 'identity.dense',
                 'as_matrix.sparse==dense', 'as_matrix.dense-format', 'as_vector.dense', 'from_vector.tol0-reproduces', 'merge_mps.dense',
                 'merge-undoes-split[tol0]', 'merge_mpo.dense'],
    'workloads': [
        Workload('mps-sum', mps_sum, quick=1200, thorough=160000),
        Workload('mpo-arith', mpo_arith, quick=1000, thorough=128000),
        Workload('apply', apply_case, quick=600, thorough=60000),
        Workload('identity', identity_case, quick=120, thorough=8000),
        Workload('empty-bond', empty_bond_case, quick=120, thorough=8000),
        Workload('from-vector', from_vector_case, quick=250, thorough=48000),
        Workload('open-segments', open_segment_case, quick=200, thorough=24000),
        Workload('large', large_case, quick=80, thorough=8000),
        Workload('merge-split', merge_split_case, quick=600, thorough=64000),
        Workload('suite-soak', soak_case, quick=0, thorough=1, shardable=False),
    ],
    'shards': {'quick': 1, 'thorough': 16},
    'assumptions': ['dense contraction in pvm/refs.py'],
}
