"""C12 — block-sparse SVD split truncates exactly the smallest weights within tolerance."""
from fractions import Fraction

import numpy as np

from .. import gen, monitor, oracles, refs
from ..core import Workload
from ..env import ptn

TOLS = [0.0, 1e-30, 1e-24, 1e-20, 1e-17, 1e-16, 1e-12, 1e-8, 1e-4, 1e-3, 0.01, 0.05, 0.1, 0.2, 0.3, 0.5, 0.7, 0.9, 0.99, 0.999999]


def exact_count(spec_int, tol_frac):
    """Exact rule on integer-valued spectrum: keep index i iff cumulative weight from the smallest up to i > tol."""
    w = sorted(Fraction(int(x) ** 2) for x in spec_int)
    tot = sum(w)
    acc = Fraction(0)
    kept = 0
    for x in w:
        acc += x
        if acc / tot > tol_frac:
            kept += 1
    return kept


# spectra with power-of-two squared norm: all arithmetic in retained_bond_indices is exact in binary64
EXACT_SPECTRA = [
    [1, 1, 1, 1, 2, 2, 2],          # |s|^2 = 16
    [2, 2, 2, 2],                   # 16
    [1, 1, 1, 1],                   # 4
    [4, 4, 4, 4, 8, 8, 8, 8, 8, 8, 8, 16, 16],  # 64+448+512=1024
    [3, 4, 12, 84, 0],              # 9+16+144+7056=7225 = 85^2 -> not a power of two: excluded below unless exact
    [1, 1, 1, 1, 2, 2, 2, 0, 0],
    [2, 2, 2, 2, 4, 4, 4],
    [1] * 16,
    [8, 4, 4, 4, 4],                # 64+64 = 128 -> norm not representable exactly: excluded by the guard
]


def _pow2(x):
    return x > 0 and (x & (x - 1)) == 0


def _exact_ok(spec):
    n2 = sum(int(x) ** 2 for x in spec)
    r = int(round(np.sqrt(n2)))
    return r * r == n2 and _pow2(r)


def exact_retained(ctx, idx, rng):
    spec = [s for s in EXACT_SPECTRA if _exact_ok(s)]
    sp = list(spec[idx % len(spec)])
    perm = rng.permutation(len(sp))
    s = np.array([sp[i] for i in perm], dtype=float)
    tot = sum(int(x) ** 2 for x in sp)
    cum = sorted(set(sum(sorted(int(x) ** 2 for x in sp)[:k]) for k in range(len(sp) + 1)))
    tols = []
    for c in cum:
        if c < tot:
            tols.append(Fraction(c, tot))                   # on a cumulative weight: decides > versus >=
    for a, b in zip(cum[:-1], cum[1:]):
        if b <= tot:
            tols.append(Fraction(a + b, 2 * tot))           # between two cumulative weights
    for t in tols:
        tf = float(t)
        if Fraction(tf) != t:
            continue
        s0 = s.copy()
        ctx.case(('exact-retained', f'n{len(sp)}', 'on-weight' if t.numerator * 1 in [c * (t.denominator // tot) if t.denominator % tot == 0 else -1 for c in cum] else 'between'),
                 sample={'s': s0, 'tol': tf})
        with monitor.write_protected(s):
            res = ptn.retained_bond_indices(s, tf)
        oracles.check_retained(ctx, s0, tf, s, res, exact_expected=exact_count(sp, t))


def _perm_diag_block(rng, vals, m, n):
    """m x n matrix with the given values on a random generalised diagonal (exactly representable)."""
    A = np.zeros((m, n))
    rows = rng.permutation(m)[:len(vals)]
    cols = rng.permutation(n)[:len(vals)]
    for r, c, v in zip(rows, cols, vals):
        A[r, c] = v * (1 if rng.random() < 0.5 else -1)
    return A


def exact_svd(ctx, idx, rng):
    spec = [s for s in EXACT_SPECTRA if _exact_ok(s)]
    sp = list(spec[idx % len(spec)])
    nsec = int(rng.integers(1, 4))
    # distribute the values over charge sectors
    assign = rng.integers(0, nsec, size=len(sp))
    q0, q1, blocks = [], [], []
    for sec in range(nsec):
        vals = [sp[i] for i in range(len(sp)) if assign[i] == sec]
        m = len(vals) + int(rng.integers(0, 3))
        n = len(vals) + int(rng.integers(0, 3))
        if m == 0 or n == 0:
            continue
        blocks.append((sec, _perm_diag_block(rng, vals, m, n)))
        q0 += [sec] * m
        q1 += [sec] * n
    q0 = np.array(q0); q1 = np.array(q1)
    A = np.zeros((len(q0), len(q1)))
    for sec, B in blocks:
        A[np.ix_(np.where(q0 == sec)[0], np.where(q1 == sec)[0])] = B
    # shuffle rows/columns (unsorted charges)
    if rng.random() < 0.6:
        pr = rng.permutation(len(q0)); pc = rng.permutation(len(q1))
        A = A[pr][:, pc]; q0 = q0[pr]; q1 = q1[pc]
    if rng.random() < 0.3:
        A = A.astype(complex) * (1j if rng.random() < 0.5 else 1)
    # the repository factorises each charge block with numpy's SVD; exact expectations apply only if that SVD is
    # bit-exact on these blocks (checked here on the identical sub-matrices, it is deterministic)
    allv = []
    for sec in np.intersect1d(q0, q1):
        B = A[np.ix_(np.where(q0 == sec)[0], np.where(q1 == sec)[0])]
        allv += list(np.linalg.svd(B, compute_uv=False))
    exact_lapack = sorted(allv) == sorted([float(x) for x in sp] + [0.0] * (len(allv) - len(sp))) if len(allv) >= len(sp) else False
    tot = sum(int(x) ** 2 for x in sp)
    cum = sorted(set(sum(sorted(int(x) ** 2 for x in sp)[:k]) for k in range(len(sp) + 1)))
    tols = [Fraction(c, tot) for c in cum if c < tot] + [Fraction(a + b, 2 * tot) for a, b in zip(cum[:-1], cum[1:])]
    for t in tols:
        tf = float(t)
        if Fraction(tf) != t:
            continue
        snap = oracles.snapshot_arrays(A, q0, q1)
        ctx.case(('exact-svd', f'sec{nsec}', 'lapack-exact' if exact_lapack else 'lapack-inexact',
                  'complex' if np.iscomplexobj(A) else 'real'), sample={'A': snap[0], 'q0': q0, 'q1': q1, 'tol': tf})
        with monitor.write_protected(A, q0, q1):
            res = ptn.split_matrix_svd(A, q0, q1, tf)
        exp = exact_count(sp, t) if exact_lapack else None
        if exp is None:
            ctx.skip('svd.kept-count-exact')
        oracles.check_svd(ctx, snap[0], snap[1], snap[2], tf, (A, q0, q1), res, exact_expected=exp)


def spectrum(rng, k, kind):
    if kind == 'decaying':
        return np.exp(-rng.uniform(0.2, 3) * np.arange(k))
    if kind == 'flat':
        return np.ones(k)
    if kind == 'staircase':
        return np.repeat(2.0 ** -np.arange((k + 1) // 2), 2)[:k]
    if kind == 'degenerate':
        s = rng.uniform(0.1, 1, size=(k + 1) // 2)
        return np.sort(np.concatenate([s, s]))[::-1][:k]
    if kind == 'deficient':
        s = np.exp(-rng.uniform(0.2, 2) * np.arange(k))
        s[max(1, k // 2):] = 0
        return s
    if kind == 'random':
        return np.sort(rng.uniform(0, 1, size=k))[::-1]
    if kind == 'weak-tail':
        # a few order-one values followed by a tail at 1e-8 .. 1e-12 of the largest (relative weights 1e-16 .. 1e-24: invisible next to 1, far above tiny tolerances)
        nbig = max(1, k // 3)
        return np.concatenate([rng.uniform(0.3, 1, size=nbig), 10.0 ** -rng.uniform(7.5, 12, size=k - nbig)])[:k] * 1.0
    if kind == 'near-degenerate':
        # groups of values agreeing to 6..12 digits without being equal
        s = rng.uniform(0.1, 1, size=(k + 2) // 3)
        s = np.concatenate([s * (1 + float(e)) for e in rng.choice([1e-12, -1e-9, 1e-7, 3e-6, -8e-6], size=3)])
        return np.sort(s)[::-1][:k]
    raise ValueError(kind)


def matrix_with_spectrum(rng, q0, q1, kind, cplx):
    """Block matrix whose overall singular values follow `kind`, spread over the shared charge blocks."""
    A = np.zeros((len(q0), len(q1)), dtype=complex if cplx else float)
    shared = np.intersect1d(q0, q1)
    sizes = [(q, np.where(q0 == q)[0], np.where(q1 == q)[0]) for q in shared]
    ktot = sum(min(len(i), len(j)) for _, i, j in sizes)
    if ktot == 0:
        return A
    sp = spectrum(rng, ktot, kind)
    order = rng.permutation(ktot)     # degenerate values land in different blocks
    pos = 0
    for q, i, j in sizes:
        k = min(len(i), len(j))
        vals = sp[order[pos:pos + k]]
        pos += k
        U = np.linalg.qr(gen.entries(rng, (len(i), len(i)), 'complex' if cplx else 'real'))[0][:, :k]
        V = np.linalg.qr(gen.entries(rng, (len(j), len(j)), 'complex' if cplx else 'real'))[0][:, :k]
        A[np.ix_(i, j)] = (U * vals) @ V.conj().T
    return A


def _layout(rng, m, n):
    lay = str(rng.choice(['zero', 'sorted', 'unsorted', 'q0sorted', 'q1sorted', 'disjoint', 'big', 'pairs', 'repeated', 'huge', 'mirror', 'extreme-signs', 'int8', 'wrap-sorted', 'wrap-sorted-int8', 'int8-small', 'aliased', 'aliased', 'int-extremes', 'descending', 'descending', 'pm-boundary', 'pm-boundary']))
    r = int(rng.integers(1, 3))
    if min(m, n) >= 60 and rng.random() < 0.4:
        lay = 'many-sectors'
    if lay == 'mirror':
        # the same charge vector on both sides (optionally permuted): every charge block is square
        q = gen.qvec(rng, min(m, n), 'unsorted', r)
        return lay, np.concatenate([q, gen.qvec(rng, m - len(q), 'unsorted', r) + 50]), np.concatenate([q, gen.qvec(rng, n - len(q), 'unsorted', r) + 90])[rng.permutation(n) if rng.random() < 0.5 else np.arange(n)]
    if lay == 'q0sorted':
        return lay, gen.qvec(rng, m, 'sorted', r), gen.qvec(rng, n, 'unsorted', r)
    if lay == 'q1sorted':
        return lay, gen.qvec(rng, m, 'unsorted', r), gen.qvec(rng, n, 'sorted', r)
    if lay == 'disjoint':
        return lay, rng.integers(0, 3, size=m), rng.integers(5, 8, size=n)
    return lay, gen.qvec(rng, m, lay, r), gen.qvec(rng, n, lay, r)


SCALES = [1, 1, 1, 0.01, 1e-20, 1e20, 1e-170, 1e170, 1e-280, 1e280]      # beyond 1e+-154 the squares of the entries leave the double range


def random_svd(ctx, idx, rng):
    m, n = (int(rng.integers(1, 25)), int(rng.integers(1, 25))) if idx % 20 else (int(rng.integers(25, 120)), int(rng.integers(25, 120)))
    if idx % 300 == 150:
        m, n = int(rng.integers(300, 700)), int(rng.integers(300, 700))          # occasionally a really large matrix
    aspect = idx % 10 == 7
    if aspect:
        # extreme aspect ratios: very tall and skinny or very wide and flat blocks (80..400 x 2..5) in one or two charge sectors
        m, n = int(rng.integers(80, 400)), int(rng.integers(2, 6))
        if rng.random() < 0.5:
            m, n = n, m
    lay, q0, q1 = _layout(rng, m, n)
    if aspect and rng.random() < 0.7:
        lay = 'aspect-one-or-two-sectors'
        nsec = int(rng.integers(1, 3))
        q0 = np.sort(rng.integers(0, nsec, size=m)); q1 = np.sort(rng.integers(0, nsec, size=n))
    if idx % 10 == 3:
        # REGULAR sector layout: 4..7 shared sectors that all have the same number of rows and the same number of columns and cover every row, plus one to
        # three column labels WITHOUT partner rows placed between / below / above the shared labels (anything that cuts equal-shape blocks from a regular grid)
        ksec = int(rng.integers(4, 8))
        r_, c_ = int(rng.integers(1, 5)), int(rng.integers(1, 5))
        shared = 2 * np.arange(ksec) - int(rng.integers(0, 4))
        q0 = np.repeat(shared, r_)
        extra = rng.choice(np.concatenate([shared[:-1] + 1, [shared[0] - 3, shared[-1] + 5]]), size=int(rng.integers(1, 4)))
        q1 = np.sort(np.concatenate([np.repeat(shared, c_), np.repeat(extra, int(rng.integers(1, 4)))]))
        if rng.random() < 0.5:
            q0 = q0[rng.permutation(len(q0))]; q1 = q1[rng.permutation(len(q1))]
        m, n = len(q0), len(q1)
        lay = 'equal-shape-sectors+unshared-columns'
    kind = str(rng.choice(['decaying', 'flat', 'staircase', 'degenerate', 'near-degenerate', 'weak-tail', 'deficient', 'random', 'zerocols', 'binary', 'dupcols', 'nearstruct', 'nearstruct']))
    if aspect:
        kind = str(rng.choice(['weak-tail', 'weak-tail', 'decaying', 'near-degenerate', 'random']))
    cplx = bool(rng.random() < 0.5)
    if kind in ('zerocols', 'binary', 'dupcols', 'nearstruct'):
        A = gen.structured_block_matrix(rng, q0, q1, kind) * float(rng.choice(SCALES))
        cplx = bool(np.iscomplexobj(A))
    else:
        A = matrix_with_spectrum(rng, q0, q1, kind, cplx) * float(rng.choice(SCALES))
    A, mem = gen.memory_layout(rng, A)
    ex = oracles.pow2_exponent(A)
    As = oracles.ldexp(A, -ex)                        # exactly rescaled copy for the harness's own norms (entries up to 1e+-280)
    nA = np.linalg.norm(As)
    tols = [float(rng.choice(TOLS))]
    if nA > 0:
        # a tolerance sitting on / next to a cumulative weight of the actual spectrum
        sig = np.sort(np.linalg.svd(As, compute_uv=False))
        cw = np.cumsum(sig ** 2) / nA ** 2
        c = float(cw[int(rng.integers(0, len(cw)))])
        for t in (c, c * (1 + 1e-9), c * (1 - 1e-9)):
            if 0 <= t < 1:
                tols.append(t)
    for tol in tols:
        snap = oracles.snapshot_arrays(A, q0, q1)
        ctx.case(('svd', lay, kind, 'complex' if cplx else 'real', 'tol0' if tol == 0 else ('tol-on-weight' if tol not in TOLS else 'tol-grid'),
                  'zero' if nA == 0 else 'nonzero', mem), nontrivial=nA > 0, sample={'A': snap[0], 'q0': q0, 'q1': q1, 'tol': tol})
        if idx % 2:
            with monitor.write_protected(A, q0, q1):
                res = ptn.split_matrix_svd(A, q0, q1, tol)
        else:
            # every second case WITHOUT the write trap (a read-only argument can steer the code away from an in-place branch that a writeable array
            # owning its memory would take); the arguments are compared bit for bit with their snapshots afterwards (svd.input-unchanged)
            res = ptn.split_matrix_svd(A, q0, q1, tol)
        oracles.check_svd(ctx, snap[0], snap[1], snap[2], tol, (A, q0, q1), res)
        if tol == 0 and nA > 0 and isinstance(res, tuple) and len(res) == 4:
            def later(res=res, A0=As.copy(), nA=nA, ex=ex):
                u, sv, v, q = (np.asarray(x) for x in res)
                sv = oracles.ldexp(sv, -ex)
                ctx.close('svd.result-still-valid-after-later-calls', float(np.linalg.norm((u * sv) @ v - A0)), 1e-11 * nA, 'an earlier split_matrix_svd result was altered by later calls', {'A': A0})
            ctx.hold(later)
    if A.flags.writeable and idx % 3 == 0 and nA > 0:
        # history: the SAME array object changed in place and split again
        A *= 3
        A[np.nonzero(A)[0][0], np.nonzero(A)[1][0]] *= -5
        snap = oracles.snapshot_arrays(A, q0, q1)
        ctx.case(('svd', lay, kind, 'after-inplace-edit'), sample={'A': snap[0], 'q0': q0, 'q1': q1, 'tol': tols[0]})
        res = ptn.split_matrix_svd(A, q0, q1, tols[0])
        oracles.check_svd(ctx, snap[0], snap[1], snap[2], tols[0], (A, q0, q1), res)


def random_retained(ctx, idx, rng):
    k = int(rng.integers(1, 30))
    kind = str(rng.choice(['decaying', 'flat', 'staircase', 'degenerate', 'near-degenerate', 'weak-tail', 'deficient', 'random', 'zero']))
    s = np.zeros(k) if kind == 'zero' else spectrum(rng, k, kind)[rng.permutation(k)] * float(rng.choice([1, 1, 1e-100, 1e100, 1e-170, 1e170, 1e-290, 1e290]))
    tol = float(rng.choice(TOLS))
    s0 = s.copy()
    ctx.case(('retained', kind, 'tol0' if tol == 0 else 'tol>0'), nontrivial=kind != 'zero', sample={'s': s0, 'tol': tol})
    with monitor.write_protected(s):
        res = ptn.retained_bond_indices(s, tol)
    oracles.check_retained(ctx, s0, tol, s, res)


def split_tensor(ctx, idx, rng):
    d0, d1 = int(rng.integers(1, 4)), int(rng.integers(1, 4))
    D0, D2 = int(rng.integers(1, 6)), int(rng.integers(1, 6))
    lay = str(rng.choice(['zero', 'unsorted', 'sorted', 'pairs']))
    r = 1
    qd0 = gen.qvec(rng, d0, lay, r); qd1 = gen.qvec(rng, d1, lay, r)
    qD0 = gen.qvec(rng, D0, lay, r); qD2 = gen.qvec(rng, D2, lay, r)
    # tensor as a block matrix (rows: (s0, a), cols: (s1, b)) with prescribed spectrum, then to (d0*d1, D0, D2)
    qrow = np.add.outer(qd0, qD0).reshape(-1)
    qcol = np.add.outer(-qd1, qD2).reshape(-1)
    kind = str(rng.choice(['decaying', 'flat', 'degenerate', 'near-degenerate', 'weak-tail', 'deficient', 'random']))
    cplx = bool(rng.random() < 0.6)
    M = matrix_with_spectrum(rng, qrow, qcol, kind, cplx)
    A = M.reshape(d0, D0, d1, D2).transpose(0, 2, 1, 3).reshape(d0 * d1, D0, D2)
    nA = np.linalg.norm(A)
    distr = ('left', 'right', 'sqrt')[idx % 3]
    tol = float(rng.choice([0, 0, 1e-24, 1e-20, 1e-17, 1e-12, 1e-8, 0.01, 0.1, 0.3]))
    A_snap = A.copy()
    kx = int(rng.choice([0, 0, 0, -560, 560, -830, 830]))          # the tensor handed over is scaled by 2**kx exactly (entries ~1e+-169, 1e+-250)
    A_in = oracles.ldexp(A, kx).copy()
    A_in_snap = A_in.copy()
    ctx.case(('split', lay, kind, distr, 'tol0' if tol == 0 else 'tol>0', 'zero' if nA == 0 else 'nonzero', 'unit-scale' if kx == 0 else ('tiny' if kx < 0 else 'huge')), nontrivial=nA > 0,
             sample={'A': A_snap, 'binary_exponent': kx, 'qd0': qd0, 'qd1': qd1, 'qD': [qD0, qD2], 'svd_distr': distr, 'tol': tol})
    with monitor.write_protected(A_in, qd0, qd1, qD0, qD2):
        A0, A1, qb = ptn.split_mps_tensor(A_in, qd0, qd1, [qD0, qD2], distr, tol)
    detail = {'A (before scaling by 2**binary_exponent)': A_snap, 'binary_exponent': kx, 'qd0': qd0, 'qd1': qd1, 'qD0': qD0, 'qD2': qD2, 'distr': distr, 'tol': tol}
    ctx.ok('split.input-unchanged', oracles.same_bits(A_in, A_in_snap), 'split_mps_tensor modified its argument', detail)
    qb = np.asarray(qb)
    k = len(qb)
    ok = A0.shape == (d0, D0, k) and A1.shape == (d1, k, D2)
    if not ctx.ok('split.shapes', ok, f'A0{A0.shape} A1{A1.shape} k={k}', detail):
        return
    ctx.ok('split.sector-A0', refs.sector_ok(A0, [qd0, qD0, qb], [1, 1, -1]), 'first half not block sparse', detail)
    ctx.ok('split.sector-A1', refs.sector_ok(A1, [qd1, qb, qD2], [1, 1, -1]), 'second half not block sparse', detail)
    merged = oracles.ldexp(np.einsum('sab,tbc->stac', A0, A1).reshape(d0 * d1, D0, D2), -kx)
    if nA == 0:
        ctx.ok('split.zero-product', not np.any(merged), 'zero tensor must split into a zero product', detail)
        return
    sig = np.sort(np.linalg.svd(M, compute_uv=False))[::-1]
    disc2 = float((sig[k:] ** 2).sum())
    err2 = float(np.linalg.norm(merged - A_snap) ** 2)
    ctx.close('split.merge-error-identity', abs(err2 - disc2) / nA ** 2, 1e-11, 'merge(split(A)) error != discarded weight', detail)
    ctx.ok('split.discarded<=tol', disc2 / nA ** 2 <= tol + oracles.slack(tol), f'discarded {disc2 / nA ** 2:.3e} > tol {tol}', detail)
    kmin, kmax = oracles.expected_kept_range(sig, tol)
    ctx.ok('split.kept-count', kmin <= k <= kmax, f'the two-site split keeps {k} singular values, the truncation rule prescribes [{kmin},{kmax}] (tol = {tol})', detail)
    if tol == 0:
        ctx.close('split.tol0-merge-undoes-split', np.linalg.norm(merged - A_snap), 1e-11 * nA, 'merge does not undo the zero-tolerance split', detail)
    if distr == 'right':
        X = A0.reshape(d0 * D0, k)
        ctx.close('split.isometric-side', np.linalg.norm(X.conj().T @ X - np.identity(k)), 1e-11 * np.sqrt(k), 'A0 not an isometry for svd_distr=right', detail)
    elif distr == 'left':
        X = A1.transpose(1, 0, 2).reshape(k, d1 * D2)
        ctx.close('split.isometric-side', np.linalg.norm(X @ X.conj().T - np.identity(k)), 1e-11 * np.sqrt(k), 'A1 not an isometry for svd_distr=left', detail)
    else:
        # sqrt: both halves carry sqrt(sigma): Gram matrices have the same spectrum = kept singular values
        g0 = np.sort(np.linalg.eigvalsh(A0.reshape(d0 * D0, k).conj().T @ A0.reshape(d0 * D0, k)))[::-1]
        g1 = np.sort(np.linalg.eigvalsh(A1.transpose(1, 0, 2).reshape(k, -1) @ A1.transpose(1, 0, 2).reshape(k, -1).conj().T))[::-1]
        g0, g1 = np.ldexp(g0, -kx), np.ldexp(g1, -kx)
        ctx.close('split.sqrt-balanced', max(np.abs(g0 - sig[:k]).max(), np.abs(g1 - sig[:k]).max()) / sig[0], 1e-10,
                  'sqrt distribution: halves do not both carry sqrt(sigma)', detail)


def insitu(ctx, idx, rng):
    n = [0, 0]

    def around_svd(orig, A, q0, q1, tol):
        snap = oracles.snapshot_arrays(A, q0, q1)
        res = orig(A, q0, q1, tol)
        n[0] += 1
        oracles.check_svd(ctx, snap[0], snap[1], snap[2], tol, (A, q0, q1), res, in_situ=True)
        return res

    def around_ret(orig, s, tol):
        s0 = np.array(s, copy=True)
        res = orig(s, tol)
        n[1] += 1
        oracles.check_retained(ctx, s0, tol, s, res, in_situ=True)
        return res
    name, L, p, H = gen.pick_model(rng, maxdim=256, Lmax=5)
    prof = str(rng.choice(['random', 'max', 'over']))
    psi = gen.rand_mps(rng, H.qd, L, prof, Dmax=4)
    if np.linalg.norm(refs.dense_state(psi.A)) == 0:
        psi = gen.rand_mps(rng, H.qd, L, 'max', Dmax=4)
    op = str(rng.choice(['compress', 'tdvp2', 'dmrg2', 'from_vector']))
    tol = float(rng.choice([0, 1e-6, 1e-2]))
    ctx.case(('insitu', name, prof, op, 'tol0' if tol == 0 else 'tol>0'), sample={'model': name, 'L': L, 'op': op, 'tol': tol})
    with monitor.attached('pytenet.bond_ops.split_matrix_svd', around_svd), monitor.attached('pytenet.bond_ops.retained_bond_indices', around_ret):
        if np.linalg.norm(refs.dense_state(psi.A)) == 0:
            return
        if op == 'compress':
            psi.compress(tol, str(rng.choice(['left', 'right'])))
        elif op == 'tdvp2':
            ptn.integrate_local_twosite(H, psi, 0.1j, 1, numiter_lanczos=4, tol_split=tol)
        elif op == 'dmrg2':
            ptn.calculate_ground_state_local_twosite(H, psi, 1, numiter_lanczos=4, tol_split=tol)
        else:
            ptn.MPS.from_vector(len(H.qd), L, refs.dense_state(psi.A), tol)
    ctx.event('insitu_svd_calls', n[0])
    ctx.event('insitu_retained_calls', n[1])


def soak_case(ctx, idx, rng):
    """The repository's own test-suite with the SVD-split / truncation oracles attached to every call of split_matrix_svd and retained_bond_indices."""
    from .. import soak
    n = [0, 0]

    def around_svd(orig, A, q0, q1, tol):
        snap = oracles.snapshot_arrays(A, q0, q1)
        res = orig(A, q0, q1, tol)
        n[0] += 1
        if 0 <= tol < 1:
            oracles.check_svd(ctx, snap[0], np.asarray(snap[1]), np.asarray(snap[2]), tol, (A, q0, q1), res, in_situ=True)
        return res

    def around_ret(orig, s, tol):
        s0 = np.array(s, copy=True)
        res = orig(s, tol)
        n[1] += 1
        if 0 <= tol < 1:
            oracles.check_retained(ctx, s0, tol, s, res, in_situ=True)
        return res
    ctx.case(('soak', 'repository-test-suite'), sample={'functions_monitored': ['split_matrix_svd', 'retained_bond_indices']})
    soak.run_suite(ctx, [('pytenet.bond_ops.split_matrix_svd', around_svd), ('pytenet.bond_ops.retained_bond_indices', around_ret)])
    ctx.event('soak_svd_calls', n[0])
    ctx.event('soak_retained_calls', n[1])


SPEC = {
    'id': 'C12',
    'rule': ('exact: integer spectra with power-of-two norm (all arithmetic of the truncation rule exact), tolerance on and between '
             'every cumulative weight, random entry order, values spread over 1-3 charge sectors as signed generalised permutation '
             'blocks (exact expectation only where numpy SVD of the same blocks is bit-exact); random: prescribed spectra '
             '(decaying/flat/staircase/degenerate across blocks/rank-deficient) x charge layouts x 16 grid tolerances + tolerances '
             'on the spectrum\'s own cumulative weights; split_mps_tensor for left/right/sqrt; in situ from compress, two-site TDVP/DMRG, '
             'from_vector. Non-trivial = non-zero matrix; distinct = (layout, spectrum kind, dtype, tolerance class) signatures.'),
    'deciding': ['svd.error-identity', 'svd.discarded<=tol', 'svd.maximal-truncation', 'svd.kept-count', 'svd.kept-count-exact',
                 'svd.input-unchanged', 'retained.exact-count', 'split.merge-error-identity', 'split.isometric-side',
                 'split.tol0-merge-undoes-split'],
    'workloads': [
        Workload('exact-retained', exact_retained, quick=300, thorough=30000),
        Workload('exact-svd', exact_svd, quick=300, thorough=30000),
        Workload('random-svd', random_svd, quick=1500, thorough=360000),
        Workload('random-retained', random_retained, quick=1500, thorough=180000),
        Workload('split-tensor', split_tensor, quick=1200, thorough=180000),
        Workload('insitu', insitu, quick=100, thorough=8000),
        Workload('suite-soak', soak_case, quick=0, thorough=1, shardable=False),
    ],
    'shards': {'quick': 4, 'thorough': 16},
    'assumptions': ['numpy.linalg.svd of the full matrix is the independent spectrum', 'slack 1e-12 on threshold decisions that are not exact'],
}
