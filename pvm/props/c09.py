"""C09 — TDVP is exact on a complete manifold and exactly time-reversible."""
import copy
import itertools

import numpy as np
from scipy.linalg import expm

from .. import gen, monitor, refs
from ..core import Workload
from ..env import ptn

BIG = 160        # Krylov dimension >= every local problem met here (largest: two-site tensor 9 x 9 x 9 / d^2 D^2 <= 144); Lanczos stops on exhaustion

def _herm_cf(d):
    def mk(L, p):
        # harness-built complex Hermitian MPO without charges (seeded by the generic parameters)
        r = np.random.default_rng(abs(int(p[0] * 1e9)) % (2 ** 32))
        return gen.rand_hermitian_mpo(r, np.zeros(d, dtype=int), L, Dmax=2, kind='complex')
    return mk


def _nn(qd):
    def mk(L, p):
        # hand-built nearest-neighbour Hamiltonian with a site-dependent parameter pattern (seeded by the generic parameters)
        r = np.random.default_rng(abs(int(p[0] * 1e9)) % (2 ** 32))
        return gen.nn_pattern_hamiltonian(r, np.array(qd), L)[0]
    return mk


def _lr(qd):
    def mk(L, p):
        # long-range Hermitian Hamiltonian with spectator sites, compiled from operator chains (seeded by the generic parameters)
        r = np.random.default_rng(abs(int(p[0] * 1e9)) % (2 ** 32))
        return gen.long_range_hamiltonian(r, np.array(qd), L, cplx=bool(int(abs(p[0]) * 1e6) % 2))
    return mk


MODELS = {
    'nn2q': (_nn([1, -1]), [1, -1]),
    'lr2q': (_lr([1, -1]), [1, -1]),
    'lr3q': (_lr([1, 0, -1]), [1, 0, -1]),
    'nn3': (_nn([0, 0, 0]), [0, 0, 0]),
    'herm2': (_herm_cf(2), [0, 0]),
    'herm3': (_herm_cf(3), [0, 0, 0]),
    'xxz': (lambda L, p: ptn.heisenberg_xxz_mpo(L, *p), [1, -1]),
    'xxz1': (lambda L, p: ptn.heisenberg_xxz_spin1_mpo(L, *p), [1, 0, -1]),
    'bose3': (lambda L, p: ptn.bose_hubbard_mpo(3, L, *p), [0, 1, 2]),
    'ising': (lambda L, p: ptn.ising_mpo(L, *p), [0, 0]),
    # classical / commuting-term models: FEW DISTINCT eigenvalues in every local effective operator (the site-step Krylov space breaks down early, while the
    # bond problem -- a compression, whose eigenvalues interlace -- can need more vectors)
    'ising-zz': (lambda L, p: ptn.ising_mpo(L, p[0], 0.0, 0.0), [0, 0]),
    'ising-zz+h': (lambda L, p: ptn.ising_mpo(L, p[0], p[1], 0.0), [0, 0]),
    'xxz-zz': (lambda L, p: ptn.heisenberg_xxz_mpo(L, 0.0, p[1], p[2]), [1, -1]),
}


def sector_list(qd, L):
    return sorted(set(sum(c) for c in itertools.product([int(x) for x in qd], repeat=L)))


def prepare(rng, name, L, qtot, kind='complex'):
    mk, qd = MODELS[name]
    H = mk(L, gen.generic_params(rng))
    psi = gen.full_sector_mps(rng, qd, L, qtot, kind=kind)
    if np.linalg.norm(refs.dense_state(psi.A)) == 0:
        return H, None
    psi.orthonormalize('left')
    psi.orthonormalize('right')
    return H, psi


def run(fn, H, psi, dt, n, two):
    p = copy.deepcopy(psi)
    r = fn(H, p, dt, n, numiter_lanczos=BIG)
    return p, r


CASES = []
for _name, (_mk, _qd) in MODELS.items():
    _d = len(_qd)
    for _L in range(1, 8):
        if _d ** _L > 243 and not (_d == 2 and _L <= 7):
            continue
        for _q in sector_list(_qd, _L):
            CASES.append((_name, _L, _q))
QUICK_CASES = [c for c in CASES if c[1] <= 4 or (c[1] == 6 and c[0] in ('xxz', 'nn2q')) or (c[1] in (5, 6) and c[0] == 'lr2q') or (c[1] == 6 and c[0] in ('ising-zz', 'ising-zz+h', 'xxz-zz'))]      # L = 6, d = 2: first size whose central bonds mix left- and right-enumerated sectors


def make_exact(cases):
    def fn(ctx, idx, rng):
        name, L, qtot = cases[idx % len(cases)]
        rep = idx // len(cases)
        kind = ('complex', 'real')[(idx + rep) % 2]
        H, psi = prepare(rng, name, L, qtot, kind)
        if psi is None:
            ctx.case((name, f'L{L}', 'empty-sector'), nontrivial=False)
            return
        qd = MODELS[name][1]
        cls = refs.classify_manifold(qd, L, int(psi.qD[0][0]), int(psi.qD[-1][0]), psi.qD)
        mH = refs.dense_operator(H.A)
        nH = max(np.linalg.norm(mH, 2), 1e-300)
        v0 = refs.dense_state(psi.A)
        dtk = ('imag', 'real', 'complex')[(idx + rep) % 3]
        nsteps = int(rng.integers(1, 4))
        # |dt| n ||H|| bounded (<= 0.6): the reference exponential stays well conditioned also for real / complex dt
        mag = float(rng.uniform(0.05, 0.6)) / (nsteps * nH)
        dt = {'imag': 1j, 'real': 1.0, 'complex': np.exp(1j * float(rng.uniform(0.2, 2.9)))}[dtk] * mag * float(rng.choice([-1, 1]))
        for two in (False, True):
            if two and L < 2:
                continue
            integ = 'twosite' if two else 'singlesite'
            fnc = ptn.integrate_local_twosite if two else ptn.integrate_local_singlesite
            ctx.case((integ, name, f'L{L}', f'class{cls}', dtk, f'steps{nsteps}', kind + '-state'), sample={'model': name, 'L': L, 'sector': qtot, 'bond_dims': psi.bond_dims, 'class': cls, 'dt': dt, 'steps': nsteps},
                     info={'model': name, 'L': L, 'sector': qtot, 'qD': psi.qD, 'A': psi.A, 'H_A': H.A, 'H_qD': H.qD, 'dt': dt, 'steps': nsteps, 'integrator': integ})
            detail = ctx.cur_info
            exact = expm(-dt * nsteps * mH) @ v0

            def err(dt_):
                p, r = run(fnc, H, psi, dt_, nsteps, two)
                ex = expm(-dt_ * nsteps * mH) @ v0
                return float(np.linalg.norm(refs.dense_state(p.A) - ex) / np.linalg.norm(ex)), r
            e1, r = err(dt)
            ctx.close('return==1-for-normalised-input', abs(float(r) - 1), 1e-10, 'return value for a normalised state', detail)
            if cls == 'E':
                ctx.close(f'exact-on-complete-manifold[{integ}]', e1, 1e-9, f'class E manifold (bond dims {psi.bond_dims}): TDVP != expm(-dt n H) psi', detail)
                if (idx + rep) % 2 == 0:
                    # history: the Hamiltonian held by the SAME MPO object is changed in place, then used again
                    c = float(rng.choice([-1.0, 0.5, 2.0]))
                    site = int(rng.integers(0, L))
                    H.A[site] *= c
                    p2 = copy.deepcopy(psi)
                    fnc(H, p2, dt, nsteps, numiter_lanczos=BIG)
                    ex2 = expm(-dt * nsteps * c * mH) @ v0
                    ctx.close(f'exact-after-inplace-change-of-H[{integ}]', float(np.linalg.norm(refs.dense_state(p2.A) - ex2) / np.linalg.norm(ex2)), 1e-9,
                              'after an in-place change of the MPO the evolution does not follow the Hamiltonian that is passed in', detail)
                    H.A[site] *= 1.0 / c
                elif L >= 2:
                    # history: evolve a copy, EDIT one of its tensors in place so that shape and Frobenius norm are kept but the canonical form is not (two
                    # entries rescaled against each other), evolve again: exact with respect to what the state is NOW
                    p3 = copy.deepcopy(psi)
                    fnc(H, p3, dt, 1, numiter_lanczos=BIG)
                    k_ = int(rng.integers(1, L))
                    T_ = p3.A[k_]
                    nz_ = np.argwhere(np.abs(T_) > 1e-3)
                    if len(nz_) >= 2 and tuple(nz_[0]) != tuple(nz_[-1]):
                        a_, b_ = tuple(nz_[0]), tuple(nz_[-1])
                        x_, y_ = T_[a_], T_[b_]
                        T_[a_] = x_ * 0.5
                        T_[b_] = y_ * np.sqrt(abs(x_) ** 2 * 0.75 + abs(y_) ** 2) / abs(y_)
                        v_e = refs.dense_state(p3.A)
                        n_e = float(np.linalg.norm(v_e))
                        if n_e > 1e-6:
                            r_e = fnc(H, p3, dt, nsteps, numiter_lanczos=BIG)
                            ex3 = expm(-dt * nsteps * mH) @ (v_e / n_e)
                            ctx.close(f'exact-after-inplace-edit-of-the-state[{integ}]', float(np.linalg.norm(refs.dense_state(p3.A) - ex3) / np.linalg.norm(ex3)), 1e-9,
                                      'after an in-place edit of an evolved state the next evolution does not start from the edited state', detail)
                            ctx.close(f'return-is-norm-of-edited-state[{integ}]', abs(float(r_e) - n_e), 1e-10 * max(1.0, n_e), 'return value != norm of the edited state', detail)
            elif cls == 'M':
                # known finding F5: complete manifold with mixed saturation carries the O(dt^3) splitting error of the integrator
                x = abs(dt) * nH
                ctx.close(f'classM.third-order-bound[{integ}]', e1, 1.0 * nsteps * x ** 3 + 1e-9, 'error exceeds the third-order splitting bound', detail)
                if e1 > 1e-7:
                    # recorded, not demanded: the halving ratio tends to 8 only asymptotically (observed 2.99 .. 9 at these step sizes);
                    # first- and second-order defects are excluded by the cubic bound above
                    e2, _ = err(dt / 2)
                    ratio = e1 / max(e2, 1e-300)
                    ctx.event('classM_ratio_x100_sum', int(100 * ratio))
                    ctx.event('classM_ratio_n')
                if e1 > 1e-9:
                    ctx.known('C09/class-M-splitting-error',
                              'on a sector-complete manifold whose bonds are not saturated on one side for all charge blocks (e.g. XXZ L=4, Sz=+-1) '
                              'TDVP is not exact: it carries the O(dt^3) splitting error inherent to projector splitting', detail)
            else:
                ctx.fail('classifier', f'a full-sector state was classified N: {psi.bond_dims}', detail)
    return fn


def labelled_manifold_case(ctx, idx, rng):
    """Complete manifolds in OTHER labellings than the minimal one: every bond enumerated from the left end, from the right end, or minimally
    (over-complete labellings with sectors that have no support on one side). Whether the projector-splitting algorithm itself is exact there is decided
    by an independent dense reference implementation of the documented single-site integrator (pvm/tdvp_ref.py: no quantum numbers, no Krylov spaces,
    rank-revealing splittings): where the reference reproduces exp(-dt n H) psi, the repository must as well; where it does not, the deviation is the
    splitting error of the algorithm (known finding) and only the third-order bound is demanded."""
    from .. import tdvp_ref
    name = str(rng.choice([k for k in MODELS if MODELS[k][1] is not None and any(MODELS[k][1])]))
    mk, qd = MODELS[name]
    d = len(qd)
    L = int(rng.integers(3, 7 if d == 2 else 5))
    secs = sector_list(qd, L)
    qtot = int(secs[int(rng.integers(0, len(secs)))])
    H = mk(L, gen.generic_params(rng))
    psi, modes = gen.labelled_sector_mps(rng, qd, L, qtot, kind=str(rng.choice(['complex', 'real'])))
    v0 = refs.dense_state(psi.A)
    if np.linalg.norm(v0) < 1e-10 or max(psi.bond_dims) > 40:
        ctx.case(('labelled-manifold', name, 'empty-or-too-large'), nontrivial=False)
        return
    v0 = v0 / np.linalg.norm(v0)
    mH = refs.dense_operator(H.A)
    nH = max(np.linalg.norm(mH, 2), 1e-300)
    nsteps = int(rng.integers(1, 3))
    dtk = ('imag', 'real', 'complex')[idx % 3]
    mag = float(rng.uniform(0.05, 0.6)) / (nsteps * nH)
    dt = {'imag': 1j, 'real': 1.0, 'complex': np.exp(1j * float(rng.uniform(0.2, 2.9)))}[dtk] * mag * float(rng.choice([-1, 1]))
    exact = expm(-dt * nsteps * mH) @ v0
    _, Ar = tdvp_ref.singlesite(H.A, psi.A, dt, nsteps)
    e_ref = float(np.linalg.norm(refs.dense_state(Ar) - exact) / np.linalg.norm(exact))
    ref_exact = e_ref <= 1e-10
    ctx.case(('labelled-manifold', name, f'L{L}', '-'.join(m[0] for m in modes), 'algorithm-exact' if ref_exact else 'algorithm-inexact', dtk),
             sample={'model': name, 'L': L, 'sector': qtot, 'bond_labelling': modes, 'bond_dims': psi.bond_dims, 'dt': dt, 'steps': nsteps, 'reference_error': e_ref},
             info={'model': name, 'L': L, 'sector': qtot, 'qD': psi.qD, 'A': psi.A, 'H_A': H.A, 'H_qD': H.qD, 'dt': dt, 'steps': nsteps, 'bond_labelling': modes})
    detail = ctx.cur_info
    p, r = run(ptn.integrate_local_singlesite, H, psi, dt, nsteps, False)
    e1 = float(np.linalg.norm(refs.dense_state(p.A) - exact) / np.linalg.norm(exact))
    if ref_exact:
        ctx.close('exact-on-complete-manifold[singlesite,other-labellings]', e1, 1e-9,
                  f'complete manifold labelled {modes} (bond dims {psi.bond_dims}): an independent implementation of the algorithm is exact ({e_ref:.1e}), the library is not', detail)
    else:
        x = abs(dt) * nH
        ctx.close('classM.third-order-bound[singlesite,other-labellings]', e1, 1.0 * nsteps * x ** 3 + 1e-9, 'error exceeds the third-order splitting bound', detail)
        if e1 > 1e-9:
            ctx.known('C09/class-M-splitting-error',
                      'on a sector-complete manifold whose bonds are not saturated on one side for all charge blocks (e.g. XXZ L=4, Sz=+-1) '
                      'TDVP is not exact: it carries the O(dt^3) splitting error inherent to projector splitting', detail)


def tuned_dt_case(ctx, idx, rng):
    """dt tuned (Newton iteration, krylov_ref.coefficient_zero) so that ONE Krylov coefficient of the local exponential vanishes while later ones are of
    order one. L = 1 (single-site) and L = 2 (two-site): one local step is the whole evolution, so the manifold is trivially complete and the result must equal
    expm(-dt H) psi. |dt| ||H|| is 3..12 here (beyond the other workloads), kept bounded in the real direction."""
    from .. import krylov_ref as kr
    name = str(rng.choice([k for k in MODELS if MODELS[k][1] is not None]))
    mk, qd = MODELS[name]
    d = len(qd)
    two = bool(idx % 2)
    L = 2 if two else 1
    if d ** L < 3:
        L, two = 2, True
    secs = sector_list(qd, L)
    qtot = int(secs[int(rng.integers(0, len(secs)))])
    H, psi = prepare(rng, name, L, qtot, str(rng.choice(['complex', 'real'])))
    if psi is None:
        ctx.case(('tuned-dt', name, 'empty-sector'), nontrivial=False)
        return
    mH = refs.dense_operator(H.A)
    v0 = refs.dense_state(psi.A)
    hit = kr.coefficient_zero(rng, mH, v0)
    if hit is None:
        ctx.case(('tuned-dt', name, f'L{L}', 'no-zero-found'), nontrivial=False)
        ctx.event('tuned_dt_not_found')
        return
    z, k = hit
    dt = -z                                     # the local step applies exp(-dt H_loc)
    integ = 'twosite' if two else 'singlesite'
    fnc = ptn.integrate_local_twosite if two else ptn.integrate_local_singlesite
    nH = max(np.linalg.norm(mH, 2), 1e-300)
    ctx.case(('tuned-dt', integ, name, f'L{L}', f'k{min(k, 3)}'), sample={'model': name, 'L': L, 'sector': qtot, 'dt': dt, 'vanishing_coefficient': k, 'abs(dt)*norm(H)': abs(dt) * nH},
             info={'model': name, 'L': L, 'sector': qtot, 'qD': psi.qD, 'A': psi.A, 'H_A': H.A, 'H_qD': H.qD, 'dt': dt, 'integrator': integ})
    p, r = run(fnc, H, psi, dt, 1, two)
    lam, U = np.linalg.eigh((mH + mH.conj().T) / 2)
    ex = U @ (np.exp(-dt * lam) * (U.conj().T @ v0))
    got = refs.dense_state(p.A)
    ctx.close(f'exact-on-complete-manifold[{integ},tuned-dt]', float(np.linalg.norm(got - ex) / np.linalg.norm(ex)), 1e-9 * max(1.0, abs(dt) * nH),
              'one local step with dt on a zero of a Krylov coefficient: TDVP != expm(-dt H) psi', ctx.cur_info)


def reversibility(ctx, idx, rng):
    src = str(rng.choice(['xxz', 'xxz1', 'bose3', 'ising', 'hermitian', 'hermitian', 'nn-pattern']))
    kind = str(rng.choice(['complex', 'real']))
    if src == 'nn-pattern':
        d = int(rng.choice([2, 3]))
        L = int(rng.integers(1, 6 if d == 2 else 4))
        qd = rng.integers(-1, 2, size=d) if rng.random() < 0.5 else np.zeros(d, dtype=int)
        H, pat, _ = gen.nn_pattern_hamiltonian(rng, qd, L, cplx=bool(rng.random() < 0.5))
        src = 'nn-' + pat
    elif src == 'hermitian':
        d = int(rng.choice([2, 3]))
        L = int(rng.integers(1, 6 if d == 2 else 4))
        qd = rng.integers(-1, 2, size=d) if rng.random() < 0.5 else np.zeros(d, dtype=int)
        H = gen.rand_hermitian_mpo(rng, qd, L, Dmax=2)
    else:
        mk, qd = MODELS[src]
        d = len(qd)
        L = int(rng.integers(1, 7 if d == 2 else 5))
        H = mk(L, gen.generic_params(rng))
    prof = str(rng.choice(['random', 'one', 'max', 'over']))
    for _ in range(20):
        psi = gen.rand_mps(rng, H.qd, L, prof, Dmax=4, kind=kind)
        if np.linalg.norm(refs.dense_state(psi.A)) > 1e-8:
            break
        prof = 'max'
    else:
        ctx.case(('no-state',), nontrivial=False)
        return
    dtk = ('imag', 'real', 'complex')[idx % 3]
    n = int(rng.integers(1, 4))
    nH = max(np.linalg.norm(refs.dense_operator(H.A), 2), 1e-300)
    mag = float(rng.uniform(0.1, 1.0)) / (n * nH)       # |dt| n ||H|| <= 1
    dt = {'imag': 1j, 'real': 1.0, 'complex': np.exp(1j * float(rng.uniform(0.2, 2.9)))}[dtk] * mag
    psi.orthonormalize('right')
    v0 = refs.dense_state(psi.A)
    # mechanism classifier (input structure only): a bond larger than the Schmidt rank it carries
    ranks = [1] + [int(np.sum(np.linalg.svd(v0.reshape(d ** c, -1), compute_uv=False) > 1e-10)) for c in range(1, L)] + [1]
    deficient = ranks != list(psi.bond_dims)
    # finer structure classifier (quantum numbers only): does the first sweep shrink a bond, and is the shrunk bond then saturated from the left?
    reduced, unsat = refs.first_sweep_reduction(psi.qd, psi.qD)
    cls = 'full-rank-bonds' if not deficient else ('oversize-bond-saturated-after-reduction' if (reduced and not unsat) else 'rank-deficient-bond')
    ctx.case(('reversibility', src, f'L{L}', prof, dtk, f'steps{n}', cls, kind + '-state'), sample={'model': src, 'L': L, 'qD': psi.qD, 'dt': dt, 'steps': n},
             info={'model': src, 'L': L, 'qd': H.qd, 'qD': psi.qD, 'A': psi.A, 'H_A': H.A, 'H_qD': H.qD, 'dt': dt, 'steps': n})
    detail = ctx.cur_info
    p = copy.deepcopy(psi)
    r1 = ptn.integrate_local_singlesite(H, p, dt, n, numiter_lanczos=BIG)
    r2 = ptn.integrate_local_singlesite(H, p, -dt, n, numiter_lanczos=BIG)
    back = float(r2) * refs.dense_state(p.A)
    dev = float(np.linalg.norm(back - v0))
    if not deficient:
        ctx.close('reversible', dev, 1e-9, 'dt then -dt (times the reported norm) does not return the initial state', detail)
    elif cls == 'oversize-bond-saturated-after-reduction':
        # over-complete bonds that the first sweep shrinks to a bond saturated from the left in every charge sector (all charge-free over-complete
        # profiles): the local steps are exact on both sides of the shrunk bond, the sweep stays reversible
        ctx.close('reversible[oversize-bond-saturated-after-reduction]', dev, 1e-9,
                  'dt then -dt does not return the initial state although every bond shrunk by the first sweep ends up saturated from the left', detail)
    else:
        ctx.close('reversible[rank-deficient]', dev, 0.05, 'dt then -dt is far from the initial state even for a rank-deficient start', detail)
        if dev > 1e-9:
            ctx.known('C09/rank-deficient-bond-irreversibility',
                      'single-site TDVP started from a state with a bond larger than the Schmidt rank it carries, which the first sweep shrinks to a bond that is '
                      'NOT saturated from the left in every charge sector (or a rank-deficient bond of legal size), is not time-reversible: the first sweep '
                      'reduces the manifold, so the sweep is no longer symmetric', detail)
    ctx.close('first-return==1', abs(float(r1) - 1), 1e-10, 'first call on a normalised state must return 1', detail)
    if dtk == 'imag':
        ctx.close('second-return==1-for-imaginary-dt', abs(float(r2) - 1), 1e-10, 'norm reported by the second call for imaginary dt', detail)


EX_Q = make_exact(QUICK_CASES)
EX_T = make_exact(CASES)

SPEC = {
    'id': 'C09',
    'rule': ('states of real and complex dtype, real model MPOs and harness-built complex Hermitian MPOs; exactness: every total-charge sector of XXZ, spin-1 XXZ, Bose d=3, Ising, hand-built nearest-neighbour pattern models and long-range models with spectator sites (lr2q, lr3q: terms whose end points are not neighbours, compiled from operator chains) for every L with d^L <= 243 (XXZ <= 1024; quick L <= 4), a generic '
             'full-sector state with maximal bond dimensions, both integrators, dt imaginary / real / complex (|dt| in [0.05, 0.3]), 1..3 steps, Krylov '
             'dimension >= local dimension. The manifold is classified from the quantum numbers alone: class E (every bond saturated on one side for all '
             'charge blocks) must be exact to 1e-9; class M (sector-complete, mixed saturation) is the known finding and must still obey the third-order '
             'bound n (|dt| ||H||)^3 (the halving ratio is recorded). Reversibility: single-site, any bond profile (random / all-one / maximal / over-complete), any complex dt, '
             'n steps dt then n steps -dt. distinct = (integrator, model, L, class, dt kind, steps, profile).'),
    'deciding': ['exact-after-inplace-change-of-H[twosite]', 'exact-on-complete-manifold[singlesite]', 'exact-on-complete-manifold[twosite]', 'reversible', 'reversible[oversize-bond-saturated-after-reduction]', 'second-return==1-for-imaginary-dt'],
    'workloads': [
        Workload('exactness', EX_Q, quick=len(QUICK_CASES), thorough=0, exhaustive={'space': 'all total-charge sectors of every (model, L<=4)'}),
        Workload('exactness-all', EX_T, quick=0, thorough=len(CASES) * 40, exhaustive={'space': 'all total-charge sectors of every (model, L) within dense reach, 6 repetitions with rotating dt kinds'}),
        Workload('reversibility', reversibility, quick=450, thorough=40000),
        Workload('tuned-dt', tuned_dt_case, quick=150, thorough=12000),
        Workload('labelled-manifolds', labelled_manifold_case, quick=200, thorough=16000),
    ],
    'shards': {'quick': 4, 'thorough': 16},
    'watchdog_s': {'quick': 900, 'thorough': 7200},
    'assumptions': ['scipy.linalg.expm of the dense Hamiltonian is the reference; class E/M classifier in pvm/refs.py validated on 132 sectors (DESIGN.md)'],
}
