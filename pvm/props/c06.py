"""C06 — built-in lattice Hamiltonians equal their textbook definitions."""
import itertools

import numpy as np
from scipy import sparse

from .. import refs
from ..core import Workload
from ..env import ptn

VALS = [0.0, 1.0, -1.0, None]        # None -> a generic value drawn per case (magnitudes from 1e-12 to 1e6: the operator is linear in its parameters)


def two_site_sum(L, d, terms2, terms1):
    """sum_i sum_k c_k A_k(i) B_k(i+1) + sum_i sum_k c_k A_k(i); dense."""
    dim = d ** L
    H = np.zeros((dim, dim), dtype=complex)
    for i in range(L - 1):
        for c, A, B in terms2:
            if c != 0:
                H += c * refs.embed(L, d, {i: A, i + 1: B})
    for i in range(L):
        for c, A in terms1:
            if c != 0:
                H += c * refs.embed(L, d, {i: A})
    return H


def reference(name, L, p, d=None):
    if name == 'ising':
        J, h, g = p
        sx, sy, sz = refs.spin_half()
        return two_site_sum(L, 2, [(J, sz, sz)], [(h, sz), (g, sx)])
    if name == 'xxz':
        J, D, h = p
        sx, sy, sz = (m / 2 for m in refs.spin_half())
        return two_site_sum(L, 2, [(J, sx, sx), (J, sy, sy), (D, sz, sz)], [(-h, sz)])
    if name == 'xxz1':
        J, D, h = p
        sx, sy, sz = refs.spin_one()
        return two_site_sum(L, 3, [(J, sx, sx), (J, sy, sy), (D, sz, sz)], [(-h, sz)])
    if name == 'bose':
        t, U, mu = p
        b, bd, n = refs.boson_ops(d)
        return two_site_sum(L, d, [(-t, bd, b), (-t, b, bd)], [(0.5 * U, n @ (n - np.identity(d))), (-mu, n)])
    if name == 'fermi':
        t, U, mu = p
        a = refs.fock_annihilators(2 * L)
        ad = [x.T.tocsr() for x in a]
        n = [ad[k] @ a[k] for k in range(2 * L)]
        I = sparse.identity(4 ** L, format='csr')
        H = sparse.csr_matrix((4 ** L, 4 ** L), dtype=float)
        for i in range(L - 1):
            for s in (0, 1):
                H = H - t * (ad[2 * i + s] @ a[2 * i + 2 + s] + ad[2 * i + 2 + s] @ a[2 * i + s])
        for i in range(L):
            H = H + U * ((n[2 * i] - 0.5 * I) @ (n[2 * i + 1] - 0.5 * I)) - mu * (n[2 * i] + n[2 * i + 1])
        return np.asarray(H.todense())
    raise ValueError(name)


def build(name, L, p, d=None):
    if name == 'ising':
        return ptn.ising_mpo(L, *p)
    if name == 'xxz':
        return ptn.heisenberg_xxz_mpo(L, *p)
    if name == 'xxz1':
        return ptn.heisenberg_xxz_spin1_mpo(L, *p)
    if name == 'bose':
        return ptn.bose_hubbard_mpo(d, L, *p)
    if name == 'fermi':
        return ptn.fermi_hubbard_mpo(L, *p)


def all_chains_vanish(name, L, p):
    """The documented operator is identically zero because every term that fits into L sites has coefficient 0."""
    a, b, c = p
    if name == 'ising':
        return (a == 0 or L < 2) and b == 0 and c == 0
    if name in ('xxz', 'xxz1'):
        return (L < 2 or (a == 0 and b == 0)) and c == 0
    if name in ('bose', 'fermi'):
        return (L < 2 or a == 0) and b == 0 and c == 0
    return False


def physical_charges_ok(name, qd, d):
    qd = [int(x) for x in qd]
    if name == 'ising':
        return True            # no conserved charge
    if name == 'xxz':
        return qd[0] != qd[1]
    if name == 'xxz1':
        return qd[0] - qd[1] == qd[1] - qd[2] != 0
    if name == 'bose':
        return d == 1 or (all(qd[n] - qd[0] == n * (qd[1] - qd[0]) for n in range(d)) and qd[1] != qd[0])
    if name == 'fermi':
        dec = [((q + (1 << 15)) >> 16, ((q + (1 << 15)) & 0xffff) - (1 << 15)) for q in qd]
        return dec == [(0, 0), (1, -1), (1, 1), (2, 0)]
    return False


def check_model(ctx, name, L, p, d=None, label=()):
    dd = d if name == 'bose' else {'ising': 2, 'xxz': 2, 'xxz1': 3, 'fermi': 4}[name]
    detail = {'model': name, 'L': L, 'params': p, 'd': d}
    H = build(name, L, p, d)           # an exception here is a violation ('no-exception')
    inv = refs.mpo_invariant(H)
    if not ctx.ok('model.block-sparse', inv is None, str(inv), detail):
        return
    ctx.ok('model.nsites', H.nsites == L and H.bond_dims[0] == 1 and H.bond_dims[-1] == 1, f'nsites {H.nsites}, bonds {H.bond_dims}', detail)
    ctx.ok('model.physical-charges', len(H.qd) == dd and physical_charges_ok(name, H.qd, dd), f'qd = {H.qd} does not label the conserved quantity', detail)
    ctx.ok('model.charge-conserving', int(H.qD[0][0]) == int(H.qD[-1][0]), f'boundary charges {H.qD[0]} {H.qD[-1]} differ for a Hamiltonian', detail)
    M = refs.dense_operator(H.A)
    R = reference(name, L, p, d)
    sc = float(np.abs(R).max()) if np.abs(R).max() > 0 else 1.0
    ctx.close('model.dense==formula', float(np.abs(M - R).max()), 1e-12 * sc * L, f'{name} MPO differs from the documented formula', detail)
    # every single term must be present with relative accuracy: compare term by term where the parameters differ by many orders
    for k in range(3):
        if p[k] != 0 and abs(p[k]) < 1e-6 * max(abs(x) for x in p):
            pk = tuple(p[j] if j == k else 0.0 for j in range(3))
            if not all_chains_vanish(name, L, pk):
                Rk = reference(name, L, pk, d)
                rest = reference(name, L, tuple(0.0 if j == k else p[j] for j in range(3)), d) if any(p[j] != 0 for j in range(3) if j != k) else 0 * Rk
                if np.abs(Rk).max() > 1e-3 * 1e-12 * sc * L:
                    ctx.event('small_term_resolved')
                # the small term is visible only if it exceeds the rounding of the large ones
                if np.abs(Rk).max() > 100 * 1e-16 * sc:
                    ctx.close('model.small-term-present', float(np.abs((M - rest) - Rk).max()), 0.01 * float(np.abs(Rk).max()) + 1e-15 * sc * L, f'term {k} with tiny coefficient {p[k]} is missing or wrong', detail)
    ctx.close('model.hermitian', float(np.abs(M - M.conj().T).max()), 1e-12 * sc * L, 'not Hermitian for real parameters', detail)
    if ctx.cur[1] % 5 == 0:
        def later(H=H, R=R, tol=1e-12 * sc * L, name=name):
            ctx.close('model.result-still-valid-after-later-constructions', float(np.abs(refs.dense_operator(H.A) - R).max()), tol,
                      f'an MPO returned earlier by the {name} constructor changed when later MPOs were built (shared state)', None)
        ctx.hold(later)
    ctx.close('model.as_matrix', float(np.abs(np.asarray(H.as_matrix()) - M).max()), 1e-12 * sc * L, 'as_matrix differs from the independent contraction', detail)


def grid_case(ctx, idx, rng):
    combos = [c for c in itertools.product(range(4), repeat=3)]
    models = [('ising', 8, None), ('xxz', 8, None), ('xxz1', 5, None), ('bose', 6, 1), ('bose', 8, 2), ('bose', 5, 3), ('bose', 4, 4), ('fermi', 4, None)]
    name, lmax, d = models[idx % len(models)]
    k = idx // len(models)
    L = 1 + k % lmax
    combo = combos[(k // lmax) % len(combos)]
    p = tuple(float(VALS[c]) if VALS[c] is not None else float(rng.choice([-1, 1]) * rng.uniform(0.2, 2.0) * rng.choice([1, 1, 1, 1e-9, 1e-12, 1e6])) for c in combo)
    cls = tuple('z' if c == 0 else ('p' if c == 1 else ('m' if c == 2 else 'g')) for c in combo)
    if all_chains_vanish(name, L, p):
        ctx.case((name, 'identically-zero-excluded'), nontrivial=False)
        return
    ctx.case((name, f'L{L}', ''.join(cls)) + ((f'd{d}',) if d else ()), sample={'model': name, 'L': L, 'params': p, 'd': d}, info={'model': name, 'L': L, 'params': p, 'd': d})
    check_model(ctx, name, L, p, d)


INT_MODELS = [('ising', None), ('xxz', None), ('xxz1', None), ('bose', 3), ('fermi', None)]


def make_integer_grid(vals, Ls):
    """Every parameter triple from a small integer range (values that coincide with operator ids, site indices, bond dimensions, each other), passed as
    Python int / float / numpy scalar in rotation, for every model."""
    combos = list(itertools.product(vals, repeat=3))

    def fn(ctx, idx, rng):
        name, d = INT_MODELS[idx % len(INT_MODELS)]
        k = idx // len(INT_MODELS)
        combo = combos[k % len(combos)]
        L = Ls[(k // len(combos)) % len(Ls)]
        conv = (int, float, np.float64, np.int64)[(idx // 7) % 4]
        p = tuple(conv(x) for x in combo)
        if all_chains_vanish(name, L, tuple(float(x) for x in p)):
            ctx.case((name, 'identically-zero-excluded'), nontrivial=False)
            return
        ctx.case((name, f'L{L}', 'integer-grid', conv.__name__, 'equal-params' if len(set(combo)) < 3 else 'distinct'),
                 sample={'model': name, 'L': L, 'params': [repr(x) for x in p], 'd': d}, info={'model': name, 'L': L, 'params': [float(x) for x in p], 'd': d})
        check_model(ctx, name, L, p, d)
    fn.count = len(combos) * len(INT_MODELS) * len(Ls)
    return fn


IG_Q = make_integer_grid((-2, -1, 0, 1, 2, 3), (3,))
IG_T = make_integer_grid((-4, -3, -2, -1, 0, 1, 2, 3, 4), (1, 2, 3, 4))


def near_equal_case(ctx, idx, rng):
    """Parameters that agree with each other (up to sign and a factor 1, 2 or 1/2 -- the factors the constructors themselves apply) to 6..12 digits
    without being equal: c (1 + eps), eps in {+-1e-12 .. +-3e-6}. Anything that compares coefficients with a tolerance merges what must stay distinct."""
    name, d = INT_MODELS[idx % len(INT_MODELS)]
    dd = d if d else {'ising': 2, 'xxz': 2, 'xxz1': 3, 'fermi': 4}[name]
    lmax = 1
    while dd ** (lmax + 1) <= 256 and lmax < 7:
        lmax += 1
    L = int(rng.integers(2, lmax + 1))
    c = float(rng.uniform(0.3, 2.0)) * float(rng.choice([1, 1, 1e-6, 1e5]))
    if idx % 3 == 0:
        # near a special CONSTANT instead of near each other: 1 (1 + eps), 2 (1 + eps), 0.5 (1 + eps) -- a unit-coefficient shortcut decided with a tolerance
        c = float(rng.choice([1.0, 1.0, 2.0, 0.5]))
    p = tuple(float(rng.choice([-1, 1])) * c * float(rng.choice([1, 1, 2, 0.5])) * (1 + float(rng.choice([0, 1e-12, -1e-9, 1e-7, 1e-6, -3e-6, 3e-6, 8e-6]))) for _ in range(3))
    ctx.case((name, f'L{min(L, 4)}', 'near-equal-parameters' if idx % 3 else 'near-unit-parameters'), sample={'model': name, 'L': L, 'params': p, 'd': d}, info={'model': name, 'L': L, 'params': p, 'd': d})
    check_model(ctx, name, L, p, d)


def bose_large_d_case(ctx, idx, rng):
    """Bose-Hubbard with LARGE local dimension (5 .. 20 at L = 1, 2; 127 .. 130 and 200 at L = 1): occupation numbers up to 199, n(n-1) up to 39402 -- narrow
    integer types for occupancies wrap from n = 12 (int8) / n = 182 (int16) on."""
    d = int(rng.choice(list(range(5, 21)) + [127, 128, 129, 130, 200]))
    L = 1 if d > 20 else int(rng.integers(1, 3))
    p = tuple(float(x) for x in rng.choice([-1, 1], size=3) * rng.uniform(0.3, 1.5, size=3))
    ctx.case(('bose', f'L{L}', 'large-local-dimension', 'd<=20' if d <= 20 else ('d~128' if d < 200 else 'd=200')), sample={'model': 'bose', 'L': L, 'params': p, 'd': d},
             info={'model': 'bose', 'L': L, 'params': p, 'd': d})
    check_model(ctx, 'bose', L, p, d)


def random_case(ctx, idx, rng):
    name = str(rng.choice(['ising', 'xxz', 'xxz1', 'bose', 'fermi']))
    d = int(rng.integers(1, 5)) if name == 'bose' else None
    dd = d if d else {'ising': 2, 'xxz': 2, 'xxz1': 3, 'fermi': 4}[name]
    cap = 1024 if ctx.tier == 'thorough' else 256
    lmax = 1
    while dd ** (lmax + 1) <= cap and lmax < 9:
        lmax += 1
    L = int(rng.integers(1, lmax + 1))
    p = tuple(float(x) for x in rng.normal(size=3) * rng.choice([1, 10, 0.01, 1e-9, 1e-13, 1e7], size=3))
    ctx.case((name, f'L{min(L, 5)}', 'random') + ((f'd{d}',) if d else ()), sample={'model': name, 'L': L, 'params': p, 'd': d}, info={'model': name, 'L': L, 'params': p, 'd': d})
    check_model(ctx, name, L, p, d)


def large_case(ctx, idx, rng):
    """Lattice sizes beyond the dense reach (L up to 40): matrix elements between random product states. All five lattice models are sums of
    translated one- and two-site terms, so the reference element is assembled from the dense one-site (L=1) and two-site (L=2) textbook operators."""
    name = str(rng.choice(['ising', 'xxz', 'xxz1', 'bose', 'fermi']))
    d = int(rng.integers(2, 5)) if name == 'bose' else None
    dd = d if d else {'ising': 2, 'xxz': 2, 'xxz1': 3, 'fermi': 4}[name]
    L = int(rng.integers(9, 41))
    p = tuple(float(x) for x in rng.choice([-1, 1], size=3) * rng.uniform(0.2, 2.0, size=3))
    if rng.random() < 0.3:
        p = tuple(0.0 if rng.random() < 0.4 else x for x in p)
        if all_chains_vanish(name, L, p):
            p = (1.0,) + p[1:]
    ctx.case(('large', name, f'L{L // 10 * 10}+') + ((f'd{d}',) if d else ()), sample={'model': name, 'L': L, 'params': p, 'd': d}, info={'model': name, 'L': L, 'params': p, 'd': d})
    detail = {'model': name, 'L': L, 'params': p, 'd': d}
    H = build(name, L, p, d)
    inv = refs.mpo_invariant(H)
    if not ctx.ok('large.block-sparse', inv is None, str(inv), detail):
        return
    ctx.ok('large.nsites', H.nsites == L and H.bond_dims[0] == 1 and H.bond_dims[-1] == 1 and int(H.qD[0][0]) == int(H.qD[-1][0]), f'nsites {H.nsites}, bonds {H.bond_dims}', detail)
    # local terms from the textbook references at L = 1 and L = 2
    two_only = {'ising': (p[0], 0.0, 0.0), 'xxz': (p[0], p[1], 0.0), 'xxz1': (p[0], p[1], 0.0), 'bose': (p[0], 0.0, 0.0), 'fermi': (p[0], 0.0, 0.0)}[name]
    one_only = {'ising': (0.0, p[1], p[2]), 'xxz': (0.0, 0.0, p[2]), 'xxz1': (0.0, 0.0, p[2]), 'bose': (0.0, p[1], p[2]), 'fermi': (0.0, p[1], p[2])}[name]
    h2 = reference(name, 2, two_only, d)
    h1 = reference(name, 1, one_only, d)
    worst = 0.0
    scale = 0.0
    for _ in range(3):
        phi = [(rng.normal(size=dd) + 1j * rng.normal(size=dd)) for _ in range(L)]
        chi = [phi[i] + 0.4 * (rng.normal(size=dd) + 1j * rng.normal(size=dd)) for i in range(L)]
        ov = np.array([np.vdot(phi[i], chi[i]) for i in range(L)])
        pre = np.concatenate([[1.0], np.cumprod(ov)])                  # pre[i] = prod_{k<i}
        suf = np.concatenate([np.cumprod(ov[::-1])[::-1], [1.0]])      # suf[i] = prod_{k>=i}
        want = 0.0
        for i in range(L):
            want += pre[i] * np.vdot(phi[i], h1 @ chi[i]) * suf[i + 1]
        for i in range(L - 1):
            want += pre[i] * np.vdot(np.kron(phi[i], phi[i + 1]), h2 @ np.kron(chi[i], chi[i + 1])) * suf[i + 2]
        got = refs.mpo_element([x.reshape(dd, 1, 1) for x in phi], H.A, [x.reshape(dd, 1, 1) for x in chi])
        sc = float(np.prod(np.abs(ov))) * L * max(np.abs(h2).max(), np.abs(h1).max(), 1e-300) * max(np.linalg.norm(phi[0]) ** 2, 1.0)
        scale = float(np.prod([np.linalg.norm(phi[i]) * np.linalg.norm(chi[i]) for i in range(L)])) * L * max(np.abs(h2).max(), np.abs(h1).max())
        ctx.close('large.product-state-matrix-elements', abs(got - want), 1e-10 * scale, f'<phi|H|chi> for product states differs from the sum of local terms at L={L}', detail)
    # Hermiticity through probes: <phi|H|chi> = conj(<chi|H|phi>)
    a = refs.mpo_element([x.reshape(dd, 1, 1) for x in phi], H.A, [x.reshape(dd, 1, 1) for x in chi])
    b = refs.mpo_element([x.reshape(dd, 1, 1) for x in chi], H.A, [x.reshape(dd, 1, 1) for x in phi])
    ctx.close('large.hermitian[probes]', abs(a - np.conj(b)), 1e-10 * scale, 'not Hermitian', detail)


def very_long_case(ctx, idx, rng):
    """Chains of 1000+ sites (Ising through the automaton path, linear fermionic operators): far beyond any recursion depth or per-site cache size.
    Matrix elements between normalised product states that differ on a few sites only (so that the overlaps do not underflow)."""
    L = int(rng.choice([1100, 1500]))
    if idx % 2 == 0:
        name = 'ising'
        p = tuple(float(x) for x in rng.choice([-1, 1], size=3) * rng.uniform(0.2, 2.0, size=3))
        ctx.case(('very-long', name, f'L{L}'), sample={'model': name, 'L': L, 'params': p}, info={'model': name, 'L': L, 'params': p})
        detail = {'model': name, 'L': L, 'params': p}
        H = build(name, L, p, None)
        dd = 2
        h2 = reference(name, 2, (p[0], 0.0, 0.0), None)
        h1 = reference(name, 1, (0.0, p[1], p[2]), None)
    else:
        name = 'linear-fermionic'
        coeff = rng.normal(size=L) + 1j * rng.normal(size=L)
        ftype = str(rng.choice(['c', 'a']))
        ctx.case(('very-long', name, f'L{L}', ftype), sample={'L': L, 'ftype': ftype}, info={'L': L, 'ftype': ftype, 'coeff': coeff})
        detail = {'model': name, 'L': L, 'ftype': ftype}
        H = ptn.linear_fermionic_mpo(coeff, ftype)
        dd = 2
    ctx.ok('very-long.nsites', H.nsites == L and H.bond_dims[0] == 1 and H.bond_dims[-1] == 1, f'nsites {H.nsites}', detail)
    inv = refs.mpo_invariant(H)
    if not ctx.ok('very-long.block-sparse', inv is None, str(inv), detail):
        return
    phi = [rng.normal(size=dd) + 1j * rng.normal(size=dd) for _ in range(L)]
    phi = [x / np.linalg.norm(x) for x in phi]
    chi = [x.copy() for x in phi]
    for i in rng.choice(L, size=6, replace=False):
        y = chi[int(i)] + 0.5 * (rng.normal(size=dd) + 1j * rng.normal(size=dd))
        chi[int(i)] = y / np.linalg.norm(y)
    ov = np.array([np.vdot(phi[i], chi[i]) for i in range(L)])
    pre = np.concatenate([[1.0], np.cumprod(ov)])
    suf = np.concatenate([np.cumprod(ov[::-1])[::-1], [1.0]])
    got = refs.mpo_element([x.reshape(dd, 1, 1) for x in phi], H.A, [x.reshape(dd, 1, 1) for x in chi])
    if name == 'ising':
        want = sum(pre[i] * np.vdot(phi[i], h1 @ chi[i]) * suf[i + 1] for i in range(L))
        want += sum(pre[i] * np.vdot(np.kron(phi[i], phi[i + 1]), h2 @ np.kron(chi[i], chi[i + 1])) * suf[i + 2] for i in range(L - 1))
        sc = L * max(np.abs(h2).max(), np.abs(h1).max())
    else:
        # sum_i coeff_i * (Jordan-Wigner string) (creation / annihilation operator on site i); local matrices and the side of the string are read off
        # the dense Fock-space reference at L = 1, 2 (refs.fock_annihilators, the oracle of the short-chain workload)
        A1 = np.asarray(refs.fock_annihilators(1)[0].toarray())
        a2 = np.asarray(refs.fock_annihilators(2)[0].toarray())
        Z = np.diag([1.0, -1.0])
        string_right = np.allclose(a2, np.kron(A1, Z))
        assert string_right or np.allclose(np.asarray(refs.fock_annihilators(2)[1].toarray()), np.kron(Z, A1))
        op = A1.T if ftype == 'c' else A1
        zov = np.array([np.vdot(phi[i], Z @ chi[i]) for i in range(L)])
        if string_right:
            left = pre
            right = np.concatenate([np.cumprod(zov[::-1])[::-1], [1.0]])
        else:
            left = np.concatenate([[1.0], np.cumprod(zov)])
            right = suf
        want = sum(coeff[i] * left[i] * np.vdot(phi[i], op @ chi[i]) * right[i + 1] for i in range(L))
        sc = float(np.abs(coeff).sum())
    ctx.close('very-long.product-state-matrix-element', abs(got - want), 1e-9 * max(sc, 1e-300), f'<phi|H|chi> differs from the sum of local terms at L={L}', detail)


def linear_fermionic_case(ctx, idx, rng):
    L = int(rng.integers(1, 8))
    kind = str(rng.choice(['complex', 'real', 'unit', 'sparse']))
    if kind == 'complex':
        c = rng.normal(size=L) + 1j * rng.normal(size=L)
    elif kind == 'real':
        c = rng.normal(size=L)
    elif kind == 'unit':
        c = np.zeros(L); c[int(rng.integers(0, L))] = 1.0
    else:
        c = (rng.normal(size=L) + 1j * rng.normal(size=L)) * (rng.random(size=L) < 0.4)
        if not c.any():
            c[0] = 1.0
    ft = [('c', 'create', 'creation'), ('a', 'annihilate', 'annihilation')][idx % 2]
    ftype = str(rng.choice(ft))
    ctx.case(('linear-fermionic', ft[0], kind, f'L{min(L, 4)}'), sample={'coeff': c, 'ftype': ftype}, info={'coeff': c, 'ftype': ftype})
    detail = {'coeff': c, 'ftype': ftype}
    c0 = np.array(c, copy=True)
    op = ptn.linear_fermionic_mpo(c, ftype)
    ctx.ok('linferm.coeff-unchanged', np.array_equal(c, c0), 'coefficient vector modified', detail)
    inv = refs.mpo_invariant(op)
    if not ctx.ok('linferm.block-sparse', inv is None, str(inv), detail):
        return
    M = refs.dense_operator(op.A)
    a = refs.fock_annihilators(L)
    if ft[0] == 'c':
        R = sum(c[i] * a[i].T.toarray() for i in range(L))
        shift = 1
    else:
        R = sum(c[i] * a[i].toarray() for i in range(L))
        shift = -1
    sc = max(1.0, np.abs(c).max())
    ctx.close('linferm.dense==formula', np.abs(M - R).max(), 1e-12 * sc, 'linear fermionic MPO differs from sum_i coeff_i a(+)_i with Jordan-Wigner signs', detail)
    ctx.ok('linferm.charge-shift', int(op.qD[-1][0]) - int(op.qD[0][0]) == shift * (int(op.qd[1]) - int(op.qd[0])) and op.qd[1] != op.qd[0],
           f'boundary charges {op.qD[0]}, {op.qD[-1]} do not encode a particle-number shift of {shift}', detail)
    if idx % 3 == 1 and np.issubdtype(np.asarray(c).dtype, np.inexact):
        # history: the SAME coefficient array changed in place, operator built again
        c *= 2.0
        c[0] = c[0] + 1.0
        M2 = refs.dense_operator(ptn.linear_fermionic_mpo(c, ftype).A)
        R2 = sum(c[i] * (a[i].T.toarray() if ft[0] == 'c' else a[i].toarray()) for i in range(L))
        ctx.close('linferm.dense==formula[after-inplace-edit]', np.abs(M2 - R2).max(), 1e-12 * max(1.0, np.abs(c).max()), 'operator built after an in-place change of coeff does not follow it', detail)
    # convention-free oracle: canonical anticommutation relations of the unit-coefficient operators, linearity in coeff
    if L <= 5 and idx % 3 == 0:
        A = [refs.dense_operator(ptn.linear_fermionic_mpo(np.eye(L)[i], 'a').A) for i in range(L)]
        C = [refs.dense_operator(ptn.linear_fermionic_mpo(np.eye(L)[i], 'c').A) for i in range(L)]
        worst = 0.0
        I = np.identity(2 ** L)
        for i in range(L):
            worst = max(worst, np.abs(C[i] - A[i].conj().T).max())
            for j in range(L):
                worst = max(worst, np.abs(A[i] @ A[j] + A[j] @ A[i]).max())
                worst = max(worst, np.abs(A[i] @ C[j] + C[j] @ A[i] - (I if i == j else 0 * I)).max())
        ctx.close('linferm.CAR', worst, 1e-12, 'unit-coefficient operators violate the canonical anticommutation relations', detail)
        lin = sum(c[i] * (C[i] if ft[0] == 'c' else A[i]) for i in range(L))
        ctx.close('linferm.linear-in-coeff', np.abs(M - lin).max(), 1e-12 * sc, 'operator is not linear in the coefficient vector', detail)


SPEC = {
    'id': 'C06',
    'rule': ('large: L 9..40 for all five lattice models through product-state matrix elements assembled from the textbook one- and two-site operators; grid: Ising/XXZ L 1..8, spin-1 XXZ L 1..5, Bose-Hubbard d 1..4 (d^L <= 1024), Fermi-Hubbard L 1..4, every parameter triple from '
             '{0, 1, -1, generic}^3 except those whose documented operator is identically zero (decides the chain lists produced by vanishing couplings '
             'and by chains shorter than the longest local term); random Gaussian parameters (scales 0.01..10, thorough: dense dimension up to 1024); '
             'linear fermionic operators: both types (all spellings), complex / real / unit / sparse coefficient vectors, L 1..7, plus the '
             'convention-free CAR and linearity oracle. References: own Kronecker embedding of textbook site operators and the bit-string Fock space. '
             'distinct = (model, L, parameter class, d).'),
    'deciding': ['model.dense==formula', 'model.hermitian', 'model.block-sparse', 'model.physical-charges', 'model.charge-conserving',
                 'linferm.dense==formula', 'linferm.CAR', 'linferm.charge-shift'],
    'workloads': [
        Workload('grid', grid_case, quick=8 * 8 * 64, thorough=8 * 8 * 64 * 12),
        Workload('integer-grid', IG_Q, quick=IG_Q.count, thorough=0, exhaustive={'space': 'all parameter triples in {-2..3}^3, every model, L=3'}),
        Workload('integer-grid-all', IG_T, quick=0, thorough=IG_T.count, exhaustive={'space': 'all parameter triples in {-4..4}^3, every model, L=1..4'}),
        Workload('near-equal-parameters', near_equal_case, quick=400, thorough=40000),
        Workload('bose-large-d', bose_large_d_case, quick=60, thorough=1500),
        Workload('random', random_case, quick=150, thorough=40000),
        Workload('large', large_case, quick=120, thorough=6000),
        Workload('very-long', very_long_case, quick=2, thorough=64),
        Workload('linear-fermionic', linear_fermionic_case, quick=200, thorough=32000),
    ],
    'shards': {'quick': 4, 'thorough': 16},
    'assumptions': ['textbook site operators and Jordan-Wigner Fock space in pvm/refs.py (self-tested: CAR)'],
}
