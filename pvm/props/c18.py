"""C18 — bipartite matching is maximum and the derived vertex cover is minimum; both terminate."""
import numpy as np

from .. import gen, monitor, refs
from ..core import Workload
from ..env import ptn

CHUNK = 1024


def check_graph(ctx, nu, nv, edges, ref_size, in_situ=False, graph=None, cover=None, budget=None, matching_only=False):
    """Returns False on the first failed condition (details recorded)."""
    s = in_situ
    detail = {'nu': nu, 'nv': nv, 'edges': edges}
    eset = set(edges)
    ok = True
    if cover is None:
        if graph is None:
            # the edge container in the forms a Sequence comes in: list of tuples, tuple of tuples, list of lists, integer array of shape (E, 2)
            form = (len(edges) + nu) % 4
            cont = edges if form == 0 else (tuple(edges) if form == 1 else ([list(e) for e in edges] if form == 2 else (np.array(edges, dtype=np.int64).reshape(-1, 2) if len(edges) else edges)))
            ctx.event('edge_container_form:' + ('list-of-tuples', 'tuple', 'list-of-lists', 'int-array')[form])
        g = graph if graph is not None else ptn.BipartiteGraph(nu, nv, cont)
        if budget is not None:
            budget[0].start(budget[1])
        try:
            solver = ptn.HopcroftKarp(g)
            matching = solver()
            steps_m = budget[0].count if budget else 0
            # the same solver object called again must return a maximum matching again (no state carried over between runs)
            for rep in range(2):
                again = solver()
                ok_again = (isinstance(again, list) and len(again) == ref_size and all(p in eset for p in again)
                            and len({p[0] for p in again}) == len(again) and len({p[1] for p in again}) == len(again))
                if not ctx.ok('matching.repeated-call-on-same-solver', ok_again, f'call {rep + 2} on the same HopcroftKarp object returned {str(again)[:300]} (size {len(again) if isinstance(again, list) else "?"}, maximum {ref_size})', detail, s):
                    return False
            if budget is not None:
                budget[0].start(budget[1])
            cover = ptn.minimum_vertex_cover(g) if not matching_only else None
            if budget is not None:
                ctx.close('termination.steps-within-budget', max(steps_m, budget[0].count), budget[1], 'logical steps', detail, s)
                budget[0].budget = None
        except monitor.StepBudgetExceeded as e:
            ctx.fail('termination.steps-within-budget', f'{e} on a graph with U={nu} V={nv} E={len(eset)}', detail)
            return False
        ok &= ctx.ok('matching.is-list-of-pairs', isinstance(matching, list) and all(isinstance(p, tuple) and len(p) == 2 for p in matching), 'matching must be a list of pairs', detail, s)
        if not ok:
            return False
        ok &= ctx.ok('matching.subset-of-edges', all(p in eset for p in matching), f'matching {str(matching)[:300]} uses a non-edge', detail, s)
        us = [p[0] for p in matching]
        vs = [p[1] for p in matching]
        ok &= ctx.ok('matching.vertex-disjoint', len(set(us)) == len(us) and len(set(vs)) == len(vs), f'matching {str(matching)[:300]} shares a vertex', detail, s)
        ok &= ctx.ok('matching.maximum', len(matching) == ref_size, f'matching size {len(matching)} != maximum {ref_size}', detail, s)
    if cover is None:
        return ok                       # matching only (the cover routine is quadratic in the matching size: out of reach for 66000 vertices)
    uc, vc = cover
    ok &= ctx.ok('cover.in-range', all(0 <= u < nu for u in uc) and all(0 <= v < nv for v in vc) and len(set(uc)) == len(uc) and len(set(vc)) == len(vc),
                 f'cover {str(cover)[:300]} out of range / repeated', detail, s)
    ucs, vcs = set(uc), set(vc)
    ok &= ctx.ok('cover.touches-every-edge', all((u in ucs) or (v in vcs) for (u, v) in eset), f'cover {str(cover)[:300]} misses an edge', detail, s)
    ok &= ctx.ok('cover.minimum', len(uc) + len(vc) == ref_size, f'cover size {len(uc) + len(vc)} != maximum matching {ref_size}', detail, s)
    return ok


def _shapes(maxn):
    out = []
    for nu in range(1, maxn + 1):
        for nv in range(1, maxn + 1):
            nm = 1 << (nu * nv)
            for c in range(0, nm, CHUNK):
                out.append((nu, nv, c, min(nm, c + CHUNK)))
    return out


def make_exhaustive(maxn, minprod=0, ref='brute'):
    chunks = [s for s in _shapes(maxn) if s[0] * s[1] > minprod]

    def fn(ctx, idx, rng):
        nu, nv, lo, hi = chunks[idx]
        pairs = [(u, v) for u in range(nu) for v in range(nv)]
        good = 0
        matcher = refs.max_matching_bruteforce if ref == 'brute' else refs.max_matching_kuhn
        for mask in range(lo, hi):
            edges = [pairs[b] for b in range(nu * nv) if (mask >> b) & 1]
            # every edge SET is enumerated; its list ORDER alternates between sorted, reversed, and two random orders (adjacency lists are built in list order)
            om = mask % 4
            if om == 1:
                edges = edges[::-1]
            elif om >= 2 and len(edges) > 1:
                edges = [edges[int(j)] for j in rng.permutation(len(edges))]
            r = matcher(nu, nv, edges)
            # fast path: identical conditions evaluated inline; the detailed (recording) oracle runs only on a failure
            g = ptn.BipartiteGraph(nu, nv, edges)
            solver = ptn.HopcroftKarp(g)
            matching = solver()
            again = solver()
            uc, vc = ptn.minimum_vertex_cover(g)
            eset = set(edges)
            ucs, vcs = set(uc), set(vc)
            if (len(matching) == r and len(uc) + len(vc) == r and all(p in eset for p in matching)
                    and len(again) == r and all(p in eset for p in again) and len({p[0] for p in again}) == r and len({p[1] for p in again}) == r
                    and len({p[0] for p in matching}) == r and len({p[1] for p in matching}) == r
                    and all(0 <= u < nu for u in uc) and all(0 <= v < nv for v in vc) and len(ucs) == len(uc) and len(vcs) == len(vc)
                    and all((u in ucs) or (v in vcs) for (u, v) in edges)):
                good += 1
            else:
                ctx.cur_info = {'nu': nu, 'nv': nv, 'edges': edges}
                check_graph(ctx, nu, nv, edges, r)
        for mname in ('matching.repeated-call-on-same-solver', 'matching.is-list-of-pairs', 'matching.subset-of-edges', 'matching.vertex-disjoint', 'matching.maximum',
                      'cover.in-range', 'cover.touches-every-edge', 'cover.minimum'):
            ctx.count_n(mname, good)
        ne = hi - lo
        ctx.case_bulk((f'{nu}x{nv}', 'exhaustive'), ne, nontrivial=(nu * nv > 1))
        if idx % 17 == 0:
            ctx.case((f'{nu}x{nv}', 'exhaustive-sample'), nontrivial=False, sample={'nu': nu, 'nv': nv, 'edges': edges})
    fn.count = len(chunks)
    return fn


ex4 = make_exhaustive(4)
ex5 = make_exhaustive(5, minprod=16, ref='kuhn')


TINY = [(nu, nv) for nu in range(1, 4) for nv in range(1, 4) if nu * nv <= 4]


def _tiny_lists():
    out = []
    for nu, nv in TINY:
        pairs = [(u, v) for u in range(nu) for v in range(nv)]
        n = len(pairs)
        # every ORDERED edge list with repetitions of length 0 .. nu*nv + 1
        total = sum(n ** k for k in range(0, n + 2))
        out.append((nu, nv, total))
    return out


def duplicates_exhaustive(ctx, idx, rng):
    """Every ordered edge list WITH repetitions up to length nu*nv+1 for the shapes with nu*nv <= 4."""
    import itertools
    nu, nv, total = _tiny_lists()[idx]
    pairs = [(u, v) for u in range(nu) for v in range(nv)]
    n = 0
    for k in range(0, len(pairs) + 2):
        for edges in itertools.product(pairs, repeat=k):
            edges = list(edges)
            r = refs.max_matching_bruteforce(nu, nv, list(set(edges)))
            ctx.cur_info = {'nu': nu, 'nv': nv, 'edges': edges}
            check_graph(ctx, nu, nv, edges, r)
            n += 1
    ctx.case_bulk((f'{nu}x{nv}', 'ordered-lists-with-duplicates'), n, nontrivial=True)
    ctx.case((f'{nu}x{nv}', 'duplicates-sample'), nontrivial=False, sample={'nu': nu, 'nv': nv, 'edges': edges})


def duplicate_lengths_case(ctx, idx, rng):
    """Edge lists with duplicates whose LENGTH hits structural numbers (nu*nv, nu*nv +- 1, nu, nv, nu+nv) while the edge set does not."""
    nu, nv = int(rng.integers(1, 8)), int(rng.integers(1, 8))
    pairs = [(u, v) for u in range(nu) for v in range(nv)]
    ne = int(rng.integers(1, len(pairs) + 1))
    base = [pairs[i] for i in rng.choice(len(pairs), size=ne, replace=False)]
    target = int(rng.choice([nu * nv, nu * nv + 1, max(nu * nv - 1, 1), nu, nv, nu + nv, 2 * nu * nv]))
    edges = list(base)
    while len(edges) < target:
        edges.append(base[int(rng.integers(0, len(base)))])
    perm = rng.permutation(len(edges))
    edges = [edges[i] for i in perm]
    r = refs.max_matching_kuhn(nu, nv, list(set(edges)))
    ctx.case(('dup-length', 'len==nu*nv' if len(edges) == nu * nv else 'len-other', 'complete' if len(set(edges)) == nu * nv else 'incomplete', f'match{min(r, 3)}'),
             sample={'nu': nu, 'nv': nv, 'edges': edges})
    check_graph(ctx, nu, nv, edges, r)


def random_case(ctx, idx, rng):
    import pytenet.bipartite_graph as bg
    nu, nv, edges, kind = gen.rand_bipartite(rng, (60 if idx % 4 else 12) if idx % 25 else 250)
    small = nu <= 6 and nv <= 6
    r = refs.max_matching_kuhn(nu, nv, edges)
    if small:
        rb = refs.max_matching_bruteforce(nu, nv, edges)
        ctx.ok('reference.kuhn==bruteforce', r == rb, 'the two reference matchers disagree', {'nu': nu, 'nv': nv, 'edges': edges})
    n = nu + nv + len(set(edges))
    ctx.case((kind, 'small' if small else 'large', 'U<V' if nu < nv else 'U>=V', f'match{min(r, 3)}'), nontrivial=len(edges) > 0,
             sample={'nu': nu, 'nv': nv, 'edges': edges[:40], 'kind': kind})
    with monitor.StepCounter(bg) as sc:
        check_graph(ctx, nu, nv, edges, r, budget=(sc, 50 * n * n + 1000))
    ctx.event('max_steps_over_n2', 0)


def staircase_case(ctx, idx, rng):
    """Adversarial path blocks of pairwise different lengths (see gen.staircase_bipartite): one Hopcroft-Karp phase per distinct block size;
    the number of BFS phases actually run is observed through a monitor on the phase routine and recorded."""
    import pytenet.bipartite_graph as bg
    nu, nv, edges, nsizes, _ = gen.staircase_bipartite(rng)
    r = refs.max_matching_kuhn(nu, nv, edges)
    phases = [0]

    def around(orig, self):
        phases[0] += 1
        return orig(self)
    ctx.case(('staircase', f'sizes{min(nsizes, 6)}', 'U<=9' if nu <= 9 else ('U<=20' if nu <= 20 else 'U>20'), 'swapped' if edges and edges[0][0] > edges[0][1] else 'plain'),
             sample={'nu': nu, 'nv': nv, 'edges': edges[:60], 'distinct_block_sizes': nsizes})
    n = nu + nv + len(set(edges))
    with monitor.attached(bg.HopcroftKarp._HopcroftKarp__connect_unmatched_vertices, around):
        g = ptn.BipartiteGraph(nu, nv, edges)
        solver = ptn.HopcroftKarp(g)
        m = solver()
    ctx.event(f'staircase_bfs_phases={phases[0]:02d}')         # histogram of the number of phases the real solver went through
    with monitor.StepCounter(bg) as sc:
        check_graph(ctx, nu, nv, edges, r, budget=(sc, 50 * n * n + 1000))


def deep_case(ctx, idx, rng):
    """DEEP graphs: augmenting paths and alternating trees of 600 .. 3000 vertices per side (far beyond the interpreter's default recursion limit of 1000
    frames). Path with an unmatched root (the alternating tree of the cover routine is as deep as the path), ladder whose greedy first phase leaves ONE
    augmenting path through every vertex, caterpillar; vertex ids relabelled and edge lists reordered. Optimum sizes are known in closed form, and
    |matching| == |cover| certifies both anyway."""
    n = int(rng.integers(600, 1500 if ctx.tier == 'quick' else 3000))
    fam = ('path-unmatched-root', 'ladder-one-long-augmenting-path', 'caterpillar')[idx % 3]
    if fam == 'path-unmatched-root':
        nu, nv = n + 1, n
        edges = [(i, i) for i in range(n)] + [(i + 1, i) for i in range(n)]
        opt = n
    elif fam == 'ladder-one-long-augmenting-path':
        nu, nv = n + 1, n + 1
        edges = []
        for i in range(n):
            edges += [(i, i + 1), (i, i)]          # adjacency order prefers v_{i+1}: the greedy phase matches u_i - v_{i+1} and strands u_n
        edges.append((n, n))
        opt = n + 1
    else:
        # path u_0 - v_0 - u_1 - ... plus a pendant V leaf at every third U vertex: still a tree of depth ~n
        nu, nv = n + 1, n + (n + 3) // 3
        edges = [(i, i) for i in range(n)] + [(i + 1, i) for i in range(n)]
        edges += [(3 * k, n + k) for k in range((n + 3) // 3) if 3 * k <= n]
        opt = None
    order = ('as-built', 'reversed', 'shuffled', 'relabelled')[(idx // 3) % 4]
    if order == 'reversed':
        edges = edges[::-1]
    elif order == 'shuffled':
        edges = [edges[int(k)] for k in rng.permutation(len(edges))]
    elif order == 'relabelled':
        pu, pv = rng.permutation(nu), rng.permutation(nv)
        edges = [(int(pu[u]), int(pv[v])) for u, v in edges]
    if opt is None:
        opt = refs.max_matching_iterative(nu, nv, edges)
    ctx.case(('deep', fam, order, 'n<1000' if n < 1000 else 'n>=1000'), sample={'family': fam, 'n': n, 'order': order, 'nu': nu, 'nv': nv, 'edges': edges[:12]})
    check_graph(ctx, nu, nv, edges, opt)


def dead_end_ladder_case(ctx, idx, rng):
    """Bounded progress on graphs with DEEP BRANCHING DEAD ENDS: a ladder of k layers with w alternative continuations per layer that ends blind, below a free
    vertex that is served before the free vertex of a long chain forcing a long shortest augmenting path. A depth-first search that does not mark exhausted
    vertices re-explores the blind subtree once per path into it (w^k steps); the logical-step budget 50 (U+V+E)^2 + 1000 counted by sys.monitoring is
    polynomial. Optimum known in closed form (all of U but the root above the ladder)."""
    import pytenet.bipartite_graph as bg
    k = int(rng.integers(14, 31 if ctx.tier == 'quick' else 41))
    w = int(rng.choice([2, 2, 3]))
    x = lambda i, a: i * w + a
    c = lambda i: k * w + i
    r0, r1 = k * w + k, k * w + k + 1
    f = k * w + k
    edges = []
    for i in range(k):
        for a in range(w):
            edges.append((x(i, a), x(i, a)))
            if i + 1 < k:
                edges += [(x(i, a), x(i + 1, b)) for b in range(w)]
        edges.append((c(i), c(i)))
        edges.append((c(i), c(i + 1) if i + 1 < k else f))
    edges += [(r0, x(0, b)) for b in range(w)]
    edges.append((r1, c(0)))
    nu, nv = k * w + k + 2, k * w + k + 1
    order = ('as-built', 'relabelled-V', 'roots-swapped')[(idx // 2) % 3]
    if order == 'relabelled-V':
        pv = rng.permutation(nv)
        edges = [(u, int(pv[v])) for u, v in edges]
    elif order == 'roots-swapped':
        sw = {r0: r1, r1: r0}
        edges = [(sw.get(u, u), v) for u, v in edges]
    ctx.case(('dead-end-ladder', f'w{w}', 'k<20' if k < 20 else ('k<30' if k < 30 else 'k>=30'), order), sample={'k': k, 'w': w, 'nu': nu, 'nv': nv, 'order': order, 'edges': edges[:12]})
    n = nu + nv + len(set(edges))
    with monitor.StepCounter(bg) as sc:
        check_graph(ctx, nu, nv, edges, nu - 1, budget=(sc, 50 * n * n + 1000))


def wide_case(ctx, idx, rng):
    """Very UNBALANCED graphs: a handful of U vertices against hundreds to 70000 V vertices (what the first sites of a long-range Hamiltonian produce: few
    left nodes, thousands of tails), sparse edges, U vertices that share their only neighbour (so that 'all of U' is a cover but not a minimum one), and
    vertex pairs whose indices coincide modulo 2**16 / 2**8 ((u, v) next to (u + 1, v - 65536): packed edge keys). Reference: Kuhn's algorithm (depth <= |U|)."""
    swap = bool(idx % 4 == 3)
    nu = int(rng.integers(2, 9))
    nv = int(rng.choice([300, 700, 2600, 66000, 70000])) if idx % 3 else int(rng.integers(257 * nu, 400 * nu))
    edges = []
    shared = int(rng.integers(0, nv))
    nshare = int(rng.integers(2, nu + 1)) if rng.random() < 0.7 else 0
    for u in range(nshare):
        edges.append((u, shared))                             # these U vertices share their only neighbour
    for u in range(nshare, nu):
        for v in rng.integers(0, nv, size=int(rng.integers(1, 5))):
            edges.append((u, int(v)))
    for step in (1 << 16, 1 << 8):
        if nv > step + 2 and rng.random() < 0.7:
            u0 = int(rng.integers(0, nu - 1))
            v0 = int(rng.integers(0, nv - step))
            edges += [(u0, v0 + step), (u0 + 1, v0)] if rng.random() < 0.5 else [(u0 + 1, v0), (u0, v0 + step)]
    if rng.random() < 0.5:
        edges = [edges[int(k)] for k in rng.permutation(len(edges))]
    edges = list(dict.fromkeys(edges)) if rng.random() < 0.5 else edges
    if swap:
        nu, nv, edges = nv, nu, [(v, u) for u, v in edges]
    ref = refs.max_matching_kuhn(nu, nv, edges) if not swap else refs.max_matching_kuhn(nv, nu, [(v, u) for u, v in edges])
    ctx.case(('wide', 'V>>U' if not swap else 'U>>V', 'V>65536' if max(nu, nv) > 65536 else ('ratio>256' if max(nu, nv) > 256 * min(nu, nv) else 'ratio<=256'),
              'shared-only-neighbour' if nshare else 'no-shared'), sample={'nu': nu, 'nv': nv, 'edges': edges[:20]})
    check_graph(ctx, nu, nv, edges, ref)


def very_deep_case(ctx, idx, rng):
    """One augmenting path through MORE THAN 65536 U vertices (ladder whose greedy first phase strands the last vertex; both partitions above 2**16):
    distances and layer indices beyond 16 bits. Matching only -- optimum known in closed form (perfect matching)."""
    n = int(rng.integers(65536, 66300))
    edges = []
    for i in range(n):
        edges += [(i, i + 1), (i, i)]
    edges.append((n, n))
    if idx % 2:
        edges = [(v, u) for u, v in edges][::-1]
        edges = [(u, v) for (u, v) in edges]
    ctx.case(('very-deep', 'ladder-one-long-augmenting-path', 'transposed' if idx % 2 else 'as-built'), sample={'n': n, 'nu': n + 1, 'nv': n + 1, 'edges': edges[:8]})
    check_graph(ctx, n + 1, n + 1, edges, n + 1, matching_only=True)


def insitu_case(ctx, idx, rng):
    """minimum_vertex_cover as driven by from_opchains while compiling real Hamiltonians and random chain lists."""
    seen = [0]

    def around(orig, graph):
        res = orig(graph)
        edges = [(u, v) for u in range(graph.num_u) for v in graph.adj_u[u]]
        r = refs.max_matching_kuhn(graph.num_u, graph.num_v, edges)
        seen[0] += 1
        ctx.cur_info = {'nu': graph.num_u, 'nv': graph.num_v, 'edges': edges}
        check_graph(ctx, graph.num_u, graph.num_v, edges, r, in_situ=True, cover=res)
        return res
    kind = idx % 4
    with monitor.attached('pytenet.bipartite_graph.minimum_vertex_cover', around):
        if kind == 0:
            name, L, p, H = gen.pick_model(rng, names=('xxz', 'xxz1', 'bose3', 'fermi'), maxdim=10**9, Lmin=2, Lmax=8)
            ctx.case(('insitu', name), sample={'model': name, 'L': L})
        elif kind == 1:
            L = int(rng.integers(2, 7))
            t = rng.normal(size=(L, L)); v = rng.normal(size=(L, L, L, L))
            if rng.random() < 0.5:
                v = v * (rng.random(size=v.shape) < 0.3)
            ptn.molecular_hamiltonian_mpo(t, v, optimize=True)
            ctx.case(('insitu', 'molecular', f'L{L}'), sample={'model': 'molecular', 'L': L})
        elif kind == 2:
            L = int(rng.integers(1, 4))
            t = rng.normal(size=(L, L)); v = rng.normal(size=(L, L, L, L))
            ptn.spin_molecular_hamiltonian_mpo(t, v, optimize=True)
            ctx.case(('insitu', 'spin-molecular', f'L{L}'), sample={'model': 'spin-molecular', 'L': L})
        else:
            L = int(rng.integers(1, 7))
            chains = [gen.rand_chain(rng, L) for _ in range(int(rng.integers(1, 25)))]
            ptn.OpGraph.from_opchains(chains, L, 0)
            ctx.case(('insitu', 'random-chains', f'L{L}'), sample={'chains': len(chains), 'L': L})
    ctx.event('insitu_cover_calls', seen[0])


def soak_case(ctx, idx, rng):
    """The repository's own test-suite with the cover / matching oracle attached to every call of minimum_vertex_cover (every per-site problem of every
    Hamiltonian the tests compile) and of HopcroftKarp.__call__."""
    from .. import soak
    seen = [0, 0]

    def around_cover(orig, graph):
        res = orig(graph)
        edges = [(u, v) for u in range(graph.num_u) for v in graph.adj_u[u]]
        r = refs.max_matching_kuhn(graph.num_u, graph.num_v, edges)
        seen[0] += 1
        ctx.cur_info = {'nu': graph.num_u, 'nv': graph.num_v, 'edges': edges}
        check_graph(ctx, graph.num_u, graph.num_v, edges, r, in_situ=True, cover=res)
        return res

    def around_hk(orig, self):
        res = orig(self)
        g = self.graph
        edges = [(u, v) for u in range(g.num_u) for v in g.adj_u[u]]
        r = refs.max_matching_kuhn(g.num_u, g.num_v, edges)
        seen[1] += 1
        es = set(edges)
        ok = (isinstance(res, list) and len(res) == r and all(p in es for p in res) and len({p[0] for p in res}) == len(res) and len({p[1] for p in res}) == len(res))
        ctx.ok('matching.maximum', ok, f'HopcroftKarp called from the test-suite returned {res} (maximum {r})', {'nu': g.num_u, 'nv': g.num_v, 'edges': edges}, True)
        return res
    import pytenet.bipartite_graph as bg
    ctx.case(('soak', 'repository-test-suite'), sample={'functions_monitored': ['minimum_vertex_cover', 'HopcroftKarp.__call__']})
    soak.run_suite(ctx, [('pytenet.bipartite_graph.minimum_vertex_cover', around_cover), (bg.HopcroftKarp.__call__, around_hk)])
    ctx.event('soak_cover_calls', seen[0])
    ctx.event('soak_matching_calls', seen[1])


SPEC = {
    'id': 'C18',
    'rule': ('(edge lists of the exhaustive enumerations come in sorted, reversed and random order in rotation) every graph is solved by one HopcroftKarp object that is then called two more times (each result must be a maximum matching); exhaustive: every edge set of every partition nu x nv <= 4x4 against a brute-force maximum matching (quick and thorough); '
             'thorough adds every edge set of the partitions with nu*nv > 16 up to 5x5 against Kuhn\'s algorithm; every ORDERED edge list with repetitions '
             '(length <= nu*nv+1) for shapes with nu*nv <= 4 and random duplicate-padded lists whose length hits nu*nv, nu*nv+-1, nu, nv, nu+nv; random graphs up to 60x60 '
             '(empty, sparse, dense, complete, duplicate edges, long augmenting paths) with a logical-step budget 50(U+V+E)^2+1000 counted by '
             'sys.monitoring (function entries, loop back-edges, branches inside bipartite_graph.py); deep: paths with an unmatched root, ladders with one augmenting path through every vertex and caterpillars with 600..3000 vertices per side, relabelled / reordered (depth beyond the recursion limit of the interpreter); dead-end ladders: 14..40 layers with 2..3 alternative continuations per layer ending blind, under the same polynomial step budget (a search that re-explores exhausted vertices needs w^k steps); in situ: every per-site bipartite problem '
             'raised by from_opchains for built-in/molecular Hamiltonians and random chain lists. Non-trivial = at least one edge and more '
             'than one vertex pair; distinct = (shape or density class, size class, orientation, matching-size class).'),
    'deciding': ['matching.repeated-call-on-same-solver', 'matching.maximum', 'matching.subset-of-edges', 'matching.vertex-disjoint', 'cover.touches-every-edge', 'cover.minimum',
                 'termination.steps-within-budget'],
    'workloads': [
        Workload('exhaustive4', ex4, quick=ex4.count, thorough=ex4.count,
                 exhaustive={'space': 'all edge sets of all partitions up to 4x4 (74306 graphs) vs brute force'}),
        Workload('exhaustive5', ex5, quick=0, thorough=ex5.count,
                 exhaustive={'space': 'all edge sets of partitions 4x5, 5x4, 5x5 (3.56e7 graphs) vs Kuhn reference'}),
        Workload('duplicates-exhaustive', duplicates_exhaustive, quick=len(TINY), thorough=len(TINY),
                 exhaustive={'space': 'all ordered edge lists with repetitions of length <= nu*nv+1 for every shape with nu*nv <= 4'}),
        Workload('duplicate-lengths', duplicate_lengths_case, quick=1500, thorough=200000),
        Workload('random', random_case, quick=600, thorough=100000),
        Workload('staircase', staircase_case, quick=400, thorough=60000),
        Workload('deep', deep_case, quick=12, thorough=240),
        Workload('very-deep', very_deep_case, quick=1, thorough=16),
        Workload('wide', wide_case, quick=60, thorough=1500),
        Workload('dead-end-ladders', dead_end_ladder_case, quick=12, thorough=360),
        Workload('insitu', insitu_case, quick=60, thorough=6000),
        Workload('suite-soak', soak_case, quick=0, thorough=1, shardable=False),
    ],
    'shards': {'quick': 4, 'thorough': 16},
    'watchdog_s': {'quick': 600, 'thorough': 7200},
    'assumptions': ['brute-force bitmask matching (<=4x4) and Kuhn augmenting paths are the references; they are cross-checked on every small random graph'],
}
