"""C17 — operator trees and state automata unfold to graphs with the same meaning."""
import collections

import numpy as np

from .. import gen, monitor, refs
from ..core import Workload
from ..env import ptn


def tree_dump(node):
    return {'q': node.qnum, 'ch': [(e.oid, e.coeff, tree_dump(e.node)) for e in node.children]}


def trees_case(ctx, idx, rng):
    L = int(rng.integers(1, 8)) if idx % 10 else int(rng.integers(8, 11))
    long_ = L >= 8
    ntree = int(rng.integers(1, 5))
    trees, ref = [], {}
    shapes = []
    zeros = False
    pool = gen.OID_POOLS[int(rng.integers(0, len(gen.OID_POOLS)))]
    oid_id = 0 if pool is None else int(pool[0])
    charged = bool(idx % 3 == 1)             # tree nodes with quantum numbers (several trees at the same start site with different root labels included)
    same_start = int(rng.integers(0, L)) if rng.random() < 0.4 else None
    for _ in range(ntree):
        ist = int(rng.integers(0, L)) if same_start is None else same_start
        pz = float(rng.choice([0.0, 0.0, 0.25, 0.6]))
        root, poly = gen.rand_tree(rng, L - ist, nops=int(rng.integers(1, 4)), pleaf=float(rng.choice([0.1, 0.3, 0.5])) if not long_ else 0.4,
                                   maxch=int(rng.integers(1, 4)) if not long_ else 2, pzero=pz, pool=pool, charges=charged, root_q=(0 if ist == 0 else None),
                                   shared=([] if (idx % 4 == 2 and not charged) else None))      # every fourth list: subtree OBJECTS reused inside a tree, also at different depths
        zeros = zeros or pz > 0
        t = ptn.OpTree(root, ist)
        trees.append(t)
        lens = {len(w) for w in poly}
        shapes.append(('full' if max(lens) == L - ist else 'short') + ('-ragged' if len(lens) > 1 else ''))
        for w, c in poly.items():
            full = (oid_id,) * ist + w + (oid_id,) * (L - ist - len(w))
            ref[full] = ref.get(full, 0) + c
    ref = refs.poly_clean(ref)
    ctx.case(('trees', f'L{min(L, 4)}', f'n{ntree}', 'charged-nodes' if charged else 'uncharged', 'same-start' if same_start is not None else 'mixed-starts', 'zero-couplings' if zeros else 'nonzero-couplings', 'ids-default' if pool is None else f'ids{pool}') + tuple(sorted(set(shapes))), sample={'L': L, 'trees': [(t.istart, tree_dump(t.root)) for t in trees][:2]},
             info={'L': L, 'trees': [(t.istart, tree_dump(t.root)) for t in trees]})
    detail = ctx.cur_info
    dg = monitor.digest([(t.istart, tree_dump(t.root)) for t in trees])
    g = ptn.OpGraph.from_optrees(trees, L, oid_id)
    ctx.ok('trees.inputs-unchanged', monitor.digest([(t.istart, tree_dump(t.root)) for t in trees]) == dg, 'from_optrees modified a tree', detail)
    st = refs.graph_structure_ok(g)
    ctx.ok('trees.graph-structure', st is None, str(st), detail)
    ctx.ok('trees.graph-is_consistent', bool(g.is_consistent()), 'is_consistent() False', detail)
    if st is not None:
        return
    poly, depth = refs.graph_poly(g)
    ctx.ok('trees.graph-length', depth == L and g.length == L, f'length {g.length}/{depth} != {L}', detail)
    ctx.ok('trees.polynomial==padded-sum', poly == ref, f'graph denotes {dict(list(poly.items())[:4])}..., trees sum to {dict(list(ref.items())[:4])}...', detail)
    # dense meanings under a random operator map with identity -> identity matrix
    d = 2
    if L <= 6:
        ids = list(range(0, 4)) if pool is None else [int(x) for x in pool]
        opmap = {k: rng.normal(size=(d, d)) + 1j * rng.normal(size=(d, d)) for k in ids}
        opmap[oid_id] = np.identity(d)
        want = refs.poly_dense(ref, L, opmap, d)
        sc = max(np.linalg.norm(want), 1.0)
        for direction in (1, 0):
            M = g.as_matrix(opmap, direction) if direction == 0 else (g.as_matrix(opmap) if idx % 2 else g.as_matrix(opmap, 1))
            M = np.asarray(M)
            if M.shape == want.shape:
                ctx.close(f'graph.as_matrix[dir{direction}]', np.linalg.norm(M - want), 1e-11 * sc, 'OpGraph.as_matrix != polynomial under the operator map', detail)
            elif not ref:
                ctx.skip(f'graph.as_matrix[dir{direction}]')
            else:
                ctx.ok(f'graph.as_matrix[dir{direction}]', False, f'shape {M.shape} != {want.shape}', detail)
        # a single tree as a matrix: its own extent (height sites), shorter branches padded with identities
        t = trees[0]
        h = t.height()
        _, tp = _tree_poly(t.root)
        tw = {}
        for w, c in tp.items():
            full = w + (oid_id,) * (h - len(w))
            tw[full] = tw.get(full, 0) + c
        Mt = np.asarray(t.as_matrix(opmap))
        wt = refs.poly_dense(tw, h, opmap, d)
        if Mt.shape == wt.shape:
            ctx.close('tree.as_matrix', np.linalg.norm(Mt - wt), 1e-11 * max(1.0, np.linalg.norm(wt)), 'OpTree.as_matrix != polynomial of the tree', detail)
        else:
            ctx.ok('tree.as_matrix', False, f'shape {Mt.shape} != {wt.shape} (height {h})', detail)
        ctx.ok('tree.height', h == max(len(w) for w in tp), f'height {h}', detail)


def _tree_poly(node):
    if not node.children:
        return node, {(): 1.0}
    poly = {}
    for e in node.children:
        _, cp = _tree_poly(e.node)
        for w, c in cp.items():
            poly[(e.oid,) + w] = poly.get((e.oid,) + w, 0) + e.coeff * c
    return node, poly


def chain_matrix_case(ctx, idx, rng):
    L = int(rng.integers(1, 6))
    d = int(rng.integers(1, 4))
    c = gen.rand_chain(rng, L, nops=3, charges=False)
    opmap = {k: rng.normal(size=(d, d)) + 1j * rng.normal(size=(d, d)) for k in range(0, 4)}
    ctx.case(('chain-matrix', f'len{len(c.oids)}', f'd{d}'), sample={'oids': c.oids, 'coeff': c.coeff})
    want = c.coeff * refs.kron_all([opmap[o] for o in c.oids])
    M = np.asarray(c.as_matrix(opmap))
    ok = M.shape == want.shape
    ctx.ok('chain.as_matrix-shape', ok, f'{M.shape} != {want.shape}', None)
    if ok:
        ctx.close('chain.as_matrix', np.linalg.norm(M - want), 1e-12 * max(1.0, np.linalg.norm(want)), 'OpChain.as_matrix != coeff * kron(ops)', {'oids': c.oids, 'coeff': c.coeff})


def automaton_case(ctx, idx, rng):
    nn = int(rng.integers(2, 7))
    L = int(rng.integers(1, 8))
    t0, t1 = (0, 1) if rng.random() < 0.8 else (1, 0)
    if rng.random() < 0.1:
        t1 = t0          # both terminals the same state (pure loops)
    # state labels: 0..n-1, or arbitrary distinct ids (negative ones included: hash(-1) == hash(-2)); node list in ascending, descending or shuffled order
    lab_kind = str(rng.choice(['range', 'range', 'arbitrary', 'negative']))
    if lab_kind == 'range':
        labels = list(range(nn))
    elif lab_kind == 'negative':
        labels = [int(x) for x in rng.permutation(np.arange(-nn, 0))]
    else:
        labels = [int(x) for x in rng.choice(np.arange(-3, 40), size=nn, replace=False)]
    order_kind = str(rng.choice(['ascending', 'shuffled', 'descending']))
    order = sorted(range(nn), key=lambda k: labels[k])
    if order_kind == 'descending':
        order = order[::-1]
    elif order_kind == 'shuffled':
        order = [int(x) for x in rng.permutation(nn)]
    nodes = [ptn.AutOpNode(labels[k], [], [], 0) for k in order]
    au = ptn.AutOp(nodes, [], [labels[t0], labels[t1]])
    espec = []
    eid = [int(rng.integers(0, 3))]

    def add_edge(a, b, forced=None):
        kind = int(rng.integers(0, 6)) if forced is None else forced
        base = [(int(rng.integers(0, 3)), float(rng.choice([-1, .5, 1, 2, 0.0]) if forced is None else rng.choice([-1, .5, 1, 2])))]
        if rng.random() < 0.25:
            base.append((int(rng.integers(0, 3)), float(rng.choice([-1, .5, 1, 2]))))
        if kind == 0:
            opics, act = list(base), True
            f_op, f_act = (lambda i, b=base: b), (lambda i: True)
        elif kind == 1:
            par = int(rng.integers(0, 2))
            opics = list(base)
            act = (lambda i, p=par: i % 2 == p)
            f_op, f_act = (lambda i, b=base: b), act
        elif kind == 2:
            opics = (lambda i, b=base: [(o, c * (i + 1)) for o, c in b])
            act = True
            f_op, f_act = opics, (lambda i: True)
        elif kind == 5:
            # a site-dependent callable that fills and returns ONE reused list object (a buffer): every layer must get its own copy of the data
            buf = [None] * len(base)
            scal = [float(rng.choice([1.0, -2.0, 0.5, 2.0])) for _ in range(L)]
            def opics(i, b=base, buf=buf, scal=scal):
                for k_, (o, c) in enumerate(b):
                    buf[k_] = (o, c * scal[i])
                return buf
            act = True
            f_op, f_act = (lambda i, b=base, scal=scal: [(o, c * scal[i]) for o, c in b]), (lambda i: True)
        elif kind == 4:
            # coefficients stored per site for the sites where the edge exists ONLY (impurity / boundary terms in a dict keyed by site):
            # opics(i) raises KeyError off the activity domain -- honouring activity means not asking for data of an inactive edge
            dom = sorted(set(int(x) for x in rng.integers(0, L, size=int(rng.integers(1, 4)))))
            table = {i: [(o, c * float(rng.choice([1.0, -2.0, 0.5]))) for o, c in base] for i in dom}
            opics = (lambda i, t=table: t[i])
            act = (lambda i, t=table: i in t)
            f_op, f_act = opics, act
        else:
            lo = int(rng.integers(0, L))
            opics = (lambda i, b=base: [(o, c * (2.0 if i % 2 else 0.5)) for o, c in b])
            act = (lambda i, lo=lo: i >= lo)
            f_op, f_act = opics, act
        au.add_connect_edge(ptn.AutOpEdge(eid[0], [labels[a], labels[b]], opics, act))
        eid[0] += int(rng.integers(1, 3))
        espec.append((a, b, f_op, f_act))
    # planted path of the requested length (always-active edges), then random extra edges
    path = [t0] + [int(rng.integers(0, nn)) for _ in range(L - 1)] + [t1]
    planted = set()
    for a, b in zip(path[:-1], path[1:]):
        if (a, b) not in planted:
            planted.add((a, b))
            add_edge(a, b, forced=0 if rng.random() < 0.7 else 2)
    for _ in range(int(rng.integers(0, 8))):
        add_edge(int(rng.integers(0, nn)), int(rng.integers(0, nn)))
    # own DP
    polys = {t0: {(): 1.0}}
    for i in range(L):
        new = collections.defaultdict(dict)
        for (a, b, f_op, f_act) in espec:
            if a in polys and f_act(i):
                for w, c in polys[a].items():
                    for oid, co in f_op(i):
                        k = w + (int(oid),)
                        new[b][k] = new[b].get(k, 0) + c * co
        polys = new
    npaths = len(polys.get(t1, {}))
    if npaths == 0:
        ctx.case(('automaton', 'no-path'), nontrivial=False)
        ctx.event('automaton_without_path_filtered')
        return
    ref = refs.poly_clean(polys[t1])
    kinds = sorted({('loop' if a == b else 'edge') for a, b, _, _ in espec})
    ctx.case(('automaton', f'L{min(L, 4)}', f'n{nn}', 'same-terminals' if t0 == t1 else 'distinct-terminals', 'ids-' + lab_kind, 'nodes-' + order_kind) + tuple(kinds) + (f'edges{min(len(espec), 8)}',),
             sample={'L': L, 'node_ids_in_list_order': [labels[k] for k in order], 'terminals': [labels[t0], labels[t1]], 'edges': [(labels[a], labels[b]) for a, b, _, _ in espec]},
             info={'L': L, 'nodes': nn, 'terminals': [t0, t1], 'edges': [(a, b, [f(i) if g(i) else None for i in range(L)], [bool(g(i)) for i in range(L)]) for a, b, f, g in espec]})
    detail = ctx.cur_info
    g = ptn.OpGraph.from_automaton(au, L)
    st = refs.graph_structure_ok(g)
    ctx.ok('automaton.graph-structure', st is None, str(st), detail)
    ctx.ok('automaton.graph-is_consistent', bool(g.is_consistent()), 'is_consistent() False', detail)
    if st is not None:
        return
    poly, depth = refs.graph_poly(g)
    ctx.ok('automaton.graph-length', depth == L and g.length == L, f'length {g.length}/{depth} != {L}', detail)
    ctx.ok('automaton.polynomial==path-sum', poly == ref, f'graph denotes {dict(list(poly.items())[:4])}..., automaton paths sum to {dict(list(ref.items())[:4])}...', detail)
    ctx.ok('automaton.input-consistent-after', bool(au.is_consistent()), 'automaton inconsistent after unrolling', detail)
    # the unrolled graph (parallel multi-operator edges with partially overlapping ids are typical here) simplified on a copy: same meaning
    import copy as _copy
    g2 = _copy.deepcopy(g)
    g2.simplify()
    st2 = refs.graph_structure_ok(g2)
    if ctx.ok('automaton.simplified-structure', st2 is None and bool(g2.is_consistent()), f'after simplify: {st2}', detail):
        poly2, depth2 = refs.graph_poly(g2)
        ctx.ok('automaton.simplified-polynomial==path-sum', poly2 == ref and depth2 == L, f'simplified graph denotes {dict(list(poly2.items())[:4])}..., automaton paths sum to {dict(list(ref.items())[:4])}...', detail)
    if L <= 5:
        d = 2
        opmap = {k: rng.normal(size=(d, d)) for k in range(0, 3)}
        want = refs.poly_dense(ref, L, opmap, d)
        M = np.asarray(g.as_matrix(opmap, int(idx % 2)))
        if M.shape == want.shape:
            ctx.close('graph.as_matrix[automaton]', np.linalg.norm(M - want), 1e-11 * max(1.0, np.linalg.norm(want)), 'as_matrix != polynomial', detail)
    with np.errstate(all='ignore'):
        try:
            ptn.OpGraph.from_automaton(au, 0)
            ctx.ok('automaton.length0-rejected', False, 'length 0 accepted', detail)
        except ValueError:
            ctx.count('automaton.length0-rejected')


SPEC = {
    'id': 'C17',
    'rule': ('trees: 1..4 trees per list, any branching (1..3 children), exactly-zero couplings (also on every child of an inner node), leaves at different depths (ragged), leaf exactly on the terminal, shared '
             'operator ids, start sites 0..L-1, L 1..7; automata: 2..6 states, self loops, parallel edges, dead states, identical terminals, edges '
             'with site-dependent active() and opics() callables (total ones, and ones defined on the activity domain only), a planted path of the requested length (path-free automata are filtered by the '
             'own path count and counted); dense meanings of chains, trees and graphs (both directions) against the polynomial under random '
             'operator maps. Exact polynomial equality (dyadic coefficients). distinct = (family, L, size, shape labels).'),
    'deciding': ['trees.polynomial==padded-sum', 'trees.graph-is_consistent', 'trees.graph-length', 'automaton.polynomial==path-sum',
                 'automaton.graph-is_consistent', 'automaton.graph-length', 'graph.as_matrix[dir1]', 'graph.as_matrix[dir0]', 'tree.as_matrix', 'chain.as_matrix'],
    'workloads': [
        Workload('trees', trees_case, quick=1200, thorough=200000),
        Workload('automata', automaton_case, quick=1200, thorough=200000),
        Workload('chain-matrix', chain_matrix_case, quick=200, thorough=15000),
    ],
    'shards': {'quick': 2, 'thorough': 16},
    'assumptions': ['own dynamic programme over automaton edges / recursive tree polynomial'],
}
