"""C04 — inner products, expectation values and environment blocks match dense results."""
import numpy as np

from .. import gen, monitor, refs
from ..core import Workload
from ..env import ptn
from .c01 import _qd

TOL = 1e-11


def _close(ctx, mon, got, want, scale, detail):
    ctx.close(mon, float(np.linalg.norm(np.asarray(got) - np.asarray(want))), TOL * max(float(scale), 1e-300), '', detail)


def _setup(rng, Lmax=6, maxdim=1024):
    L = int(rng.choice([1, 2, 3, 4, 5, 6][:Lmax]))
    src = str(rng.choice(['random', 'random', 'model', 'hermitian', 'structured-blocks']))
    if src == 'model' and L >= 2:
        name = str(rng.choice(['ising', 'xxz', 'xxz1', 'bose3', 'fermi']))
        d = gen.MODEL_D[name]
        while d ** L > maxdim:
            L -= 1
        H = gen.model(name, L, gen.generic_params(rng))
        qd = H.qd
        herm = True
    else:
        d = int(rng.choice([1, 2, 3]))
        while d ** L > maxdim:
            L -= 1
        qd = _qd(rng, d, str(rng.choice(['zero', 'unsorted', 'pairs', 'huge'])))
        if src == 'structured-blocks':
            # hand-written automaton style: zero blocks, identities, c*I + g*X, projectors, shifts ... (no quantum numbers)
            d = max(d, 2)
            while d ** L > maxdim:
                L -= 1
            qd = np.zeros(d, dtype=int)
            H = gen.structured_block_mpo(rng, d, L, Dmax=3, cplx=bool(rng.random() < 0.7))
            herm = False
        elif src == 'hermitian':
            H = gen.rand_hermitian_mpo(rng, qd, L, Dmax=2)
            herm = True
        else:
            H = gen.rand_mpo(rng, qd, L, Dmax=3, kind=str(rng.choice(['complex', 'real', 'int'])))
            herm = False
    q0 = int(rng.integers(-1, 2))
    psi = gen.rand_mps(rng, qd, L, str(rng.choice(['random', 'max', 'one', 'over'])), Dmax=4, kind=str(rng.choice(['complex', 'real', 'int'])), q0=q0)
    chi = gen.rand_mps(rng, qd, L, str(rng.choice(['random', 'max', 'one'])), Dmax=3, kind=str(rng.choice(['complex', 'complex', 'real'])), q0=q0)
    return L, len(qd), qd, H, psi, chi, src, herm


def scalars_case(ctx, idx, rng):
    L, d, qd, H, psi, chi, src, herm = _setup(rng)
    if idx % 5 == 4:
        chi = psi                  # the SAME object as bra and ket (vdot(psi, psi), operator_inner_product(psi, H, psi))
        src = src + '+bra-is-ket'
    elif idx % 5 == 3:
        # the bra SHARES most site tensors by reference with the ket (correlator-type bra built from list(psi.A) with one or two sites replaced)
        chi, rep = gen.partially_shared_mps(rng, psi)
        src = src + '+bra-shares-tensors'
    vp, vc, mH = refs.dense_state(psi.A), refs.dense_state(chi.A), refs.dense_operator(H.A)
    ctx.case(('scalars', f'L{L}', f'd{d}', src, 'real-ket' if not np.iscomplexobj(psi.A[0]) else 'complex-ket'),
             sample={'qd': qd, 'qD_psi': psi.qD, 'qD_chi': chi.qD, 'qD_H': H.qD})
    detail = {'qd': qd, 'psi': {'qD': psi.qD, 'A': psi.A}, 'chi': {'qD': chi.qD, 'A': chi.A}, 'H': {'qD': H.qD, 'A': H.A}}
    # natural scales: products of the tensor norms (rounding errors of the contractions are relative to these, not to the possibly much
    # smaller norms of the contracted objects)
    ts = lambda T: float(np.prod([max(np.linalg.norm(a), 1e-300) for a in T.A]))
    np_, nc, nH = ts(psi), ts(chi), ts(H)
    norm_psi = float(np.linalg.norm(vp))
    with monitor.write_protected(psi, chi, H):
        _close(ctx, 'vdot.first-argument-conjugated', ptn.vdot(chi, psi), np.vdot(vc, vp), np_ * nc, detail)
        _close(ctx, 'vdot.swap', ptn.vdot(psi, chi), np.vdot(vp, vc), np_ * nc, detail)
        _close(ctx, 'norm', ptn.norm(psi), norm_psi, np_, detail)
        _close(ctx, 'operator_average', ptn.operator_average(psi, H), np.vdot(vp, mH @ vp), nH * np_ ** 2, detail)
        _close(ctx, 'operator_inner_product', ptn.operator_inner_product(chi, H, psi), np.vdot(vc, mH @ vp), nH * np_ * nc, detail)
    if idx % 4 == 1:
        # a numerically vanishing state: the difference of psi and a copy perturbed at 1e-9 .. 1e-12 per tensor. <d|d> is rounding noise of EITHER sign
        # relative to the natural scale; norm and inner products must still agree with the dense values within that scale (a NaN is not a number)
        import copy as _copy
        p2 = _copy.deepcopy(psi)
        eps_ = float(rng.choice([1e-9, 1e-10, 1e-12]))
        p2.A = [np.asarray(t, dtype=complex) * (1 + eps_ * complex(rng.normal(), rng.normal())) for t in p2.A]
        dd = psi - p2
        vd = refs.dense_state(dd.A)
        nd = ts(dd)
        # the square root amplifies the rounding error of <d|d> (~TOL nd^2) to sqrt(TOL) nd near zero
        _close(ctx, 'norm[near-cancelling-difference]', ptn.norm(dd), float(np.linalg.norm(vd)), nd / np.sqrt(TOL), detail)
        _close(ctx, 'vdot[near-cancelling-difference]', ptn.vdot(dd, dd), np.vdot(vd, vd), nd * nd, detail)
    if idx % 2 == 0:
        # history: the same objects edited in place, all scalars asked again
        i = int(rng.integers(0, L))
        for T, c in ((psi, 2.0), (H, -3.0), (chi, 0.5)):
            T.A[i] = T.A[i] * 1.0 if np.issubdtype(T.A[i].dtype, np.integer) else T.A[i]
            T.A[i] *= c
        vp2, vc2, mH2 = refs.dense_state(psi.A), refs.dense_state(chi.A), refs.dense_operator(H.A)
        np2, nc2, nH2 = ts(psi), ts(chi), ts(H)
        _close(ctx, 'vdot[after-inplace-edit]', ptn.vdot(chi, psi), np.vdot(vc2, vp2), np2 * nc2, detail)
        _close(ctx, 'norm[after-inplace-edit]', ptn.norm(psi), np.linalg.norm(vp2), np2, detail)
        _close(ctx, 'operator_average[after-inplace-edit]', ptn.operator_average(psi, H), np.vdot(vp2, mH2 @ vp2), nH2 * np2 ** 2, detail)
        _close(ctx, 'operator_inner_product[after-inplace-edit]', ptn.operator_inner_product(chi, H, psi), np.vdot(vc2, mH2 @ vp2), nH2 * np2 * nc2, detail)
        mH, nH = mH2, nH2
    if d ** (2 * L) <= 4096:
        rho = gen.rand_mpo(rng, qd, L, Dmax=3, kind='complex')
        mr = refs.dense_operator(rho.A)
        with monitor.write_protected(rho, H):
            _close(ctx, 'operator_density_average', ptn.operator_density_average(rho, H), np.trace(mH @ mr), ts(H) * ts(rho), detail)


def bond_gauge_case(ctx, idx, rng):
    """Operator and states in a badly scaled BOND BASIS: a diagonal gauge by exact powers of two (up to 2**+-60 between the channels of one bond) on the
    interior bonds of H, psi and chi. The objects are unchanged bit for bit (dense references are taken BEFORE the gauge), every product of matching entries
    is the same number as before, so all scalars must come out as accurately as without the gauge: tolerances use the natural scales of the ungauged
    tensors. (Entries of an environment block that are 1e-16 of the block are not noise here -- the neighbouring tensor re-amplifies them.)"""
    L, d, qd, H, psi, chi, src, herm = _setup(rng, Lmax=5)
    if L < 2:
        ctx.case(('bond-gauge', 'single-site'), nontrivial=False)
        return
    for T in (H, psi, chi):
        T.A = [np.array(a, dtype=complex if np.iscomplexobj(a) else float) for a in T.A]
    vp, vc, mH = refs.dense_state(psi.A), refs.dense_state(chi.A), refs.dense_operator(H.A)
    ts = lambda T: float(np.prod([max(np.linalg.norm(a), 1e-300) for a in T.A]))
    np_, nc, nH = ts(psi), ts(chi), ts(H)
    which = ('operator', 'states', 'all')[idx % 3]
    big = 0
    if which in ('operator', 'all'):
        big = max(big, gen.bond_gauge_pow2(rng, H))
    if which in ('states', 'all'):
        big = max(big, gen.bond_gauge_pow2(rng, psi), gen.bond_gauge_pow2(rng, chi))
    ctx.case(('bond-gauge', f'L{L}', f'd{d}', src, which, 'range>=2^45' if big >= 45 else ('range>=2^20' if big >= 20 else 'no-gauge-drawn')),
             nontrivial=big > 0, sample={'qd': qd, 'qD_H': H.qD, 'gauge_on': which, 'largest_exponent': big})
    detail = {'qd': qd, 'psi': {'qD': psi.qD, 'A': psi.A}, 'chi': {'qD': chi.qD, 'A': chi.A}, 'H': {'qD': H.qD, 'A': H.A}, 'gauge_on': which}
    with monitor.write_protected(psi, chi, H):
        _close(ctx, 'vdot[bond-gauge]', ptn.vdot(chi, psi), np.vdot(vc, vp), np_ * nc, detail)
        _close(ctx, 'norm[bond-gauge]', ptn.norm(psi), float(np.linalg.norm(vp)), np_, detail)
        _close(ctx, 'operator_average[bond-gauge]', ptn.operator_average(psi, H), np.vdot(vp, mH @ vp), nH * np_ ** 2, detail)
        _close(ctx, 'operator_inner_product[bond-gauge]', ptn.operator_inner_product(chi, H, psi), np.vdot(vc, mH @ vp), nH * np_ * nc, detail)


def _ldexp(z, k):
    z = complex(z)
    return complex(np.ldexp(z.real, k), np.ldexp(z.imag, k))


def _scale_sites(T, ks):
    for i, k in enumerate(ks):
        if k:
            a = T.A[i]
            T.A[i] = (np.ldexp(a.real, k) + 1j * np.ldexp(a.imag, k)) if np.iscomplexobj(a) else np.ldexp(a.astype(float), k)


def extreme_scale_case(ctx, idx, rng):
    """Site tensors scaled by exact powers of two (2**-420 .. 2**420 per site; compensating pairs, everything tiny, everything huge) such that every
    partial contraction from the right stays representable: the scalars must equal the unscaled dense values times the exactly known power of two."""
    L, d, qd, H, psi, chi, src, herm = _setup(rng)
    for T in (psi, chi, H):
        T.A = [np.asarray(a, dtype=complex if np.iscomplexobj(a) else float) for a in T.A]
    vp, vc, mH = refs.dense_state(psi.A), refs.dense_state(chi.A), refs.dense_operator(H.A)
    ts = lambda T: float(np.prod([max(np.linalg.norm(a), 1e-300) for a in T.A]))
    np_, nc, nH = ts(psi), ts(chi), ts(H)
    EXP = [0, 0, 140, -140, 280, -280, 420, -420]

    def draw(limit):
        for _ in range(200):
            k = [int(rng.choice(EXP)) for _ in range(L)]
            if np.all(np.abs(np.cumsum(k[::-1])) <= limit) and any(k):
                return k
        k = [0] * L
        k[int(rng.integers(0, L))] = int(rng.choice([-420, 420]))
        return k
    kp = draw(450)              # norm / operator_average square the ket: suffix sums of 2 k within +-900
    kc = draw(450)
    if np.any(np.abs(np.cumsum((np.array(kp) + np.array(kc))[::-1])) > 900):
        kc = [0] * L
    kh = draw(120) if rng.random() < 0.3 else [0] * L
    if np.any(np.abs(np.cumsum((2 * np.array(kp) + np.array(kh))[::-1])) > 900) or np.any(np.abs(np.cumsum((np.array(kp) + np.array(kc) + np.array(kh))[::-1])) > 900):
        kh = [0] * L
    _scale_sites(psi, kp); _scale_sites(chi, kc); _scale_sites(H, kh)
    Kp, Kc, Kh = int(sum(kp)), int(sum(kc)), int(sum(kh))
    cls = 'compensated' if Kp == 0 else ('tiny' if Kp < 0 else 'huge')
    ctx.case(('extreme-scales', f'L{L}', f'd{d}', src, cls, 'H-scaled' if any(kh) else 'H-plain', 'bra-scaled' if any(kc) else 'bra-plain'),
             sample={'binary_exponents_ket': kp, 'binary_exponents_bra': kc, 'binary_exponents_H': kh, 'qd': qd})
    detail = {'qd': qd, 'binary_exponents_ket': kp, 'binary_exponents_bra': kc, 'binary_exponents_H': kh, 'psi(unscaled dense)': vp, 'qD_psi': psi.qD, 'qD_chi': chi.qD}

    def cmp(mon, got, K, want, scale):
        g = complex(got)
        if not ctx.ok(mon + '.finite', bool(np.isfinite(g.real) and np.isfinite(g.imag)), f'{mon}: {got!r} for tensors scaled by 2**{kp} (ket)', detail):
            return
        _close(ctx, mon, _ldexp(g, -K), want, scale, detail)
    with monitor.write_protected(psi, chi, H):
        cmp('vdot[extreme-scales]', ptn.vdot(chi, psi), Kp + Kc, np.vdot(vc, vp), np_ * nc)
        cmp('vdot.swap[extreme-scales]', ptn.vdot(psi, chi), Kp + Kc, np.vdot(vp, vc), np_ * nc)
        cmp('norm[extreme-scales]', ptn.norm(psi), Kp, float(np.linalg.norm(vp)), np_)
        cmp('operator_average[extreme-scales]', ptn.operator_average(psi, H), 2 * Kp + Kh, np.vdot(vp, mH @ vp), nH * np_ ** 2)
        cmp('operator_inner_product[extreme-scales]', ptn.operator_inner_product(chi, H, psi), Kp + Kc + Kh, np.vdot(vc, mH @ vp), nH * np_ * nc)


_LONG_H = {}


def long_chain_case(ctx, idx, rng):
    """Chains of 40..320 sites (far beyond the dense reach): vdot / norm / operator_average / operator_inner_product against own transfer-matrix
    contractions (mantissa/exponent form for the overlaps, so states whose norm drifts by hundreds of binary orders of magnitude are covered)."""
    name = ('ising', 'xxz')[idx % 2]
    L = int(rng.choice([40, 80, 160, 320])) if name == 'ising' else int(rng.choice([40, 80, 120]))
    key = (name, L, idx % 3)
    if key not in _LONG_H:
        # parameters from a generator of the cache key alone: the case generator is consumed identically whether or not the operator is cached (replayable cases)
        _LONG_H[key] = gen.model(name, L, gen.generic_params(np.random.default_rng([ctx.seed, L, idx % 3, len(name)])))
    H = _LONG_H[key]
    psi = gen.rand_mps(rng, H.qd, L, 'random', Dmax=int(rng.choice([2, 4])), kind=str(rng.choice(['complex', 'real'])))
    m2, e2 = refs.mps_overlap_log(psi.A, psi.A)
    if m2 == 0:
        ctx.case(('long-chain', name, 'zero-state'), nontrivial=False)
        return
    # bring log2(norm) to a target in [-400, 400] by exact per-site powers of two (vdot of the state with itself squares it)
    base = (e2 + np.log2(abs(m2))) / 2
    target = float(rng.choice([-400, -200, 0, 0, 200, 400]))
    tot = int(round(target - base))
    per, rest = (tot // L, tot % L) if tot >= 0 else (-((-tot) // L), -((-tot) % L))
    for i in range(L):
        k = per + (int(np.sign(rest)) if i < abs(rest) else 0)
        if k:
            psi.A[i] = (np.ldexp(psi.A[i].real, k) + 1j * np.ldexp(psi.A[i].imag, k)) if np.iscomplexobj(psi.A[i]) else np.ldexp(psi.A[i], k)
    # bra: the ket plus a small perturbation on every site (overlap of order one relative to the norms)
    chi = ptn.MPS(psi.qd, [q.copy() for q in psi.qD], fill='postpone')
    chi.A = []
    for i, a in enumerate(psi.A):
        mask = np.add.outer(np.add.outer(psi.qd, psi.qD[i]), -psi.qD[i + 1]) == 0
        noise = rng.normal(size=a.shape) + 1j * rng.normal(size=a.shape)
        chi.A.append(np.asarray(a, dtype=complex) + (0.5 / L) * float(np.linalg.norm(a)) / np.sqrt(max(a.size, 1)) * np.where(mask, noise, 0))
    ctx.case(('long-chain', name, f'L{L}', f'log2norm~{int(target)}'), sample={'model': name, 'L': L, 'bond_dims': psi.bond_dims[:12], 'log2_norm_target': target})
    detail = {'model': name, 'L': L, 'log2_norm_target': target, 'qd': psi.qd}

    def rel(mon, got, want_m, want_e, scale_log2, extra=0.0):
        # compare got with want_m * 2**want_e relative to 2**scale_log2
        g = complex(got)
        if not ctx.ok(mon + '.finite', bool(np.isfinite(g.real) and np.isfinite(g.imag)), f'{got!r}', detail):
            return
        k = int(round(scale_log2))
        dev = abs(_ldexp(g, -k) - want_m * 2.0 ** (want_e - k))
        ctx.close(mon, dev, 1e-9 + extra, f'deviation relative to 2**{k}', detail)
    mpp, epp = refs.mps_overlap_log(psi.A, psi.A)
    mcc, ecc = refs.mps_overlap_log(chi.A, chi.A)
    mcp, ecp = refs.mps_overlap_log(chi.A, psi.A)
    # conditioning of the contraction on THIS state: double versus long double evaluation of the same transfer-matrix product. Three independent
    # evaluations (library, double reference, long-double reference) of a 120-site overlap were seen to differ by 4e-8 / 9e-9; the tolerance carries
    # 50 x the measured double-precision error of the reference itself
    xpp, fpp = refs.mps_overlap_log(psi.A, psi.A, extended=True)
    xcp, fcp = refs.mps_overlap_log(chi.A, psi.A, extended=True)
    cond_pp = float(abs(np.clongdouble(mpp) * np.ldexp(np.longdouble(1), epp - fpp) - xpp) / max(abs(xpp), 1e-300))
    cond_cp = float(abs(np.clongdouble(mcp) * np.ldexp(np.longdouble(1), ecp - fcp) - xcp) / max(abs(xcp), 1e-300))
    cond = 50.0 * max(cond_pp, cond_cp)
    ctx.event('long_chain_contraction_error>1e-10' if cond > 50e-10 else 'long_chain_contraction_error<=1e-10')
    lp = (epp + np.log2(abs(mpp))) / 2
    lc = (ecc + np.log2(abs(mcc))) / 2
    with monitor.write_protected(psi, chi, H):
        rel('long.vdot', ptn.vdot(chi, psi), mcp, ecp, lp + lc, cond)
        rel('long.vdot.swap', ptn.vdot(psi, chi), np.conj(mcp), ecp, lp + lc, cond)
        rel('long.norm', ptn.norm(psi), np.sqrt(abs(mpp)) * 2.0 ** ((epp % 2) / 2), epp // 2, lp, cond)
        # expectation values: normalise by exact powers of two first (so that plain transfer-matrix references stay in range)
        kp = int(round(lp))
        sp = ptn.MPS(psi.qd, [q.copy() for q in psi.qD], fill='postpone')
        sp.A = [np.array(a, copy=True) for a in psi.A]
        per2, rest2 = (-kp // L, -kp % L) if -kp >= 0 else (-((kp) // L), -((kp) % L))
        for i in range(L):
            k = per2 + (int(np.sign(rest2)) if i < abs(rest2) else 0)
            if k:
                sp.A[i] = (np.ldexp(sp.A[i].real, k) + 1j * np.ldexp(sp.A[i].imag, k)) if np.iscomplexobj(sp.A[i]) else np.ldexp(sp.A[i], k)
        want = refs.mpo_element(sp.A, H.A, sp.A)
        nH = float(np.sum([np.linalg.norm(w) for w in H.A]))
        got = ptn.operator_average(sp, H)
        ctx.close('long.operator_average', abs(complex(got) - want), (1e-9 + cond) * max(1.0, nH), 'operator_average on a long chain', detail)
        got2 = ptn.operator_inner_product(sp, H, sp)
        ctx.close('long.operator_inner_product', abs(complex(got2) - want), (1e-9 + cond) * max(1.0, nH), 'operator_inner_product on a long chain', detail)


def huge_bond_case(ctx, idx, rng):
    """Short chains (3-4 sites) with very large, redundant bond dimensions (200..400) and MPO bonds 5..9: per-site work arrays beyond 2**20 entries
    (anything that switches to a blocked / batched contraction above a size threshold), dense oracle still tiny."""
    import pytenet.operation as po
    L = int(rng.choice([3, 3, 4]))
    d = int(rng.choice([2, 2, 3]))
    charged = bool(rng.random() < 0.4)
    qd = (np.arange(d) - d // 2) if charged else np.zeros(d, dtype=int)
    D = [1] + [int(rng.integers(200, 401)) for _ in range(L - 1)] + [1]
    if charged:
        q0 = int(rng.integers(-1, 2))
        qD = [np.array([q0])] + [rng.integers(-L, L + 1, size=D[i]) for i in range(1, L)] + [np.array([int(rng.integers(-1, 2))])]
    else:
        qD = [np.zeros(Di, dtype=int) for Di in D]
    r = np.random.default_rng(int(rng.integers(0, 2 ** 31)))
    psi = ptn.MPS(qd, qD, fill='random', rng=r)
    chi = ptn.MPS(qd, [q.copy() for q in qD], fill='random', rng=r)
    H = gen.rand_mpo(rng, qd, L, Dmax=9, kind='complex', boundary=(0, 0))
    while max(H.bond_dims) < 5:
        H = gen.rand_mpo(rng, qd, L, Dmax=9, kind='complex', boundary=(0, 0))
    vp, vc, mH = refs.dense_state(psi.A), refs.dense_state(chi.A), refs.dense_operator(H.A)
    if np.linalg.norm(vp) == 0 or np.linalg.norm(vc) == 0:
        ctx.case(('huge-bonds', 'zero-state'), nontrivial=False)
        return
    ts = lambda T: float(np.prod([max(np.linalg.norm(a), 1e-300) for a in T.A]))
    np_, nc, nH = ts(psi), ts(chi), ts(H)
    ctx.case(('huge-bonds', f'L{L}', f'd{d}', 'charged' if charged else 'uncharged', f'Dw{max(H.bond_dims)}'), sample={'L': L, 'd': d, 'mps_bond_dims': D, 'mpo_bond_dims': H.bond_dims})
    detail = {'L': L, 'd': d, 'mps_bond_dims': D, 'mpo_bond_dims': H.bond_dims, 'qd': qd}
    _close(ctx, 'huge.vdot', ptn.vdot(chi, psi), np.vdot(vc, vp), np_ * nc, detail)
    _close(ctx, 'huge.operator_average', ptn.operator_average(psi, H), np.vdot(vp, mH @ vp), nH * np_ ** 2, detail)
    _close(ctx, 'huge.operator_inner_product', ptn.operator_inner_product(chi, H, psi), np.vdot(vc, mH @ vp), nH * np_ * nc, detail)
    # environment blocks: right blocks from the library, left block by the library's left step; <psi|H|psi> reassembled at a random cut
    BR = po.compute_right_operator_blocks(psi, H)
    BL = np.array([[[1]]], dtype=complex)
    cut = int(rng.integers(0, L))
    for i in range(cut):
        BL = po.contraction_operator_step_left(psi.A[i], psi.A[i], H.A[i], BL)
    val = np.vdot(psi.A[cut].reshape(-1), po.apply_local_hamiltonian(BL, BR[cut], H.A[cut], psi.A[cut]).reshape(-1))
    _close(ctx, 'huge.blocks-reassemble-expectation-value', val, np.vdot(vp, mH @ vp), nH * np_ ** 2, dict(detail, cut=cut))


def wide_operator_case(ctx, idx, rng):
    """Operators with WIDE bonds (64..130) on short chains with small states, and every combination of real and complex operands (real states with a complex
    operator whose wide bond sits at the last site, complex bra with a real ket, ...): work arrays allocated from the dtypes of SOME of the operands,
    bond-size thresholds of blocked contractions. Dense reach (L = 2, 3; d = 2, 3)."""
    L = int(rng.choice([2, 3]))
    d = int(rng.choice([2, 2, 3]))
    qd = np.zeros(d, dtype=int)
    Dw = [1] + [int(rng.integers(64, 131)) if rng.random() < 0.7 else int(rng.integers(2, 40)) for _ in range(L - 1)] + [1]
    if max(Dw) < 64:
        Dw[-2] = int(rng.integers(64, 131))
    kinds = [('real', 'real', 'complex'), ('real', 'real', 'complex'), ('complex', 'real', 'real'), ('real', 'complex', 'complex'), ('real', 'real', 'real'),
             ('complex', 'complex', 'complex'), ('real', 'real', 'complex-last-site-only')][idx % 7]
    def tensors(shape_list, kind):
        out = []
        for j, sh in enumerate(shape_list):
            a = rng.normal(size=sh)
            if kind == 'complex' or (kind == 'complex-last-site-only' and j == len(shape_list) - 1):
                a = a + 1j * rng.normal(size=sh)
            out.append(a / np.sqrt(max(sh[-2], 1)))
        return out
    H = ptn.MPO(qd, [np.zeros(D, dtype=int) for D in Dw], fill='postpone')
    H.A = tensors([(d, d, Dw[i], Dw[i + 1]) for i in range(L)], kinds[2])
    Dp = [1] + [int(rng.integers(1, 5)) for _ in range(L - 1)] + [1]
    Dc = [1] + [int(rng.integers(1, 5)) for _ in range(L - 1)] + [1]
    psi = ptn.MPS(qd, [np.zeros(D, dtype=int) for D in Dp], fill='postpone')
    psi.A = tensors([(d, Dp[i], Dp[i + 1]) for i in range(L)], kinds[1])
    chi = ptn.MPS(qd, [np.zeros(D, dtype=int) for D in Dc], fill='postpone')
    chi.A = tensors([(d, Dc[i], Dc[i + 1]) for i in range(L)], kinds[0])
    vp, vc, mH = refs.dense_state(psi.A), refs.dense_state(chi.A), refs.dense_operator(H.A)
    ts = lambda T: float(np.prod([max(np.linalg.norm(a), 1e-300) for a in T.A]))
    np_, nc, nH = ts(psi), ts(chi), ts(H)
    ctx.case(('wide-operator-bonds', f'L{L}', f'd{d}', 'bra-%s/ket-%s/op-%s' % kinds), sample={'L': L, 'd': d, 'mpo_bond_dims': Dw, 'dtypes(bra, ket, operator)': kinds})
    detail = {'L': L, 'd': d, 'mpo_bond_dims': Dw, 'kinds': kinds, 'psi': psi.A, 'chi': chi.A}
    with monitor.write_protected(psi, chi, H):
        _close(ctx, 'wide.operator_average', ptn.operator_average(psi, H), np.vdot(vp, mH @ vp), nH * np_ ** 2, detail)
        _close(ctx, 'wide.operator_inner_product', ptn.operator_inner_product(chi, H, psi), np.vdot(vc, mH @ vp), nH * np_ * nc, detail)
        _close(ctx, 'wide.vdot', ptn.vdot(chi, psi), np.vdot(vc, vp), np_ * nc, detail)


def steps_case(ctx, idx, rng):
    import pytenet.operation as po
    d = int(rng.integers(1, 4))
    Da, Da2, Db, Db2, Dw, Dw2 = (int(x) for x in rng.integers(1, 5, size=6))
    if idx % 3 == 2:
        # strongly unequal dimensions (a bond much larger than d^2 times its partner): contraction-order heuristics
        Da, Da2, Db, Db2, Dw, Dw2 = (int(x) for x in rng.choice([1, 1, 2, 3, 5, 9, 14, 21], size=6))
    c = lambda *s: gen.entries(rng, s, 'complex')
    A = c(d, Da2, Da); B = c(d, Db2, Db); W = c(d, d, Dw2, Dw)
    structured = bool(idx % 2) and d >= 2
    if structured:
        # operator tensor made of structured blocks (zero blocks, c*I + g*X, projectors, shifts, ...) instead of dense random entries
        W = gen.structured_operator_tensor(rng, d, Dw2, Dw, cplx=bool(idx % 4 == 1))
    ctx.case(('steps', f'd{d}', 'structured-operator-blocks' if structured else 'dense-operator', 'unequal-dims' if idx % 3 == 2 else 'small-dims'), sample={'A': A.shape, 'B': B.shape, 'W': W.shape})
    R = c(Da, Db)
    detail = {'A': A, 'B': B, 'W': W}
    with monitor.write_protected(A, B, W, R):
        got = po.contraction_step_right(A, B, R)
    want = np.einsum('sxa,ab,syb->xy', A, R, B.conj())
    _close(ctx, 'contraction_step_right', got, want, np.linalg.norm(want), detail)
    Lm = c(Da2, Db2)
    got = po.contraction_step_left(A, B, Lm)
    want = np.einsum('ab,sax,sby->xy', Lm, A, B.conj())
    _close(ctx, 'contraction_step_left', got, want, np.linalg.norm(want), detail)
    R3 = c(Da, Dw, Db)
    got = po.contraction_operator_step_right(A, B, W, R3)
    want = np.einsum('txa,stvw,syb,awb->xvy', A, W, B.conj(), R3)
    _close(ctx, 'contraction_operator_step_right', got, want, np.linalg.norm(want), detail)
    L3 = c(Da2, Dw2, Db2)
    got = po.contraction_operator_step_left(A, B, W, L3)
    want = np.einsum('avb,tax,stvw,sby->xwy', L3, A, W, B.conj())
    _close(ctx, 'contraction_operator_step_left', got, want, np.linalg.norm(want), detail)
    # local Hamiltonian and bond contraction with arbitrary blocks
    Lh = c(Da2, Dw2, Db2); Rh = c(Da, Dw, Db); X = c(d, Da2, Da)
    got = ptn.apply_local_hamiltonian(Lh, Rh, W, X)
    want = np.einsum('avx,bwy,stvw,tab->sxy', Lh, Rh, W, X)
    _close(ctx, 'apply_local_hamiltonian', got, want, np.linalg.norm(want), detail)
    Lb = c(Da, Dw, Db); Rb = c(Da2, Dw, Db2); C = c(Da, Da2)
    got = ptn.apply_local_bond_contraction(Lb, Rb, C)
    want = np.einsum('awx,bwy,ab->xy', Lb, Rb, C)
    _close(ctx, 'apply_local_bond_contraction', got, want, np.linalg.norm(want), detail)


def _left_blocks(psi, H):
    import pytenet.operation as po
    BL = [np.ones((1, 1, 1), dtype=complex)]
    for i in range(psi.nsites - 1):
        BL.append(po.contraction_operator_step_left(psi.A[i], psi.A[i], H.A[i], BL[i]))
    return BL


def projection_case(ctx, idx, rng):
    L, d, qd, H, psi, chi, src, herm = _setup(rng, Lmax=5, maxdim=512)
    mH = refs.dense_operator(H.A)
    nH = float(np.prod([max(np.linalg.norm(w), 1e-300) for w in H.A]))      # natural scale of the operator
    an = [max(float(np.linalg.norm(a)), 1e-300) for a in psi.A]

    def envscale(skip):
        return float(np.prod([an[j] for j in range(L) if j not in skip])) ** 2
    ctx.case(('projection', f'L{L}', f'd{d}', src, 'hermitian' if herm else 'general'), sample={'qd': qd, 'qD_psi': psi.qD, 'qD_H': H.qD})
    detail = {'qd': qd, 'psi': {'qD': psi.qD, 'A': psi.A}, 'H': {'qD': H.qD, 'A': H.A}}
    with monitor.write_protected(psi, H):
        BR = ptn.compute_right_operator_blocks(psi, H)
        BL = _left_blocks(psi, H)
    # independent right-block recursion
    ref = np.ones((1, 1, 1), dtype=complex)
    refsR = [None] * L
    refsR[L - 1] = ref
    for i in reversed(range(L - 1)):
        ref = np.einsum('txa,stvw,syb,awb->xvy', psi.A[i + 1], H.A[i + 1], psi.A[i + 1].conj(), ref)
        refsR[i] = ref
    ctx.ok('right-blocks.count', len(BR) == L, f'{len(BR)} blocks for L={L}', detail)
    if idx % 3 == 0 and len(BR) == L:
        def later(BR=BR, refsR=refsR, an=an, H=H, L=L):
            for i in range(L):
                if BR[i].shape == refsR[i].shape:
                    sc_i = float(np.prod([an[j] ** 2 * max(np.linalg.norm(H.A[j]), 1e-300) for j in range(i + 1, L)])) if i < L - 1 else 1.0
                    _close(ctx, 'right-blocks.still-valid-after-later-calls', BR[i], refsR[i], sc_i, None)
        ctx.hold(later)
    for i in range(L):
        if BR[i].shape != refsR[i].shape:
            ctx.ok('right-blocks.shape', False, f'block {i} shape {BR[i].shape} != {refsR[i].shape}', detail)
            return
        sc_i = float(np.prod([an[j] ** 2 * max(np.linalg.norm(H.A[j]), 1e-300) for j in range(i + 1, L)])) if i < L - 1 else 1.0
        _close(ctx, 'right-blocks.dense', BR[i], refsR[i], sc_i, detail)
    scale_env = nH * float(np.prod([max(np.linalg.norm(a), 1e-300) for a in psi.A])) ** 2
    A = psi.A
    c = lambda *s: gen.entries(rng, s, 'complex')
    for i in range(L):
        # one-site
        X, Y = c(*A[i].shape), c(*A[i].shape)
        got = np.vdot(Y, ptn.apply_local_hamiltonian(BL[i], BR[i], H.A[i], X))
        vx = refs.dense_state(A[:i] + [X] + A[i + 1:]); vy = refs.dense_state(A[:i] + [Y] + A[i + 1:])
        want = np.vdot(vy, mH @ vx)
        _close(ctx, 'projection.one-site', got, want, nH * envscale((i,)) * np.linalg.norm(X) * np.linalg.norm(Y), detail)
        if herm and X.size <= 64:
            n = X.size
            M = np.zeros((n, n), dtype=complex)
            for k in range(n):
                e = np.zeros(n, dtype=complex); e[k] = 1
                M[:, k] = ptn.apply_local_hamiltonian(BL[i], BR[i], H.A[i], e.reshape(X.shape)).reshape(-1)
            ctx.close('heff.hermitian[one-site]', np.linalg.norm(M - M.conj().T), 1e-10 * np.linalg.norm(M) + 1e-12 * min(scale_env / max(np.linalg.norm(psi.A[i]), 1e-150) ** 2, 1e300), 'effective Hamiltonian not Hermitian for a Hermitian MPO', detail)
        if i < L - 1:
            # two-site
            sh = (d * d, A[i].shape[1], A[i + 1].shape[2])
            X, Y = c(*sh), c(*sh)
            Wm = np.einsum('stab,uvbc->sutvac', H.A[i], H.A[i + 1]).reshape(d * d, d * d, H.A[i].shape[2], H.A[i + 1].shape[3])
            got = np.vdot(Y, ptn.apply_local_hamiltonian(BL[i], BR[i + 1], Wm, X))
            vx = refs.dense_state(A[:i] + [X] + A[i + 2:]); vy = refs.dense_state(A[:i] + [Y] + A[i + 2:])
            _close(ctx, 'projection.two-site', got, np.vdot(vy, mH @ vx), nH * envscale((i, i + 1)) * np.linalg.norm(X) * np.linalg.norm(Y), detail)
            # the repository's own pair merge gives the same effective operator
            Wr = ptn.merge_mpo_tensor_pair(H.A[i], H.A[i + 1])
            _close(ctx, 'projection.two-site[repo-merge]', np.vdot(Y, ptn.apply_local_hamiltonian(BL[i], BR[i + 1], Wr, X)), np.vdot(vy, mH @ vx),
                   nH * envscale((i, i + 1)) * np.linalg.norm(X) * np.linalg.norm(Y), detail)
            # zero-site (bond between i and i+1)
            Dm = A[i].shape[2]
            C, E = c(Dm, Dm), c(Dm, Dm)
            got = np.vdot(E, ptn.apply_local_bond_contraction(BL[i + 1], BR[i], C))
            ax = np.einsum('ab,sbc->sac', C, A[i + 1]); ay = np.einsum('ab,sbc->sac', E, A[i + 1])
            vx = refs.dense_state(A[:i + 1] + [ax] + A[i + 2:]); vy = refs.dense_state(A[:i + 1] + [ay] + A[i + 2:])
            _close(ctx, 'projection.zero-site', got, np.vdot(vy, mH @ vx), nH * envscale(()) * np.linalg.norm(C) * np.linalg.norm(E), detail)
            if herm and Dm * Dm <= 64:
                n = Dm * Dm
                M = np.zeros((n, n), dtype=complex)
                for k in range(n):
                    e = np.zeros(n, dtype=complex); e[k] = 1
                    M[:, k] = ptn.apply_local_bond_contraction(BL[i + 1], BR[i], e.reshape(Dm, Dm)).reshape(-1)
                ctx.close('heff.hermitian[zero-site]', np.linalg.norm(M - M.conj().T), 1e-10 * np.linalg.norm(M) + 1e-12 * scale_env, 'bond operator not Hermitian for a Hermitian MPO', detail)


def soak_case(ctx, idx, rng):
    """The repository's own test-suite and documentation notebooks with dense references attached to vdot / norm / operator_average /
    operator_inner_product / operator_density_average (objects within dense reach)."""
    from .. import soak
    n = {'checked': 0, 'beyond-dense-reach': 0}
    ts = lambda T: float(np.prod([max(np.linalg.norm(a), 1e-300) for a in T.A]))

    def dense(o):
        return refs.dense_operator(o.A) if isinstance(o, ptn.MPO) else refs.dense_state(o.A)

    def small(*objs):
        for o in objs:
            L = len(o.A)
            d = len(o.qd)
            if (isinstance(o, ptn.MPO) and d ** (2 * L) > 4096 * 64) or (not isinstance(o, ptn.MPO) and d ** L > 16384) or L == 0:
                return False
        return True

    def make(name, ref):
        def around(orig, *a):
            if not small(*a):
                n['beyond-dense-reach'] += 1
                return orig(*a)
            ds = [dense(o) for o in a]
            r = orig(*a)
            n['checked'] += 1
            sc = float(np.prod([ts(o) for o in a])) * (ts(a[0]) if name == 'operator_average' else 1.0)
            ctx.close(f'soak.{name}', abs(complex(r) - complex(ref(ds))), 1e-10 * max(sc, 1e-300), f'{name} called from the test-suite / notebooks deviates from the dense value', {'function': name}, True)
            return r
        return around
    att = [('pytenet.operation.vdot', make('vdot', lambda d: np.vdot(d[0], d[1]))),
           ('pytenet.operation.norm', make('norm', lambda d: np.linalg.norm(d[0]))),
           ('pytenet.operation.operator_average', make('operator_average', lambda d: np.vdot(d[0], d[1] @ d[0]))),
           ('pytenet.operation.operator_inner_product', make('operator_inner_product', lambda d: np.vdot(d[0], d[1] @ d[2]))),
           ('pytenet.operation.operator_density_average', make('operator_density_average', lambda d: np.trace(d[1] @ d[0])))]
    ctx.case(('soak', 'repository-test-suite+notebooks'), sample={'functions_monitored': [a for a, _ in att]})
    soak.run_suite(ctx, att)
    soak.run_notebooks(ctx, att)
    for k, v in n.items():
        ctx.event('soak_calls_' + k, v)


SPEC = {
    'id': 'C04',
    'rule': ('scalars: vdot (both orders, complex bra != ket with independent bond profiles), norm, operator_average, operator_inner_product, '
             'operator_density_average vs dense vectors/matrices for random MPOs, built-in models and harness-built Hermitian MPOs, L 1..6; '
             'steps: the four transfer steps, apply_local_hamiltonian and apply_local_bond_contraction vs own einsum on random tensors; '
             'projection: right blocks vs an independent recursion; <Y|H_eff X> = psi[Y]^H H psi[X] at every site for one-site tensors, every '
             'neighbouring pair for two-site tensors and every bond for bond matrices, on non-canonical states; explicit H_eff Hermitian for '
             'Hermitian MPOs. distinct = (family, L, d, MPO source, dtype).'),
    'deciding': ['vdot.first-argument-conjugated', 'norm', 'operator_average', 'operator_inner_product', 'operator_density_average',
                 'contraction_step_right', 'contraction_step_left', 'contraction_operator_step_right', 'contraction_operator_step_left',
                 'apply_local_hamiltonian', 'apply_local_bond_contraction', 'right-blocks.dense', 'projection.one-site', 'projection.two-site',
                 'projection.zero-site', 'heff.hermitian[one-site]', 'heff.hermitian[zero-site]'],
    'workloads': [
        Workload('scalars', scalars_case, quick=500, thorough=64000),
        Workload('extreme-scales', extreme_scale_case, quick=300, thorough=30000),
        Workload('bond-gauge', bond_gauge_case, quick=300, thorough=30000),
        Workload('long-chain', long_chain_case, quick=40, thorough=3000),
        Workload('huge-bonds', huge_bond_case, quick=8, thorough=320),
        Workload('wide-operator-bonds', wide_operator_case, quick=70, thorough=7000),
        Workload('suite-soak', soak_case, quick=0, thorough=1, shardable=False),
        Workload('steps', steps_case, quick=300, thorough=36000),
        Workload('projection', projection_case, quick=250, thorough=24000),
    ],
    'shards': {'quick': 4, 'thorough': 16},
    'assumptions': ['dense contraction in pvm/refs.py and numpy.einsum'],
}
