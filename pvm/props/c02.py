"""C02 — quantum-number block sparsity is an invariant of every operation sequence (history checker with shadow model)."""
import copy

import numpy as np

from .. import gen, monitor, refs
from ..core import Workload, CaseAbort
from ..env import ptn

SHADOW_TOL = 1e-9
FILLS = [1, -2, 0.5, 1.0, complex(0.5, -1.0), 0, 0.0]
MODELS = ['xxz', 'xxz1', 'bose3', 'fermi', 'ising']
# operator charges for random U(1) chain lists on the spin-1/2 space with qd = [1, -1]
SPIN_OPMAP = {0: np.identity(2), 1: np.array([[0., 1.], [0., 0.]]), -1: np.array([[0., 0.], [1., 0.]]), 2: np.diag([0.5, -0.5])}
SPIN_CHARGE = {0: 0, 1: 2, -1: -2, 2: 0}


def tensor_scale(obj):
    return float(np.prod([max(np.linalg.norm(a), 1e-300) for a in obj.A]))


class Obj:
    def __init__(self, kind, obj, shadow, universe):
        self.kind = kind            # 'mps' | 'mpo'
        self.obj = obj
        self.shadow = shadow        # dense vector / matrix (None: not tracked, object too large)
        self.universe = universe    # 'q' charges of the model, '0' all charges zero


def random_spin_chains(rng, L):
    chains = []
    for _ in range(int(rng.integers(1, 6))):
        ln = int(rng.integers(1, min(L, 3) + 1))
        ist = int(rng.integers(0, L - ln + 1))
        oids, q = [], [0]
        for k in range(ln):
            if k == ln - 1:
                cand = [o for o in SPIN_CHARGE if q[-1] + SPIN_CHARGE[o] == 0]
            else:
                cand = [o for o in SPIN_CHARGE if abs(q[-1] + SPIN_CHARGE[o]) <= 2]
            o = int(rng.choice(cand))
            oids.append(o)
            q.append(q[-1] + SPIN_CHARGE[o])
        chains.append(ptn.OpChain(oids, q, float(rng.choice([-1, 0.5, 1, 2, 0.3])), ist))
    return chains


class History:
    def __init__(self, ctx, rng, maxsteps, only_ops=None, zero_states=False):
        self.ctx = ctx
        self.rng = rng
        self.only_ops = only_ops
        self.zero_states = zero_states
        self.name = str(rng.choice(MODELS))
        d = gen.MODEL_D[self.name]
        lmax = 6
        while d ** lmax > 729:
            lmax -= 1
        self.L = int(rng.integers(2, lmax + 1))
        self.H = gen.model(self.name, self.L, gen.generic_params(rng))
        self.qd = self.H.qd.copy()
        self.d = d
        self.pool = []
        self.hist = []
        self.maxsteps = maxsteps
        self.track_mpo = d ** (2 * self.L) <= 256 * 256
        self.add(Obj('mpo', self.H, refs.dense_operator(self.H.A) if self.track_mpo else None, 'q' if self.name != 'ising' else 'q'))
        self.add(self.new_state())

    # -- pool management --
    def add(self, o):
        if o.kind == 'mps' and sum(o.obj.bond_dims) > 70:
            return
        if o.kind == 'mpo' and sum(o.obj.bond_dims) > 60:
            return
        if len(self.pool) < 7:
            self.pool.append(o)
        else:
            k = int(self.rng.integers(2, len(self.pool)))
            self.pool[k] = o

    def pick(self, kind, universe=None, nonzero=False):
        c = [o for o in self.pool if o.kind == kind and (universe is None or o.universe == universe)]
        if nonzero:
            # well-conditioned non-zero: the dense norm is not at cancellation level relative to the product of the tensor norms
            c = [o for o in c if o.shadow is None or np.linalg.norm(o.shadow) > max(1e-8, 1e-6 * tensor_scale(o.obj))]
        return c[int(self.rng.integers(0, len(c)))] if c else None

    def new_state(self):
        rng = self.rng
        how = str(rng.choice(['random', 'random', 'max', 'from_vector', 'fill', 'unreachable-sector', 'disjoint-bond']))
        if self.zero_states:
            how = str(rng.choice(['unreachable-sector', 'disjoint-bond']))
        if how in ('unreachable-sector', 'disjoint-bond'):
            # exactly-zero states: the announced total sector cannot be reached / an inner bond shares no charge with its neighbours
            if how == 'disjoint-bond':
                psi = gen.rand_mps(rng, self.qd, self.L, 'disjoint', Dmax=3)
            else:
                qD = gen.mps_qD(rng, self.qd, self.L, 'random', Dmax=3)
                qD[-1] = np.array([int(np.max(np.abs(self.qd))) * (self.L + 2) + 7])
                psi = ptn.MPS(self.qd, qD, fill='random', rng=rng)
            return Obj('mps', psi, refs.dense_state(psi.A), 'q')
        if how == 'from_vector':
            v = rng.normal(size=self.d ** self.L) + 1j * rng.normal(size=self.d ** self.L)
            psi = ptn.MPS.from_vector(self.d, self.L, v, float(rng.choice([0, 1e-3])))
            return Obj('mps', psi, refs.dense_state(psi.A), '0')
        if how == 'fill':
            qD = gen.mps_qD(rng, self.qd, self.L, 'random', Dmax=3)
            psi = ptn.MPS(self.qd, qD, fill=float(rng.choice([1.0, 0.5])) if rng.random() < 0.5 else 'random', rng=rng)
            return Obj('mps', psi, refs.dense_state(psi.A), 'q')
        psi = gen.rand_mps(rng, self.qd, self.L, how, Dmax=4)
        return Obj('mps', psi, refs.dense_state(psi.A), 'q')

    def hamiltonian_for(self, universe):
        c = [o for o in self.pool if o.kind == 'mpo' and o.universe == universe and o.obj.bond_dims[0] == 1 and o.obj.bond_dims[-1] == 1
             and int(o.obj.qD[0][0]) == 0 and int(o.obj.qD[-1][0]) == 0 and getattr(o, 'hermitian', True)]
        return c[int(self.rng.integers(0, len(c)))] if c else None

    # -- invariant after every step --
    def check_all(self, step):
        ctx = self.ctx
        for k, o in enumerate(self.pool):
            inv = refs.mps_invariant(o.obj) if o.kind == 'mps' else refs.mpo_invariant(o.obj)
            if not ctx.ok('history.class-invariant', inv is None, f'after step {step} ({self.hist[-1] if self.hist else "init"}): object {k} ({o.kind}): {inv}',
                          {'history': self.hist, 'model': self.name, 'L': self.L}):
                raise CaseAbort()
            if o.universe == '0':
                zero = not np.any(o.obj.qd) and all(not np.any(q) for q in o.obj.qD)
                ctx.ok('history.zeroed-charges-stay-zero', zero, f'object {k} should have all-zero quantum numbers', {'history': self.hist})
            if o.shadow is not None:
                dense = refs.dense_state(o.obj.A) if o.kind == 'mps' else refs.dense_operator(o.obj.A)
                sc = max(1.0, float(np.linalg.norm(o.shadow)))
                if not ctx.close('history.shadow-model', float(np.linalg.norm(dense - o.shadow)), SHADOW_TOL * sc,
                                 f'after step {step} ({self.hist[-1] if self.hist else "init"}): object {k} ({o.kind}) deviates from its shadow dense model',
                                 {'history': self.hist, 'model': self.name, 'L': self.L}):
                    raise CaseAbort()

    # -- steps --
    def step(self):
        rng = self.rng
        ctx = self.ctx
        op = str(rng.choice(['orth', 'compress', 'addsub', 'apply', 'splitmerge', 'tdvp1', 'tdvp2', 'dmrg1', 'dmrg2', 'new', 'zeroq', 'mpo-arith', 'mpo-orth', 'mpo-new'],
                            p=[.10, .10, .09, .08, .08, .06, .06, .06, .06, .06, .04, .09, .06, .06])) if self.only_ops is None else str(rng.choice(self.only_ops))
        detail = {'history': self.hist + [op], 'model': self.name, 'L': self.L}
        if op == 'orth':
            o = self.pick('mps')
            mode = str(rng.choice(['left', 'right']))
            ends = (o.obj.qD[0].copy(), o.obj.qD[-1].copy())
            sc0 = tensor_scale(o.obj)
            nz = np.linalg.norm(o.shadow) > max(1e-8, 1e-6 * sc0)
            nrm = o.obj.orthonormalize(mode)
            self.hist.append(f'orth-{mode}')
            ctx.close('step.orthonormalize-factor', abs(float(nrm) - np.linalg.norm(o.shadow)), 1e-9 * max(1, np.linalg.norm(o.shadow)) + 1e-12 * sc0, 'factor != norm', detail)
            if nz:
                o.shadow = o.shadow / float(nrm)
                ctx.ok('history.total-charge-kept', np.array_equal(o.obj.qD[0], ends[0]) and np.array_equal(o.obj.qD[-1], ends[1]), f'orthonormalize changed boundary charges', detail)
            else:
                o.shadow = refs.dense_state(o.obj.A)
        elif op == 'compress':
            o = self.pick('mps', nonzero=True)
            if o is None:
                return False
            tol = float(rng.choice([0, 0, 1e-4, 0.02]))
            mode = str(rng.choice(['left', 'right']))
            ends = (o.obj.qD[0].copy(), o.obj.qD[-1].copy())
            Dold = list(o.obj.bond_dims)
            nrm, sc = o.obj.compress(tol, mode)
            self.hist.append(f'compress-{mode}-{"tol0" if tol == 0 else "tol"}')
            ctx.ok('history.total-charge-kept', np.array_equal(o.obj.qD[0], ends[0]) and np.array_equal(o.obj.qD[-1], ends[1]), 'compress changed boundary charges', detail)
            inv = refs.mps_invariant(o.obj)
            if inv is None:
                new = refs.dense_state(o.obj.A)
                err = np.linalg.norm(float(nrm) * float(sc) * new - o.shadow)
                n0 = np.linalg.norm(o.shadow)
                ctx.ok('step.compress-error-bound', err <= n0 * (np.sqrt(self.L * tol) + 1e-9) + 1e-12, f'compress error {err / n0:.2e} > sqrt(L tol)', detail)
                ctx.ok('step.compress-bonds', all(a <= b for a, b in zip(o.obj.bond_dims, Dold)), 'compress increased a bond dimension', detail)
                o.shadow = new
        elif op == 'addsub':
            a = self.pick('mps')
            cands = [o for o in self.pool if o.kind == 'mps' and o.universe == a.universe and np.array_equal(o.obj.qD[0], a.obj.qD[0])
                     and np.array_equal(o.obj.qD[-1], a.obj.qD[-1]) and np.array_equal(o.obj.qd, a.obj.qd)]
            b = cands[int(rng.integers(0, len(cands)))]
            sub = bool(rng.random() < 0.5)
            r = (a.obj - b.obj) if sub else (a.obj + b.obj)
            self.hist.append('sub' if sub else 'add')
            self.add(Obj('mps', r, a.shadow - b.shadow if sub else a.shadow + b.shadow, a.universe))
        elif op == 'apply':
            a = self.pick('mps')
            Hs = [o for o in self.pool if o.kind == 'mpo' and o.universe == a.universe and o.shadow is not None and np.array_equal(o.obj.qd, a.obj.qd)]
            if not Hs or sum(a.obj.bond_dims) > 25:
                return False
            Hk = Hs[int(rng.integers(0, len(Hs)))]
            if sum(Hk.obj.bond_dims) > 30:
                return False
            r = ptn.apply_operator(Hk.obj, a.obj)
            self.hist.append('apply')
            self.add(Obj('mps', r, Hk.shadow @ a.shadow, a.universe))
        elif op == 'splitmerge':
            o = self.pick('mps')
            i = int(rng.integers(0, self.L - 1))
            psi = o.obj
            distr = str(rng.choice(['left', 'right', 'sqrt']))
            Am = ptn.merge_mps_tensor_pair(psi.A[i], psi.A[i + 1])
            psi.A[i], psi.A[i + 1], psi.qD[i + 1] = ptn.split_mps_tensor(Am, psi.qd, psi.qd, [psi.qD[i], psi.qD[i + 2]], distr, tol=0)
            self.hist.append(f'splitmerge-{distr}')
        elif op in ('tdvp1', 'tdvp2', 'dmrg1', 'dmrg2'):
            o = self.pick('mps', nonzero=True)
            if o is None:
                return False
            Hk = self.hamiltonian_for(o.universe)
            if Hk is None or not np.array_equal(Hk.obj.qd, o.obj.qd) or sum(o.obj.bond_dims) > 45 or sum(Hk.obj.bond_dims) > 40:
                return False
            ends = (o.obj.qD[0].copy(), o.obj.qD[-1].copy())
            ts = float(rng.choice([0, 0, 1e-6, 0.02, 0.1]))          # also strong truncation: sector multiplicities of a bond change between two splits of the same bond
            dtl = 0.1j if rng.random() < 0.6 else 1j * float(rng.uniform(1.0, 2.0))
            nst = int(rng.integers(1, 4))
            if rng.random() < 0.25 and np.any(o.obj.qd):
                # the operator in a different, equally valid labelling (shifted physical labels, all-zero labels for a charge-diagonal operator)
                Hk = Obj('mpo', gen.relabelled_operator(rng, Hk.obj), None, Hk.universe)
                self.hist.append('relabel-H')
            dH = monitor.digest(Hk.obj)
            if op == 'tdvp1':
                ptn.integrate_local_singlesite(Hk.obj, o.obj, 0.1j, int(rng.integers(1, 3)), numiter_lanczos=4)
            elif op == 'tdvp2':
                ptn.integrate_local_twosite(Hk.obj, o.obj, dtl, nst, numiter_lanczos=4, tol_split=ts)
            elif op == 'dmrg1':
                ptn.calculate_ground_state_local_singlesite(Hk.obj, o.obj, int(rng.integers(1, 3)), numiter_lanczos=4)
            else:
                ptn.calculate_ground_state_local_twosite(Hk.obj, o.obj, 1, numiter_lanczos=4, tol_split=ts)
            self.hist.append(op + ('' if ts == 0 or op[-1] == '1' else '-tolsplit'))
            ctx.ok('history.total-charge-kept', np.array_equal(o.obj.qD[0], ends[0]) and np.array_equal(o.obj.qD[-1], ends[1]), f'{op} changed boundary charges', detail)
            ctx.ok('step.hamiltonian-untouched', monitor.digest(Hk.obj) == dH, f'{op} modified the Hamiltonian', detail)
            if refs.mps_invariant(o.obj) is None:
                o.shadow = refs.dense_state(o.obj.A)
                if ts == 0 or op.startswith('dmrg') or op == 'tdvp1':
                    ctx.close('step.normalised-after-sweep', abs(np.linalg.norm(o.shadow) - 1), 1e-8, f'state not normalised after {op}', detail)
        elif op == 'new':
            self.add(self.new_state())
            self.hist.append('new')
        elif op == 'zeroq':
            k = int(rng.integers(0, len(self.pool)))
            o = self.pool[k]
            if k >= 2 and rng.random() < 0.5:
                # in place on a live pool object (a sum, a product, an evolved state ...): every OTHER object must stay what it was
                # (labels shared between a result and its operands would be zeroed along)
                r = o.obj.zero_qnumbers()
                self.hist.append(f'zeroq-inplace-{o.kind}')
                ctx.ok('step.zero_qnumbers-chains', r is o.obj, 'zero_qnumbers must return the object', detail)
                o.universe = '0'
            else:
                c = copy.deepcopy(o.obj)
                r = c.zero_qnumbers()
                self.hist.append(f'zeroq-{o.kind}')
                ctx.ok('step.zero_qnumbers-chains', r is c, 'zero_qnumbers must return the object', detail)
                n = Obj(o.kind, c, None if o.shadow is None else o.shadow.copy(), '0')
                n.hermitian = getattr(o, 'hermitian', True)
                self.add(n)
        elif op == 'mpo-arith':
            a = self.pick('mpo')
            cands = [o for o in self.pool if o.kind == 'mpo' and o.universe == a.universe and np.array_equal(o.obj.qd, a.obj.qd)]
            b = cands[int(rng.integers(0, len(cands)))]
            which = str(rng.choice(['add', 'sub', 'matmul']))
            if sum(a.obj.bond_dims) * (sum(b.obj.bond_dims) if which == 'matmul' else 1) > 150:
                return False
            if which != 'matmul' and not (np.array_equal(a.obj.qD[0], b.obj.qD[0]) and np.array_equal(a.obj.qD[-1], b.obj.qD[-1])):
                return False
            if which == 'add':
                r, sh = a.obj + b.obj, (None if a.shadow is None or b.shadow is None else a.shadow + b.shadow)
            elif which == 'sub':
                r, sh = a.obj - b.obj, (None if a.shadow is None or b.shadow is None else a.shadow - b.shadow)
            else:
                r, sh = a.obj @ b.obj, (None if a.shadow is None or b.shadow is None else a.shadow @ b.shadow)
            self.hist.append('mpo-' + which)
            n = Obj('mpo', r, sh, a.universe)
            n.hermitian = (which == 'add' and getattr(a, 'hermitian', True) and getattr(b, 'hermitian', True))
            if which == 'matmul' and a is b:
                n.hermitian = getattr(a, 'hermitian', True)
            self.add(n)
        elif op == 'mpo-orth':
            o = self.pick('mpo')
            if o.obj.bond_dims[0] != 1 or o.obj.bond_dims[-1] != 1:
                return False
            mode = str(rng.choice(['left', 'right']))
            nz = o.shadow is None or np.linalg.norm(o.shadow) > 1e-12
            nrm = o.obj.orthonormalize(mode)
            self.hist.append(f'mpo-orth-{mode}')
            if o.shadow is not None:
                ctx.close('step.orthonormalize-factor', abs(float(nrm) - np.linalg.norm(o.shadow)), 1e-9 * max(1, np.linalg.norm(o.shadow)), 'MPO factor != Frobenius norm', detail)
                o.shadow = o.shadow / float(nrm) if nz and nrm > 0 else refs.dense_operator(o.obj.A)
        elif op == 'mpo-new':
            which = str(rng.choice(['model', 'identity', 'opgraph', 'fill', 'charged-boundary', 'charge-diagonal', 'charge-diagonal', 'open-segment']))
            if which == 'model' or (which == 'opgraph' and self.name != 'xxz'):
                r = gen.model(self.name, self.L, gen.generic_params(rng))
                herm = True
            elif which == 'identity':
                r = ptn.MPO.identity(self.qd, self.L, dtype=complex if rng.random() < 0.5 else float)
                herm = True
            elif which == 'charge-diagonal':
                # ALL bond labels zero although the physical labels are not (a charge-diagonal operator such as an interaction-only Hamiltonian):
                # over-dimensioned bonds, so that a later orthonormalisation really has something to reduce
                if not np.any(self.qd):
                    return False
                r = ptn.MPO(self.qd, [np.zeros(1, dtype=int)] + [np.zeros(int(rng.integers(2, 6)), dtype=int) for _ in range(self.L - 1)] + [np.zeros(1, dtype=int)],
                            fill='random', rng=np.random.default_rng(int(rng.integers(0, 2 ** 31))))
                herm = False
            elif which == 'open-segment':
                # chain segment: first and last bond of dimension 2..3 with arbitrary labels (allowed by the MPO constructor); not tracked densely
                diffs = np.unique(np.subtract.outer(self.qd, self.qd))
                r = gen.rand_mpo(rng, self.qd, self.L, Dmax=2, kind='complex',
                                 open_bonds=(rng.choice(diffs, size=int(rng.integers(2, 4))), rng.choice(diffs, size=int(rng.integers(2, 4)))))
                herm = False
                self.hist.append('mpo-new-open-segment')
                n = Obj('mpo', r, None, 'q')
                n.hermitian = False
                self.add(n)
                return True
            elif which == 'charged-boundary':
                # operator with NON-ZERO quantum numbers on its dummy boundary bonds (like linear_fermionic_mpo), charge changing
                diffs = np.unique(np.subtract.outer(self.qd, self.qd))
                r = gen.rand_mpo(rng, self.qd, self.L, Dmax=2, kind='complex', boundary=(int(rng.choice(diffs)), int(rng.choice(diffs))))
                herm = False
            elif which == 'fill':
                # the documented scalar-fill constructor (dummy boundary bonds with charge 0)
                qD = gen.mpo_qD(rng, self.qd, self.L, 3, 'unsorted', (0, 0))
                r = ptn.MPO(self.qd, qD, fill=FILLS[int(rng.integers(0, len(FILLS)))])
                herm = False
            else:
                chains = random_spin_chains(rng, self.L)
                g = ptn.OpGraph.from_opchains(chains, self.L, 0)
                r = ptn.MPO.from_opgraph(self.qd, g, SPIN_OPMAP, compute_nid_map=bool(rng.random() < 0.5))
                herm = False
            self.hist.append('mpo-new-' + which)
            n = Obj('mpo', r, refs.dense_operator(r.A) if self.track_mpo else None, 'q')
            n.hermitian = herm
            self.add(n)
        return True


def zero_state_case(ctx, idx, rng):
    """Directed histories on EXACTLY ZERO states (unreachable total sector, an inner bond that shares no charge with its neighbours, psi - psi): repeated
    split+merge, orthonormalisation, compression and sums -- the dummy-bond branches of the block-sparse QR / SVD (matrices without common charges, without
    rows or columns) are entered again and again; the class invariant must hold after every step."""
    history_case(ctx, idx, rng, only_ops=['splitmerge', 'splitmerge', 'orth', 'compress', 'addsub', 'splitmerge', 'new'], zero_states=True)


def truncating_tdvp2_case(ctx, idx, rng):
    """Directed histories: two-site TDVP with STRONG truncation (tol_split 0.02 .. 0.1) and long steps (|dt| 1 .. 2) on charged random states, two to four
    calls in a row: between the forward and the backward split of one bond a retained singular value moves from one charge sector to another while the bond
    keeps its dimension and its end labels -- labels and tensors must follow each other exactly. Class invariant after every call."""
    name = ('bose3', 'xxz1', 'xxz', 'fermi')[idx % 4]
    L = int(rng.integers(4, 6)) if name != 'fermi' else 4
    H = gen.model(name, L, gen.generic_params(rng))
    psi = gen.rand_mps(rng, H.qd, L, str(rng.choice(['random', 'max'])), Dmax=8)
    if np.linalg.norm(refs.dense_state(psi.A)) < 1e-8:
        ctx.case(('truncating-tdvp2', 'zero-state'), nontrivial=False)
        return
    ncall = int(rng.integers(2, 5))
    ctx.case(('truncating-tdvp2', name, f'L{L}', f'calls{ncall}'), sample={'model': name, 'L': L, 'qD': psi.qD})
    ends = (psi.qD[0].copy(), psi.qD[-1].copy())
    for k in range(ncall):
        tol = float(rng.choice([0.02, 0.05, 0.1]))
        dt = 1j * float(rng.uniform(1.0, 2.0)) * float(rng.choice([-1, 1]))
        detail = {'model': name, 'L': L, 'call': k, 'tol_split': tol, 'dt': dt, 'qD_before': [q.copy() for q in psi.qD]}
        ptn.integrate_local_twosite(H, psi, dt, int(rng.integers(1, 3)), numiter_lanczos=6, tol_split=tol)
        inv = refs.mps_invariant(psi)
        if not ctx.ok('truncating-tdvp2.class-invariant', inv is None, f'after call {k + 1}: {inv}', detail):
            return
        ctx.ok('truncating-tdvp2.total-charge-kept', np.array_equal(psi.qD[0], ends[0]) and np.array_equal(psi.qD[-1], ends[1]), 'boundary charges changed', detail)


def history_case(ctx, idx, rng, only_ops=None, zero_states=False):
    maxsteps = 12 if ctx.tier == 'quick' else 30
    h = History(ctx, rng, maxsteps, only_ops, zero_states)
    ctx.cur_info = {'model': h.name, 'L': h.L}
    h.check_all(0)
    nsteps = int(rng.integers(3, maxsteps + 1))
    done = 0
    tries = 0
    while done < nsteps and tries < 4 * nsteps:
        tries += 1
        ctx.cur_info = {'model': h.name, 'L': h.L, 'history': list(h.hist)}
        if h.step():
            done += 1
            ctx.cur_info = {'model': h.name, 'L': h.L, 'history': list(h.hist)}
            h.check_all(done)
            ctx.event('steps')
            ctx.event('op:' + h.hist[-1].split('-')[0])
    kinds = [x.split('-')[0] for x in h.hist]
    nz = any(o.kind == 'mps' and o.shadow is not None and np.linalg.norm(o.shadow) > 1e-12 for o in h.pool)
    ctx.case((h.name,) + (('zero-states',) if zero_states else ()) + tuple(h.hist), nontrivial=(len(h.hist) >= 3 and len(set(kinds)) >= 2 and (nz or zero_states)),
             sample={'model': h.name, 'L': h.L, 'history': h.hist})


def constructor_case(ctx, idx, rng):
    """Every documented way of constructing an MPS / MPO (scalar fill of each numeric type, 'random' with and without a generator, default
    fill, quantum numbers passed as arrays / lists / tuples), the invariant right after construction, then a short chain of public operations."""
    from .c01 import _qd
    is_mpo = bool(idx % 2)
    L = int(rng.integers(1, 5))
    d = int(rng.choice([1, 2, 3]))
    layout = str(rng.choice(['zero', 'unsorted', 'sorted', 'pairs', 'huge']))
    qd = _qd(rng, d, layout)
    if layout != 'zero' and d > 1 and not np.any(qd - qd[0]):
        qd[0] = qd[0] + 1
    qD = gen.mpo_qD(rng, qd, L, 3, 'unsorted', (0, 0)) if is_mpo else gen.mps_qD(rng, qd, L, str(rng.choice(['random', 'max', 'over'])), Dmax=4)
    fillk = ('int', 'float', 'complex', 'zero', 'default', 'random', 'random-rng')[(idx // 2) % 7]
    fill = {'int': int(rng.choice([1, -2, 3])), 'float': float(rng.choice([1.0, 0.5, -2.5])), 'complex': complex(rng.choice([0.5, 1.0]), rng.choice([-1.0, 2.0])),
            'zero': 0, 'random': 'random', 'random-rng': 'random', 'default': None}[fillk]
    form = ('array', 'list', 'tuple', 'int32-array', 'int8-array')[(idx // 14) % 5]
    if form in ('int8-array', 'int32-array') and layout == 'huge':
        form = 'array'
    if form == 'int8-array' and layout == 'pairs':
        form = 'int32-array'
    conv = {'array': lambda q: np.array(q), 'list': lambda q: [int(x) for x in q], 'tuple': lambda q: tuple(int(x) for x in q),
            'int32-array': lambda q: np.array(q, dtype=np.int32), 'int8-array': lambda q: np.array(q, dtype=np.int8)}[form]
    a_qd, a_qD = conv(qd), [conv(q) for q in qD]
    cls = ptn.MPO if is_mpo else ptn.MPS
    kw = {}
    if fillk == 'random-rng':
        kw['rng'] = np.random.default_rng(int(rng.integers(0, 2 ** 31)))
    ctx.case(('ctor', 'mpo' if is_mpo else 'mps', f'L{L}', f'd{d}', layout, fillk, form), nontrivial=(fillk not in ('zero', 'default')),
             sample={'qd': qd, 'qD': qD, 'fill': repr(fill), 'form': form})
    detail = {'class': cls.__name__, 'qd': qd, 'qD': qD, 'fill': repr(fill), 'form': form}
    if fillk == 'default':
        obj = cls(a_qd, a_qD)
    elif idx % 3 == 0:
        obj = cls(a_qd, a_qD, fill, **kw)
    else:
        obj = cls(a_qd, a_qD, fill=fill, **kw)
    inv = refs.mpo_invariant(obj) if is_mpo else refs.mps_invariant(obj)
    if not ctx.ok('ctor.class-invariant', inv is None, f'{cls.__name__}(qd, qD, fill={fill!r}) violates the invariant right after construction: {inv}', detail):
        return
    ctx.ok('ctor.arguments-untouched', np.array_equal(np.asarray(a_qd), qd) and all(np.array_equal(np.asarray(x), y) for x, y in zip(a_qD, qD)), 'constructor modified qd / qD', detail)
    if fillk in ('int', 'float', 'complex'):
        ctx.ok('ctor.fill-reaches-allowed-entries', any(np.any(a != 0) for a in obj.A) or not _any_allowed(obj, is_mpo), 'non-zero scalar fill produced only zeros although allowed entries exist', detail)
    # short chain of operations on the constructed object
    dense0 = refs.dense_operator(obj.A) if is_mpo else refs.dense_state(obj.A)
    steps = []
    try:
        for _ in range(int(rng.integers(1, 4))):
            op = str(rng.choice(['orth-left', 'orth-right', 'add', 'sub', 'matmul' if is_mpo else 'compress']))
            steps.append(op)
            if op.startswith('orth'):
                obj.orthonormalize(op[5:])
            elif op == 'add':
                obj = obj + obj
            elif op == 'sub':
                obj = obj - cls(obj.qd, obj.qD, fill='random', rng=np.random.default_rng(int(rng.integers(0, 2 ** 31))))     # same (current) bond labels
            elif op == 'matmul':
                if sum(obj.bond_dims) > 24:
                    continue
                obj = obj @ obj
            elif op == 'compress':
                if np.linalg.norm(refs.dense_state(obj.A)) > 1e-8 * tensor_scale(obj):
                    obj.compress(0.0, str(rng.choice(['left', 'right'])))
            inv = refs.mpo_invariant(obj) if is_mpo else refs.mps_invariant(obj)
            if not ctx.ok('ctor.class-invariant-after-ops', inv is None, f'after {steps}: {inv}', dict(detail, steps=steps)):
                return
    except AssertionError as e:
        import traceback
        ctx.fail('ctor.no-internal-assertion', f'an internal assertion failed after {steps} on a freshly constructed object: {e}', dict(detail, steps=steps, traceback=traceback.format_exc(limit=6)))


def _any_allowed(obj, is_mpo):
    for i, a in enumerate(obj.A):
        if is_mpo:
            mask = np.add.outer(np.add.outer(np.add.outer(obj.qd, -obj.qd), obj.qD[i]), -obj.qD[i + 1])
        else:
            mask = np.add.outer(np.add.outer(obj.qd, obj.qD[i]), -obj.qD[i + 1])
        if np.any(mask == 0):
            return True
    return False


def label_mutation_case(ctx, idx, rng):
    """Histories aimed at quantum-number LABELS shared between objects: operands with NON-ZERO charges on their boundary bonds (like
    linear_fermionic_mpo or a charged sector state), a result (sum, difference, product, apply_operator), then zero_qnumbers() -- the library's in-place
    label writer -- on ONE of them; every other object must still satisfy the invariant with unchanged labels and dense form, and stay usable."""
    from .c01 import _qd
    d = int(rng.choice([2, 3]))
    L = int(rng.integers(1, 5))
    qd = _qd(rng, d, str(rng.choice(['unsorted', 'sorted', 'pairs'])))
    if not np.any(qd - qd[0]):
        qd[0] = qd[0] + 1
    diffs = np.unique(np.subtract.outer(qd, qd))
    kind = ('mpo-add', 'mpo-sub', 'mpo-matmul', 'mps-add', 'mps-sub', 'apply')[idx % 6]
    objs = {}
    if kind.startswith('mpo'):
        b = (int(rng.choice(diffs)) or int(diffs[-1]), int(rng.choice(diffs)) or int(diffs[0]))
        X = gen.rand_mpo(rng, qd, L, Dmax=2, kind='complex', boundary=b)
        Y = gen.rand_mpo(rng, qd, L, Dmax=2, kind='complex', boundary=b)
        objs['X'], objs['Y'] = X, Y
        objs['S'] = (X + Y) if kind == 'mpo-add' else ((X - Y) if kind == 'mpo-sub' else (X @ Y))
    else:
        q0 = int(rng.integers(1, 4)) * int(rng.choice([-1, 1]))
        X = gen.rand_mps(rng, qd, L, 'random', Dmax=3, q0=q0)
        Y = gen.rand_mps(rng, qd, L, 'random', Dmax=3, q0=q0, qL=int(X.qD[-1][0]))
        objs['X'], objs['Y'] = X, Y
        if kind == 'apply':
            W = gen.rand_mpo(rng, qd, L, Dmax=2, kind='complex', boundary=(int(rng.choice(diffs)) or int(diffs[-1]), int(rng.choice(diffs)) or int(diffs[0])))
            objs['W'] = W
            objs['S'] = ptn.apply_operator(W, X)
        else:
            objs['S'] = (X + Y) if kind == 'mps-add' else (X - Y)
    is_mpo = {k: isinstance(v, ptn.MPO) for k, v in objs.items()}
    dense = {k: (refs.dense_operator(v.A) if is_mpo[k] else refs.dense_state(v.A)) for k, v in objs.items()}
    labels = {k: [np.array(q, copy=True) for q in v.qD] for k, v in objs.items()}
    victim = str(rng.choice(sorted(objs)))
    ctx.case(('label-mutation', kind, f'L{L}', f'd{d}', 'zero_qnumbers-on-' + victim), sample={'kind': kind, 'L': L, 'qd': qd, 'boundary_labels': {k: [v.qD[0].tolist(), v.qD[-1].tolist()] for k, v in objs.items()}})
    detail = {'kind': kind, 'L': L, 'qd': qd, 'zero_qnumbers_on': victim, 'qD': {k: labels[k] for k in objs}}
    r = objs[victim].zero_qnumbers()
    ctx.ok('labels.zero_qnumbers-returns-self', r is objs[victim], 'zero_qnumbers must return the object', detail)
    for k, v in objs.items():
        inv = refs.mpo_invariant(v) if is_mpo[k] else refs.mps_invariant(v)
        if not ctx.ok('labels.class-invariant-of-every-object', inv is None, f'after {kind} and zero_qnumbers() on {victim}: object {k}: {inv}', detail):
            return
        if k != victim:
            ctx.ok('labels.other-objects-keep-their-labels', all(np.array_equal(a, b) for a, b in zip(v.qD, labels[k])) and (k == victim or np.array_equal(v.qd, qd)),
                   f'zero_qnumbers() on {victim} changed the quantum numbers of {k}', detail)
        now = refs.dense_operator(v.A) if is_mpo[k] else refs.dense_state(v.A)
        ctx.close('labels.dense-form-unchanged', float(np.linalg.norm(now - dense[k])), 1e-12 * max(1.0, float(np.linalg.norm(dense[k]))), f'dense form of {k} changed', detail)
    # everything stays usable
    try:
        for k, v in objs.items():
            if float(np.linalg.norm(dense[k])) > 1e-8 * tensor_scale(v):
                v.orthonormalize(str(rng.choice(['left', 'right'])))
                inv = refs.mpo_invariant(v) if is_mpo[k] else refs.mps_invariant(v)
                ctx.ok('labels.class-invariant-of-every-object', inv is None, f'after orthonormalize of {k}: {inv}', detail)
    except AssertionError as e:
        import traceback
        ctx.fail('labels.objects-stay-usable', f'an internal assertion failed when {k} was orthonormalised after zero_qnumbers() on {victim}: {e}', dict(detail, traceback=traceback.format_exc(limit=5)))


def soak_case(ctx, idx, rng):
    """The repository's own tests under the class invariant: every MPS/MPO returned or updated by a public operation is inspected."""
    from .. import soak

    def inv_of(o):
        if isinstance(o, ptn.MPS):
            return refs.mps_invariant(o)
        if isinstance(o, ptn.MPO):
            return refs.mpo_invariant(o)
        return None

    def returns(name):
        def around(orig, *a, **k):
            r = orig(*a, **k)
            inv = inv_of(r)
            ctx.ok('soak.invariant-of-result', inv is None, f'{name} (called from the test-suite) returned an object violating the invariant: {inv}', {'function': name}, in_situ=True)
            return r
        return around

    def updates(name, pos):
        def around(orig, *a, **k):
            target = a[pos]
            nonzero = isinstance(target, ptn.MPS) and all(x is not None for x in target.A) and float(np.linalg.norm(refs.dense_state(target.A))) > 1e-8 \
                if isinstance(target, ptn.MPS) and np.prod([len(target.qd)] * max(len(target.A), 1)) <= 4096 else False
            ends = (np.array(target.qD[0], copy=True), np.array(target.qD[-1], copy=True)) if hasattr(target, 'qD') else None
            r = orig(*a, **k)
            inv = inv_of(target)
            ctx.ok('soak.invariant-of-updated-object', inv is None, f'{name} (called from the test-suite) left its target violating the invariant: {inv}', {'function': name}, in_situ=True)
            if nonzero and ends is not None:
                ctx.ok('soak.total-charge-kept', np.array_equal(target.qD[0], ends[0]) and np.array_equal(target.qD[-1], ends[1]),
                       f'{name} changed the boundary quantum numbers', {'function': name}, in_situ=True)
            return r
        return around
    att = [(f, returns(f)) for f in ('pytenet.mps.add_mps', 'pytenet.mpo.add_mpo', 'pytenet.mpo.multiply_mpo', 'pytenet.operation.apply_operator',
                                     'pytenet.mpo.MPO.from_opgraph', 'pytenet.mpo.MPO.identity', 'pytenet.mps.MPS.from_vector')]
    att += [(f, updates(f, 0)) for f in ('pytenet.mps.MPS.orthonormalize', 'pytenet.mps.MPS.compress', 'pytenet.mpo.MPO.orthonormalize')]
    att += [(f, updates(f, 1)) for f in ('pytenet.evolution.integrate_local_singlesite', 'pytenet.evolution.integrate_local_twosite',
                                         'pytenet.minimization.calculate_ground_state_local_singlesite', 'pytenet.minimization.calculate_ground_state_local_twosite')]
    ctx.case(('soak', 'repository-test-suite'), nontrivial=True, sample={'functions_monitored': [f for f, _ in att]})
    soak.run_suite(ctx, att)
    soak.run_notebooks(ctx, att)


SPEC = {
    'id': 'C02',
    'rule': ('histories: a pool of MPS/MPO objects of one model (XXZ, spin-1 XXZ, Bose-Hubbard d=3, Fermi-Hubbard with encoded charge pairs, Ising) '
             'is driven through 3..12 (quick) / 3..30 (thorough) random public operations: construct (random sector states, scalar fill, '
             'from_vector), orthonormalize, compress, +/-, apply_operator, split+merge of a tensor pair, one-/two-site TDVP, one-/two-site DMRG, '
             'zero_qnumbers, MPO +/-/@, (TDVP / DMRG in every fourth call with the operator in a shifted or zeroed but equally valid labelling) MPO orthonormalize, MPO constructors (models, identity, scalar fill, from_opgraph of random charged chain lists). '
             'constructors: MPS / MPO built in every documented way (int / float / complex / zero / default fill, random with and without generator, quantum numbers as arrays / lists / tuples) followed by 1-3 operations. '
             'After every step the class invariant is evaluated on every live object and every object is compared with its shadow dense model. '
             'distinct = distinct operation sequences; non-trivial = >= 3 steps, >= 2 operation kinds, a non-zero state in the pool.'),
    'deciding': ['ctor.class-invariant', 'history.class-invariant', 'history.shadow-model', 'history.total-charge-kept'],
    'workloads': [
        Workload('histories', history_case, quick=600, thorough=36000),
        Workload('zero-states', zero_state_case, quick=150, thorough=9000),
        Workload('truncating-tdvp2', truncating_tdvp2_case, quick=200, thorough=8000),
        Workload('constructors', constructor_case, quick=420, thorough=42000),
        Workload('label-mutation', label_mutation_case, quick=360, thorough=36000),
        Workload('suite-soak', soak_case, quick=0, thorough=1, shardable=False),
    ],
    'shards': {'quick': 4, 'thorough': 16},
    'assumptions': ['shadow dense model advanced with numpy; tolerance 1e-9 relative'],
}
