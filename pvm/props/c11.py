"""C11 — block-sparse QR is an exact, isometric, charge-respecting factorization."""
import itertools

import numpy as np

from .. import gen, monitor, oracles
from ..core import Workload
from ..env import ptn

KINDS = ('complex', 'real', 'deficient', 'zero', 'zerocols', 'binary', 'dupcols')


def _shapes(maxn):
    return [(m, n) for m in range(1, maxn + 1) for n in range(1, maxn + 1)]


def _decode(idx, maxn):
    for (m, n) in _shapes(maxn):
        c = 3 ** (m + n)
        if idx < c:
            digits = []
            for _ in range(m + n):
                digits.append(idx % 3)
                idx //= 3
            return m, n, np.array(digits[:m]), np.array(digits[m:])
        idx -= c
    raise IndexError


def _count(maxn):
    return sum(3 ** (m + n) for (m, n) in _shapes(maxn))


_PREV = []


_NCALL = [0]


def _call(ctx, A, q0, q1, sig, nontrivial=True):
    A0, q00, q10 = oracles.snapshot_arrays(A, q0, q1)
    q00, q10 = np.asarray(q00), np.asarray(q10)
    ctx.case(sig, nontrivial=nontrivial, sample={'A': A0, 'q0': q00, 'q1': q10})
    _NCALL[0] += 1
    if _NCALL[0] % 2:
        with monitor.write_protected(A, q0, q1):
            res = ptn.qr(A, q0, q1)
    else:
        # every second call WITHOUT the write trap: a read-only argument can steer the code away from an in-place branch that a writeable array owning
        # its memory would take; the arguments are compared bit for bit with their snapshots afterwards (check_qr: input-unchanged)
        res = ptn.qr(A, q0, q1)
    oracles.check_qr(ctx, A0, q00, q10, (A, q0, q1), res)
    # the result of the PREVIOUS call must still be a factorisation of the previous matrix (no output buffer reused between calls)
    if _PREV:
        pA, pres = _PREV.pop()
        if isinstance(pres, tuple) and len(pres) == 3 and np.asarray(pres[0]).ndim == 2:
            e = oracles.pow2_exponent(pA)
            pAs, pR = oracles.ldexp(pA, -e), oracles.ldexp(np.asarray(pres[1]), -e)
            ctx.close('qr.previous-result-still-valid', float(np.linalg.norm(np.asarray(pres[0]) @ pR - pAs)), (1e-4 if oracles.is_single(pA) else 1e-11) * max(float(np.linalg.norm(pAs)), 1e-300) + 0.0,
                      'the result of an earlier qr call was altered by a later call', {'A': pA})
    _PREV.append((A0, res))
    return res


def _sortclass(q0, q1):
    s0 = bool(np.all(np.diff(q0) >= 0))
    s1 = bool(np.all(np.diff(q1) >= 0))
    return ('q0-sorted' if s0 else 'q0-unsorted') + '/' + ('q1-sorted' if s1 else 'q1-unsorted')


def make_exhaustive(maxn):
    def fn(ctx, idx, rng):
        m, n, q0, q1 = _decode(idx, maxn)
        shared = len(np.intersect1d(q0, q1))
        for kind in KINDS:
            if kind == 'deficient':
                A = gen.block_matrix(rng, q0, q1, 'real', rank=1)
            elif kind == 'zero':
                A = gen.block_matrix(rng, q0, q1, 'real', rank=0)
            elif kind in ('zerocols', 'binary', 'dupcols'):
                A = gen.structured_block_matrix(rng, q0, q1, kind)
            else:
                A = gen.block_matrix(rng, q0, q1, kind)
            sig = (f'{m}x{n}', kind, _sortclass(q0, q1), 'disjoint' if shared == 0 else f'shared{min(shared, 2)}')
            _call(ctx, A, q0, q1, sig, nontrivial=(kind != 'zero' and shared > 0 and bool(np.any(A))))
    return fn


def random_case(ctx, idx, rng):
    shape_kind = str(rng.choice(['any', 'tall', 'wide', 'row', 'col', 'square']))
    big = 40 if idx % 20 else 160
    if idx % 300 == 150:
        big = 700                    # occasionally a really large matrix (anything that switches algorithm above a size threshold)
    if shape_kind == 'row':
        m, n = 1, int(rng.integers(1, big))
    elif shape_kind == 'col':
        m, n = int(rng.integers(1, big)), 1
    elif shape_kind == 'square':
        m = n = int(rng.integers(1, big))
    else:
        m, n = int(rng.integers(1, big)), int(rng.integers(1, big))
        if shape_kind == 'tall' and m < n:
            m, n = n, m
        if shape_kind == 'wide' and m > n:
            m, n = n, m
    lay = str(rng.choice(['zero', 'sorted', 'unsorted', 'q0sorted', 'q1sorted', 'disjoint', 'big', 'pairs', 'negative', 'repeated', 'huge', 'extreme-signs', 'int8', 'wrap-sorted', 'wrap-sorted-int8', 'int8-small', 'aliased', 'aliased', 'int-extremes', 'descending', 'descending', 'pm-boundary', 'pm-boundary']))
    r = int(rng.integers(1, 4))
    if big >= 160 and rng.random() < 0.4:
        lay = 'many-sectors'
    aspect = idx % 12 == 5
    if aspect:
        # extreme aspect ratios (80..400 x 2..5, either way) in one or two sectors, columns that are nearly dependent (condition 1e5 .. 1e10)
        m, n = int(rng.integers(80, 400)), int(rng.integers(2, 6))
        if rng.random() < 0.4:
            m, n = n, m
        shape_kind = 'aspect'
        lay = str(rng.choice(['zero', 'sorted', 'repeated']))
        r = 1
    if lay == 'q0sorted':
        q0 = gen.qvec(rng, m, 'sorted', r); q1 = gen.qvec(rng, n, 'unsorted', r)
    elif lay == 'q1sorted':
        q0 = gen.qvec(rng, m, 'unsorted', r); q1 = gen.qvec(rng, n, 'sorted', r)
    elif lay == 'disjoint':
        q0 = rng.integers(0, 3, size=m); q1 = rng.integers(5, 8, size=n)
    else:
        q0 = gen.qvec(rng, m, lay, r); q1 = gen.qvec(rng, n, lay, r)
    kind = str(rng.choice(['complex', 'real', 'deficient', 'zero', 'zerocols', 'binary', 'dupcols', 'nearstruct', 'complex-orthogonal'], p=[.2, .15, .11, .04, .11, .11, .11, .11, .06]))
    if kind in ('zerocols', 'binary', 'dupcols', 'nearstruct', 'complex-orthogonal'):
        A = gen.structured_block_matrix(rng, q0, q1, kind)
    elif kind == 'deficient':
        A = gen.block_matrix(rng, q0, q1, 'complex', rank=int(rng.integers(1, 3)))
    elif kind == 'zero':
        A = gen.block_matrix(rng, q0, q1, 'real', rank=0)
    else:
        A = gen.block_matrix(rng, q0, q1, kind)
    if aspect and kind in ('complex', 'real') and A.shape[0] > A.shape[1] >= 2:
        # make the columns of every block nearly dependent: A <- A G with a graded, generically rotated G
        nn = A.shape[1]
        W = np.linalg.qr(rng.normal(size=(nn, nn)))[0]
        G = (W * np.concatenate([[1.0], 10.0 ** -rng.uniform(5, 10, size=nn - 1)])) @ np.linalg.qr(rng.normal(size=(nn, nn)))[0]
        mask = A != 0
        A = np.where(mask, A, 0)
        if len(np.unique(q1)) == 1:
            A = A @ G
            kind = kind + '-illconditioned'
    scale = float(rng.choice([1, 1, 1e-30, 1e30, 1e-3, 1e-170, 1e170, 1e-280, 1e280]))      # beyond 1e+-154 the squares of the entries leave the double range
    A = A * scale
    if scale == 1 and kind in ('complex', 'real', 'deficient', 'nearstruct') and rng.random() < 0.25:
        A = A.astype(np.complex64 if np.iscomplexobj(A) else np.float32)          # single precision input (oracle tolerance 1e-4)
        kind = kind + '-single'
    A, mem = gen.memory_layout(rng, A)
    shared = len(np.intersect1d(q0, q1))
    sig = (shape_kind, lay, kind, _sortclass(np.asarray(q0), np.asarray(q1)), 'disjoint' if shared == 0 else 'shared', f'scale{scale:g}', mem, 'q-lists' if isinstance(q0, list) else 'q-arrays')
    _call(ctx, A, q0, q1, sig, nontrivial=(kind != 'zero' and shared > 0))
    if A.flags.writeable and idx % 3 == 0:
        # history: the SAME array object changed in place and factorised again (a held result may legitimately alias the input matrix --
        # C11 does not forbid that -- so the held-result re-verification is dropped before the harness itself edits the input)
        _PREV.clear()
        A *= -2
        if A.size:
            A[0, 0] = A[0, 0] + (1 if q0[0] == q1[0] else 0)
        _call(ctx, A, q0, q1, sig + ('after-inplace-edit',), nontrivial=bool(np.any(A)) and shared > 0)


def insitu_case(ctx, idx, rng):
    """Real call sites: orthonormalisation sweeps, compression, TDVP and DMRG drive qr with their own data."""
    calls = []

    def around(orig, A, q0, q1):
        snap = oracles.snapshot_arrays(A, q0, q1)
        res = orig(A, q0, q1)
        calls.append(1)
        oracles.check_qr(ctx, snap[0], snap[1], snap[2], (A, q0, q1), res, in_situ=True)
        return res
    name, L, p, H = gen.pick_model(rng, maxdim=256, Lmax=5)
    prof = str(rng.choice(['random', 'max', 'over', 'one', 'disjoint']))
    psi = gen.rand_mps(rng, H.qd, L, prof, Dmax=4)
    op = str(rng.choice(['orthL', 'orthR', 'mpo-orth', 'tdvp1', 'dmrg1', 'compress']))
    ctx.case(('insitu', name, prof, op), nontrivial=True, sample={'model': name, 'L': L, 'profile': prof, 'op': op})
    with monitor.attached('pytenet.bond_ops.qr', around):
        zero = np.linalg.norm(ptn.MPS.as_vector(psi)) == 0
        if op == 'orthL':
            psi.orthonormalize('left')
        elif op == 'orthR':
            psi.orthonormalize('right')
        elif op == 'mpo-orth':
            H.orthonormalize(str(rng.choice(['left', 'right'])))
        elif op == 'compress':
            if not zero:
                psi.compress(float(rng.choice([0, 1e-3])), str(rng.choice(['left', 'right'])))
        elif op == 'tdvp1':
            if not zero:
                ptn.integrate_local_singlesite(H, psi, 0.1j, 1, numiter_lanczos=4)
        elif op == 'dmrg1':
            if not zero:
                ptn.calculate_ground_state_local_singlesite(H, psi, 1, numiter_lanczos=4)
    ctx.event('insitu_qr_calls', len(calls))


def soak_case(ctx, idx, rng):
    """The repository's own test-suite with the full QR oracle attached to every call of bond_ops.qr (real call sites, the tests' own data)."""
    from .. import soak
    calls = []

    def around(orig, A, q0, q1):
        snap = oracles.snapshot_arrays(A, q0, q1)
        res = orig(A, q0, q1)
        calls.append(1)
        oracles.check_qr(ctx, snap[0], np.asarray(snap[1]), np.asarray(snap[2]), (A, q0, q1), res, in_situ=True)
        return res
    ctx.case(('soak', 'repository-test-suite'), sample={'functions_monitored': ['pytenet.bond_ops.qr']})
    soak.run_suite(ctx, [('pytenet.bond_ops.qr', around)])
    ctx.event('soak_qr_calls', len(calls))


SPEC = {
    'id': 'C11',
    'rule': ('exhaustive: every charge vector in {0,1,2}^(m+n) for all shapes m,n<=3 (quick) / <=4 (thorough), each with '
             'complex full-rank, real, rank-one-per-block, zero, exactly-zero rows/columns, 0/1-valued and exactly duplicated rows/columns; random: shapes up to 40x40 incl. 1xn, mx1, layouts '
             'zero/sorted/unsorted/one-side-sorted/disjoint/|q|~1e9/encoded pairs, scales 1e-280..1e280; in situ: qr as driven by '
             'orthonormalize/compress/TDVP/DMRG. A case is non-trivial when the matrix is non-zero and the charge vectors share '
             'at least one value; distinct = distinct (shape class, layout, entry kind, sortedness, overlap) signatures.'),
    'deciding': ['qr.product', 'qr.isometry', 'qr.sector-Q', 'qr.sector-R', 'qr.disjoint', 'qr.operands-unchanged'],
    'workloads': [
        Workload('exhaustive', make_exhaustive(3), quick=_count(3), thorough=0,
                 exhaustive={'space': 'all q in {0,1,2}^(m+n), m,n<=3, x7 entry kinds'}),
        Workload('exhaustive4', make_exhaustive(4), quick=0, thorough=_count(4),
                 exhaustive={'space': 'all q in {0,1,2}^(m+n), m,n<=4, x7 entry kinds'}),
        Workload('random', random_case, quick=3000, thorough=960000),
        Workload('insitu', insitu_case, quick=150, thorough=15000),
        Workload('suite-soak', soak_case, quick=0, thorough=1, shardable=False),
    ],
    'shards': {'quick': 1, 'thorough': 16},
    'assumptions': ['numpy.linalg.norm / matmul are the trusted base of the oracle',
                    'tolerances: product 1e-11*|A|_F, isometry 1e-11*sqrt(k)'],
}
