"""C01 — orthonormalization never changes the represented state or operator."""
import numpy as np

from .. import gen, monitor, refs
from ..core import Workload
from ..env import ptn


def snapshot(obj, is_mpo):
    dense = refs.dense_operator(obj.A) if is_mpo else refs.dense_state(obj.A)
    single = any(np.asarray(a).dtype.kind in 'fc' and float(np.finfo(np.asarray(a).dtype).eps) > 1e-10 for a in obj.A)
    scale = float(np.prod([max(np.linalg.norm(np.asarray(a, dtype=complex)), 1e-300) for a in obj.A])) if len(obj.A) else 1.0
    return {'scale': scale, 'dense': dense, 'D': [len(q) for q in obj.qD], 'qD0': np.array(obj.qD[0], copy=True), 'qDL': np.array(obj.qD[-1], copy=True),
            'qd': np.array(obj.qd, copy=True), 'single': single, 'A': [np.array(a, copy=True) for a in obj.A], 'qD': [np.array(q, copy=True) for q in obj.qD]}


def orth_post(ctx, old, obj, nrm, mode, is_mpo, in_situ=False):
    tag = 'mpo' if is_mpo else 'mps'
    s = in_situ
    detail = {'mode': mode, 'A': old['A'], 'qd': old['qd'], 'qD': old['qD']}
    eps = 1e-4 if old['single'] else 1e-10
    n0 = float(np.linalg.norm(old['dense']))
    # natural scale: product of the tensor norms. An object whose dense norm is at rounding level relative to it (exact cancellation
    # between non-zero tensors) is numerically zero: only 'factor ~ 0, no exception' can be demanded there.
    noise = (1e-5 if old['single'] else 1e-13) * old['scale']
    numerically_zero = 0 < n0 <= 100 * noise
    if numerically_zero:
        ctx.event('numerically_zero_object')
        n0_eff = 0.0
    else:
        n0_eff = n0
    ok = isinstance(nrm, (int, float, np.floating, np.integer)) and not isinstance(nrm, (complex, np.complexfloating)) and np.isfinite(nrm)
    if not ctx.ok(f'{tag}.factor-real-finite', bool(ok), f'returned factor {nrm!r} is not a finite real number', detail, s):
        return
    nrm = float(nrm)
    ctx.ok(f'{tag}.factor-nonnegative', nrm >= 0, f'returned factor {nrm} < 0', detail, s)
    ctx.close(f'{tag}.factor-equals-norm', abs(nrm - n0), eps * n0 + 100 * noise, f'factor {nrm} != norm {n0}', detail, s)
    inv = refs.mpo_invariant(obj) if is_mpo else refs.mps_invariant(obj)
    if not ctx.ok(f'{tag}.block-sparse-after', inv is None, f'after orthonormalize: {inv}', detail, s):
        return
    new = refs.dense_operator(obj.A) if is_mpo else refs.dense_state(obj.A)
    ctx.close(f'{tag}.factor-times-new-equals-old', np.linalg.norm(nrm * new - old['dense']), eps * n0 + 100 * noise, 'factor * new dense != original dense', detail, s)
    L = len(obj.A)
    worst = 0.0
    for i, A in enumerate(obj.A):
        if is_mpo:
            M = A.reshape(-1, A.shape[3]) if mode == 'left' else A.transpose(0, 1, 3, 2).reshape(-1, A.shape[2])
        else:
            M = A.reshape(-1, A.shape[2]) if mode == 'left' else A.transpose(0, 2, 1).reshape(-1, A.shape[1])
        k = M.shape[1]
        worst = max(worst, float(np.linalg.norm(M.conj().T @ M - np.identity(k))) / max(1.0, np.sqrt(k)))
    if numerically_zero:
        ctx.skip(f'{tag}.site-isometries')
    elif n0 > 0:
        ctx.close(f'{tag}.site-isometries', worst, eps * 10, f'a site tensor is not an isometry in direction {mode}', detail, s)
        ctx.close(f'{tag}.unit-norm-after', abs(np.linalg.norm(new) - 1), eps * 10, 'norm after orthonormalize != 1 for a non-zero object', detail, s)
        ctx.ok(f'{tag}.boundary-charges-kept', np.array_equal(obj.qD[0], old['qD0']) and np.array_equal(obj.qD[-1], old['qDL']),
               f'boundary quantum numbers changed: {old["qD0"]},{old["qDL"]} -> {obj.qD[0]},{obj.qD[-1]}', detail, s)
    else:
        ctx.ok(f'{tag}.zero-object-factor-zero', nrm <= 100 * noise, f'zero object (tensor scale {old["scale"]:.2e}) but factor {nrm}', detail, s)
    D = [len(q) for q in obj.qD]
    dd = len(obj.qd) ** (2 if is_mpo else 1)
    if mode == 'left':
        ok = all(D[i + 1] <= min(dd * D[i], old['D'][i + 1]) for i in range(L))
    else:
        ok = all(D[i] <= min(dd * D[i + 1], old['D'][i]) for i in range(L))
    ctx.ok(f'{tag}.bond-dims-bounded', ok, f'bond dims {old["D"]} -> {D} exceed what the neighbours allow (mode {mode})', detail, s)
    ctx.ok(f'{tag}.inexact-dtype', all(np.issubdtype(a.dtype, np.inexact) for a in obj.A), 'tensor dtype after orthonormalize is not floating', detail, s)


def add_structure(rng, obj, is_mpo, how):
    """Exact structural sparsity / dependency on a random inner bond: 'dead' (a bond index whose slice is exactly zero on one or both
    sides), 'dup' (one bond slice an exact copy / multiple of another with the same charge), 'sparse' (random entries set to exactly 0)."""
    L = len(obj.A)
    ax_r = 3 if is_mpo else 2          # right-bond axis of the left tensor
    ax_l = 2 if is_mpo else 1          # left-bond axis of the right tensor
    if how == 'sparse':
        for i in range(L):
            obj.A[i] = obj.A[i] * (rng.random(size=obj.A[i].shape) < 0.5)
        return
    if L < 2:
        return
    for _ in range(int(rng.integers(1, 3))):
        k = int(rng.integers(1, L))        # bond k between tensors k-1 and k
        D = len(obj.qD[k])
        j = int(rng.integers(0, D))
        side = str(rng.choice(['left', 'right', 'both']))
        if how == 'dead':
            if side in ('left', 'both'):
                idx = [slice(None)] * obj.A[k - 1].ndim; idx[ax_r] = j
                obj.A[k - 1][tuple(idx)] = 0
            if side in ('right', 'both'):
                idx = [slice(None)] * obj.A[k].ndim; idx[ax_l] = j
                obj.A[k][tuple(idx)] = 0
        elif how == 'dup':
            same = [m for m in range(D) if m != j and int(obj.qD[k][m]) == int(obj.qD[k][j])]
            if not same:
                continue
            m = int(rng.choice(same))
            c = float(rng.choice([1.0, -1.0, 2.0]))
            if side in ('left', 'both'):
                src = [slice(None)] * obj.A[k - 1].ndim; src[ax_r] = j
                dst = [slice(None)] * obj.A[k - 1].ndim; dst[ax_r] = m
                obj.A[k - 1][tuple(dst)] = c * obj.A[k - 1][tuple(src)]
            if side in ('right', 'both'):
                src = [slice(None)] * obj.A[k].ndim; src[ax_l] = j
                dst = [slice(None)] * obj.A[k].ndim; dst[ax_l] = m
                obj.A[k][tuple(dst)] = c * obj.A[k][tuple(src)]


STRUCT = ['none', 'none', 'dead', 'dup', 'sparse']
ZERO_PARAM_MODELS = [('ising', (1.0, 0.0, 0.0)), ('ising', (0.7, 0.0, 0.4)), ('ising', (0.0, 0.5, 0.0)), ('xxz', (1.0, 0.0, 0.0)), ('xxz', (0.0, 1.0, 0.0)),
                     ('xxz', (0.0, 0.0, 1.0)), ('xxz1', (1.0, 0.0, 0.0)), ('xxz1', (0.0, 1.0, 0.5)), ('bose3', (1.0, 0.0, 0.0)), ('bose3', (0.0, 1.0, 1.0)),
                     ('fermi', (1.0, 0.0, 0.0)), ('fermi', (0.0, 1.0, 0.0))]

PROFILES = ['one', 'random', 'max', 'over', 'disjoint', 'deficient']
LAYOUTS = ['zero', 'sorted', 'unsorted', 'repeated', 'pairs', 'huge', 'aliased']
KINDS = ['complex', 'real', 'int', 'float32', 'mixed', 'complex64', 'complex-be', 'real-be']


def _qd(rng, d, layout):
    if layout == 'zero':
        return np.zeros(d, dtype=int)
    if layout == 'repeated':
        return np.full(d, int(rng.integers(-1, 2)))
    if layout == 'pairs':
        return (rng.integers(0, 2, size=d) << 16) + rng.integers(-1, 2, size=d)
    if layout == 'aliased':
        # distinct physical charges that coincide modulo 2**32 / 2**16 (sums over <= 8 sites stay far inside int64)
        step = int(rng.choice([1 << 32, 1 << 16, 1 << 31]))
        pool = np.array([0, step, -step, 1, 1 + step], dtype=np.int64)
        return pool[rng.integers(0, len(pool), size=d)]
    if layout == 'huge':
        # physical charges beyond 2**53 differing by single units (sums over <= 8 sites stay inside int64, but are not representable as doubles)
        return int(rng.choice([(1 << 53) + 1, -(1 << 55) - 3])) + rng.integers(-1, 2, size=d).astype(np.int64)
    q = rng.integers(-1, 2, size=d)
    return np.sort(q) if layout == 'sorted' else q


def mps_case(ctx, idx, rng):
    L = int(rng.choice([1, 1, 2, 3, 4, 5, 6]))
    d = int(rng.choice([1, 2, 2, 3, 4]))
    while d ** L > 4096:
        L -= 1
    prof = PROFILES[idx % len(PROFILES)]
    layout = LAYOUTS[(idx // len(PROFILES)) % len(LAYOUTS)]
    kind = KINDS[(idx // 7) % len(KINDS)]
    mode = ('left', 'right')[idx % 2 if L > 0 else 0]
    qd = _qd(rng, d, layout)
    if prof == 'deficient':
        psi = gen.rank_deficient_mps(rng, qd, L)
    else:
        psi = gen.rand_mps(rng, qd, L, prof, Dmax=5, kind=kind, q0=int(rng.integers(-1, 2)), layout='sorted' if layout == 'sorted' else 'unsorted')
    if kind == 'int' and prof != 'deficient' and rng.random() < 0.3:
        psi = ptn.MPS(psi.qd, psi.qD, fill=int(rng.choice([1, 2, -1])))    # the documented scalar-fill constructor with an integer
    elif prof != 'deficient' and rng.random() < 0.15:
        psi = ptn.MPS(psi.qd, psi.qD, fill=complex(rng.choice([0.5, 1.0]), rng.choice([0.0, -1.0])) if rng.random() < 0.5 else float(rng.choice([0.5, -2.0])))
    struct = STRUCT[(idx // 3) % len(STRUCT)]
    add_structure(rng, psi, False, struct)
    if idx % 17 == 5:
        # a quantum-number-free complex state whose unfoldings satisfy M^T M = 1 but NOT M^H M = 1 (complex-orthogonal columns)
        layout, kind, prof = 'zero', 'complex', 'random'
        qd = np.zeros(d, dtype=int)
        psi = gen.rand_mps(rng, qd, L, 'random', Dmax=4, kind='complex')
        struct = 'none+' + gen.pseudo_canonical(rng, psi, 'complex-orthogonal')
    elif idx % 11 == 6 and kind in ('complex', 'real') and prof != 'deficient':
        struct = struct + '+' + gen.pseudo_canonical(rng, psi)          # looks canonical (norm coincidences), is not
    if idx % 8 == 3 and layout not in ('pairs', 'huge', 'aliased'):
        # quantum numbers stored in a narrower integer type (values are small: no overflow in any legitimate sum)
        dt = (np.int32, np.int16, np.int8)[(idx // 8) % 3]
        psi.qd = psi.qd.astype(dt)
        psi.qD = [q.astype(dt) for q in psi.qD]
        layout = layout + '-' + np.dtype(dt).name
    old = snapshot(psi, False)
    zero = np.linalg.norm(old['dense']) == 0
    ctx.case(('mps', f'L{min(L, 3)}', f'd{min(d, 3)}', prof, layout, kind if prof != 'deficient' else 'complex', mode, 'zero-state' if zero else 'nonzero', struct),
             nontrivial=not zero, sample={'qd': psi.qd, 'qD': psi.qD, 'mode': mode, 'A0': psi.A[0]}, info={'qd': old['qd'], 'qD': old['qD'], 'A': old['A'], 'mode': mode})
    nrm = psi.orthonormalize(mode if idx % 5 else np.str_(mode)) if not (mode == 'left' and idx % 4 == 0) else psi.orthonormalize()      # default mode is 'left'
    orth_post(ctx, old, psi, nrm, mode, False)
    if not zero and not ctx._case_failed:
        # second call on the already canonical object: factor 1, nothing changes in meaning
        mode2 = mode if rng.random() < 0.5 else ('right' if mode == 'left' else 'left')
        old2 = snapshot(psi, False)
        n2 = psi.orthonormalize(mode2)
        orth_post(ctx, old2, psi, n2, mode2, False)
        ctx.close('mps.second-call-factor-one', abs(float(n2) - 1), 1e-4 if old['single'] else 1e-10, 'factor of an already normalised state != 1',
                  {'mode': mode2})


def mpo_case(ctx, idx, rng):
    L = int(rng.choice([1, 2, 3, 4]))
    d = int(rng.choice([1, 2, 2, 3]))
    while d ** (2 * L) > 4096 * 4:
        L -= 1
    layout = LAYOUTS[idx % len(LAYOUTS)]
    kind = ('complex', 'real', 'int', 'mixed')[(idx // 5) % 4]
    mode = ('left', 'right')[idx % 2]
    qd = _qd(rng, d, layout)
    src = str(rng.choice(['random', 'random', 'model', 'over', 'disjoint', 'zero-param-model', 'charge-diagonal', 'structured-blocks']))
    if src == 'structured-blocks' and (d < 2 or np.any(qd)):
        src = 'random'
    struct = STRUCT[(idx // 3) % len(STRUCT)]
    if src == 'charge-diagonal' and (L < 2 or not np.any(qd - qd[0])):
        src = 'random'
    if src == 'zero-param-model':
        name, p = ZERO_PARAM_MODELS[idx % len(ZERO_PARAM_MODELS)]
        L = max(L, 2)
        while gen.MODEL_D[name] ** (2 * L) > 4096 * 4:
            L -= 1
        op = gen.model(name, max(L, 2), p)
        L = op.nsites
        d = len(op.qd)
        struct = 'none'
    elif src == 'model' and d >= 2:
        name = {2: 'xxz', 3: 'xxz1'}[d]
        op = gen.model(name, L, gen.generic_params(rng)) if L >= 2 else gen.rand_mpo(rng, qd, L, 4, kind)
    elif src == 'structured-blocks':
        # tensors assembled from structured operator blocks (zero blocks, identities, c*I + g*X, projectors, shifts): rank-deficient, exactly repeated columns
        op = gen.structured_block_mpo(rng, d, L, Dmax=4, cplx=(kind != 'real'))
    elif src == 'charge-diagonal':
        # ALL bond labels zero although the physical labels are not (interaction-only Hamiltonians, t = 0 models), bonds larger than d^2 can fill:
        # rank-deficient QR steps whose completion must still respect the physical labels
        qDz = [np.zeros(1, dtype=int)] + [np.zeros(int(rng.integers(2, 8)), dtype=int) for _ in range(L - 1)] + [np.zeros(1, dtype=int)]
        op = ptn.MPO(qd, qDz, fill='random', rng=np.random.default_rng(int(rng.integers(0, 2 ** 31))))
        if kind == 'real':
            op.A = [np.ascontiguousarray(a.real) for a in op.A]
    else:
        op = gen.rand_mpo(rng, qd, L, Dmax=(7 if src == 'over' else 4), kind=kind, layout='sorted' if layout == 'sorted' else 'unsorted')
        if src == 'disjoint' and L >= 2:
            k = int(rng.integers(1, L))
            op.qD[k] = op.qD[k] + 1000
            d_ = len(qd)
            for i in (k - 1, k):
                mask = np.add.outer(np.add.outer(np.add.outer(op.qd, -op.qd), op.qD[i]), -op.qD[i + 1])
                op.A[i] = np.where(mask == 0, op.A[i], 0)
    if src != 'zero-param-model':
        add_structure(rng, op, True, struct)
    old = snapshot(op, True)
    zero = np.linalg.norm(old['dense']) == 0
    ctx.case(('mpo', f'L{L}', f'd{d}', src, layout, kind, mode, 'zero-op' if zero else 'nonzero', struct), nontrivial=not zero,
             sample={'qd': op.qd, 'qD': op.qD, 'mode': mode}, info={'qd': old['qd'], 'qD': old['qD'], 'A': old['A'], 'mode': mode})
    nrm = op.orthonormalize(mode) if not (mode == 'left' and idx % 4 == 0) else op.orthonormalize()
    orth_post(ctx, old, op, nrm, mode, True)


EXPS = [0, 0, 0, 140, -140, 300, -300, 560, -560, 830, -830]          # binary exponents: 2**830 ~ 7e249, 2**-560 ~ 3e-169


def sweep_exponents(rng, L, mode, limit=930):
    """Per-site binary exponents whose running sums in sweep direction (the scale carried by the R factor) and total stay representable."""
    for _ in range(200):
        k = [int(rng.choice(EXPS)) for _ in range(L)]
        run = np.cumsum(k if mode == 'left' else k[::-1])
        if np.all(np.abs(run) <= limit) and any(k):
            return k
    k = [0] * L
    k[int(rng.integers(0, L))] = int(rng.choice([-560, 560, -830, 830]))
    return k


def monotone_label_case(ctx, idx, rng):
    """States whose label arrays are MONOTONE WITH REPEATS (physical labels such as [1,1,1,0,0,0], bond labels in one or two sectors, non-increasing or
    non-decreasing) and whose site matrices have 4000 .. 30000 entries (d = 4..6, bonds 10..70): 'already sorted' shortcuts, reversal instead of a stable
    sort, size thresholds. Dense reach is kept (L = 3, 4), so every C01 relation is checked against the dense vector."""
    d = int(rng.choice([4, 5, 6]))
    L = int(rng.choice([4, 4, 5]))
    direction = ('descending', 'ascending')[idx % 2]
    vals = sorted(int(x) for x in rng.choice([0, 0, 0, 1, 1, 1, -1], size=d))
    qd = np.array(vals[::-1] if direction == 'descending' else vals)
    q0 = int(rng.integers(-1, 2))
    qD = [np.array([q0])]
    for i in range(1, L):
        prof = [None, (4, 9), (10, 31), (40, 91), (4, 12)][i]
        if (idx // 2) % 2:
            prof = [None, (4, 12), (40, 91), (10, 31), (4, 9)][i + (5 - L)] if L == 4 else [None, (4, 12), (40, 91), (10, 31), (4, 9)][i]        # mirrored for the right-to-left sweep
        D = int(rng.integers(*prof))
        reach = np.unique(np.add.outer(qD[-1], qd).reshape(-1))
        pick = rng.random()
        lab = np.sort(rng.choice(reach[:1] if pick < 0.4 else (reach[:2] if pick < 0.7 else reach), size=D))        # often a single sector: all labels equal
        qD.append(lab[::-1].copy() if (direction == 'descending') != bool(i % 2 and idx % 4 >= 2) else lab)
    reach = np.unique(np.add.outer(qD[-1], qd).reshape(-1))
    qD.append(np.array([int(rng.choice(reach))]))
    psi = ptn.MPS(qd, qD, fill='random', rng=np.random.default_rng(int(rng.integers(0, 2 ** 31))))
    if idx % 3 == 0:
        psi.A = [np.ascontiguousarray(a.real) for a in psi.A]
    mode = ('left', 'right')[(idx // 2) % 2]
    old = snapshot(psi, False)
    zero = np.linalg.norm(old['dense']) == 0
    ctx.case(('mps', 'monotone-labels', direction, f'L{L}', f'd{d}', mode, 'zero-state' if zero else 'nonzero', 'real' if idx % 3 == 0 else 'complex'),
             nontrivial=not zero, sample={'qd': psi.qd, 'bond_dims': psi.bond_dims, 'mode': mode}, info={'qd': old['qd'], 'qD': old['qD'], 'A': old['A'], 'mode': mode})
    nrm = psi.orthonormalize(mode)
    orth_post(ctx, old, psi, nrm, mode, False)


def extreme_scale_case(ctx, idx, rng):
    """Tensors scaled by exact powers of two between 2**-830 and 2**830 (single tiny / huge tensors, compensating pairs, everything tiny):
    every intermediate of the sweep is representable, so the claims must hold exactly as for the unscaled object, whose dense form
    (times the exactly known power of two) is the reference."""
    is_mpo = idx % 3 == 2
    mode = ('left', 'right')[(idx // 3) % 2]
    kind = ('complex', 'real', 'mixed')[(idx // 6) % 3]
    layout = LAYOUTS[(idx // 2) % len(LAYOUTS)]
    if is_mpo:
        L = int(rng.integers(1, 5)); d = int(rng.choice([1, 2, 3]))
        while d ** (2 * L) > 4096:
            L -= 1
        obj = gen.rand_mpo(rng, _qd(rng, d, layout), L, Dmax=4, kind=kind)
    else:
        L = int(rng.integers(1, 7)); d = int(rng.choice([1, 2, 3, 4]))
        while d ** L > 4096:
            L -= 1
        prof = str(rng.choice(['random', 'max', 'over', 'one']))
        obj = gen.rand_mps(rng, _qd(rng, d, layout), L, prof, Dmax=5, kind=kind, q0=int(rng.integers(-1, 2)))
    if rng.random() < 0.3:
        add_structure(rng, obj, is_mpo, str(rng.choice(['dead', 'dup', 'sparse'])))
    old = snapshot(obj, is_mpo)
    zero = np.linalg.norm(old['dense']) == 0
    ks = sweep_exponents(rng, L, mode)
    K = int(sum(ks))
    for i, k in enumerate(ks):
        obj.A[i] = np.ldexp(obj.A[i].real, k) + (1j * np.ldexp(obj.A[i].imag, k) if np.iscomplexobj(obj.A[i]) else 0) if k else obj.A[i]
    cls = 'compensated' if K == 0 else ('tiny' if K < 0 else 'huge')
    ctx.case(('extreme', 'mpo' if is_mpo else 'mps', f'L{min(L, 3)}', cls, f'|K|>{min(abs(K) // 280 * 280, 560)}', mode, kind, 'zero' if zero else 'nonzero'), nontrivial=not zero,
             sample={'binary_exponents': ks, 'mode': mode, 'qd': obj.qd, 'qD': obj.qD}, info={'qd': old['qd'], 'qD': old['qD'], 'A(unscaled)': old['A'], 'binary_exponents': ks, 'mode': mode})
    nrm = obj.orthonormalize(mode)
    tag = 'mpo' if is_mpo else 'mps'
    if not ctx.ok(f'{tag}.factor-real-finite', isinstance(nrm, (int, float, np.floating, np.integer)) and bool(np.isfinite(nrm)),
                  f'returned factor {nrm!r} is not a finite real number (tensor scales 2**{ks})', {'binary_exponents': ks, 'mode': mode}):
        return
    orth_post(ctx, old, obj, np.ldexp(float(nrm), -K), mode, is_mpo)


def sequence_case(ctx, idx, rng):
    """The same object orthonormalised repeatedly with edits in between (tensor replaced, scaled in place, compressed, evolved): every call
    must again return the norm of the object as it is at that moment."""
    is_mpo = bool(idx % 5 == 4)
    L = int(rng.integers(1, 6))
    d = int(rng.choice([2, 2, 3]))
    if is_mpo:
        L = min(L, 3)
    qd = _qd(rng, d, str(rng.choice(['zero', 'unsorted', 'sorted'])))
    obj = gen.rand_mpo(rng, qd, L, Dmax=3) if is_mpo else gen.rand_mps(rng, qd, L, str(rng.choice(['random', 'max'])), Dmax=4, kind=str(rng.choice(['complex', 'real'])))
    hist = []
    nsteps = int(rng.integers(2, 6))
    for step in range(nsteps):
        op = str(rng.choice(['orth-left', 'orth-right', 'replace-tensor', 'scale-inplace', 'compress', 'add-self']))
        if op in ('compress', 'add-self') and is_mpo:
            op = 'scale-inplace'
        if op.startswith('orth'):
            mode = op.split('-')[1]
            old = snapshot(obj, is_mpo)
            ctx.cur_info = {'history': hist + [op], 'qd': old['qd'], 'qD': old['qD'], 'A': old['A'], 'mode': mode}
            nrm = obj.orthonormalize(mode)
            orth_post(ctx, old, obj, nrm, mode, is_mpo)
            if ctx._case_failed:
                break
        elif op == 'replace-tensor':
            i = int(rng.integers(0, L))
            sh = obj.A[i].shape
            new = gen.entries(rng, sh, 'complex')
            if is_mpo:
                mask = np.add.outer(np.add.outer(np.add.outer(obj.qd, -obj.qd), obj.qD[i]), -obj.qD[i + 1])
            else:
                mask = np.add.outer(np.add.outer(obj.qd, obj.qD[i]), -obj.qD[i + 1])
            obj.A[i] = np.where(mask == 0, new, 0)
        elif op == 'scale-inplace':
            i = int(rng.integers(0, L))
            obj.A[i] = obj.A[i] * complex(rng.choice([2.0, -0.5, 1j, 3.0]))
        elif op == 'compress':
            if np.linalg.norm(refs.dense_state(obj.A)) > 1e-8:
                obj.compress(float(rng.choice([0, 1e-3])), str(rng.choice(['left', 'right'])))
            else:
                continue
        elif op == 'add-self':
            if sum(obj.bond_dims) < 20:
                obj = obj + obj
            else:
                continue
        hist.append(op)
    ctx.case(('sequence', 'mpo' if is_mpo else 'mps', f'L{L}') + tuple(hist), nontrivial=len([h for h in hist if h.startswith('orth')]) >= 1, sample={'history': hist, 'L': L, 'd': d})


def large_case(ctx, idx, rng):
    """Beyond the dense reach (L up to 24, d up to 6, bonds up to 16): the same claims through transfer-matrix overlaps with probe states."""
    from .. import large
    L = int(rng.integers(8, 25))
    d = int(rng.choice([2, 3, 5, 6]))
    Dmax = int(rng.choice([6, 10, 16]))
    if idx % 8 == 5:
        # short chain with very large (redundant) bonds: work arrays far beyond the usual sizes
        L, d, Dmax = int(rng.choice([3, 4])), int(rng.choice([2, 3])), int(rng.integers(200, 400))
    layout = str(rng.choice(['zero', 'unsorted', 'sorted', 'pairs']))
    qd = _qd(rng, d, layout)
    kind = str(rng.choice(['complex', 'real', 'mixed']))
    psi = large.big_state(rng, qd, L, Dmax, kind)
    mode = ('left', 'right')[idx % 2]
    A_old = [np.array(a, dtype=complex) for a in psi.A]
    D_old = list(psi.bond_dims)
    n0 = large.norm_of(A_old)
    sc = large.tensor_scale(A_old)
    probes = large.probes_near(rng, A_old)
    o_old = [refs.mps_overlap(p, A_old) for p in probes]
    ends = (psi.qD[0].copy(), psi.qD[-1].copy())
    ctx.case(('large-mps', f'L{L // 8 * 8}+', f'd{d}', f'D{Dmax}', layout, kind, mode), sample={'L': L, 'd': d, 'bond_dims': D_old, 'mode': mode})
    detail = {'L': L, 'd': d, 'bond_dims': D_old, 'mode': mode, 'qd': qd}
    nrm = psi.orthonormalize(mode)
    inv = refs.mps_invariant(psi)
    if not ctx.ok('large.block-sparse-after', inv is None, str(inv), detail):
        return
    nrm = float(nrm)
    ctx.ok('large.factor-nonnegative', nrm >= 0, f'factor {nrm}', detail)
    ctx.close('large.factor-equals-norm', abs(nrm - n0), 1e-9 * n0 + 1e-12 * sc, f'factor {nrm} != norm {n0}', detail)
    ctx.close('large.unit-norm-after', abs(large.norm_of(psi.A) - 1), 1e-9, 'norm after orthonormalize != 1', detail)
    worst = 0.0
    for A in psi.A:
        M = A.reshape(-1, A.shape[2]) if mode == 'left' else A.transpose(0, 2, 1).reshape(-1, A.shape[1])
        worst = max(worst, float(np.linalg.norm(M.conj().T @ M - np.identity(M.shape[1]))) / max(1.0, np.sqrt(M.shape[1])))
    ctx.close('large.site-isometries', worst, 1e-9, f'a site tensor is not an isometry in direction {mode}', detail)
    for k, (p, o) in enumerate(zip(probes, o_old)):
        ctx.close('large.factor-times-new-equals-old[probe-overlaps]', abs(nrm * refs.mps_overlap(p, psi.A) - o), 1e-9 * large.norm_of(p) * n0 + 1e-12 * large.tensor_scale(p) * sc,
                  f'<probe|old> != factor <probe|new> (probe {k})', detail)
    D = list(psi.bond_dims)
    if mode == 'left':
        okb = all(D[i + 1] <= min(d * D[i], D_old[i + 1]) for i in range(L))
    else:
        okb = all(D[i] <= min(d * D[i + 1], D_old[i]) for i in range(L))
    ctx.ok('large.bond-dims-bounded', okb, f'bond dims {D_old} -> {D}', detail)
    ctx.ok('large.boundary-charges-kept', np.array_equal(psi.qD[0], ends[0]) and np.array_equal(psi.qD[-1], ends[1]), 'boundary charges changed', detail)


def long_chain_case(ctx, idx, rng):
    """Chains of 40..320 sites with un-normalised random tensors: the norm drifts by hundreds of binary orders of magnitude along the chain
    (towards under- or overflow) while staying representable; reference norms and probe overlaps in mantissa/exponent form."""
    L = int(rng.choice([40, 80, 160, 240, 320]))
    d = int(rng.choice([2, 3]))
    Dmax = int(rng.choice([2, 4, 8]))
    layout = str(rng.choice(['zero', 'unsorted', 'pairs']))
    qd = _qd(rng, d, layout)
    kind = str(rng.choice(['complex', 'real']))
    psi = gen.rand_mps(rng, qd, L, 'random', Dmax=Dmax, kind=kind, q0=int(rng.integers(-1, 2)))
    # per-site gain: drift of the norm along the chain (2**-3 .. 2**3 per site -> up to 2**+-960 in total, clipped to the representable range)
    g = int(rng.integers(-3, 4))
    gains = [g] * L
    m2, e2 = refs.mps_overlap_log(psi.A, psi.A)
    if m2 == 0:
        psi = gen.rand_mps(rng, np.zeros(d, dtype=int), L, 'random', Dmax=Dmax, kind=kind)
        m2, e2 = refs.mps_overlap_log(psi.A, psi.A)
    # choose the total gain so that log2(norm) lands in [-900, 900]
    base = (e2 + np.log2(abs(m2))) / 2
    target = float(rng.choice([-900, -600, -300, 0, 300, 600, 900]))
    tot = int(round(target - base))
    per, rest = divmod(tot, L) if tot >= 0 else (-((-tot) // L), -((-tot) % L))
    gains = [per + (int(np.sign(rest)) if i < abs(rest) else 0) for i in range(L)]
    for i, k in enumerate(gains):
        if k:
            psi.A[i] = np.ldexp(psi.A[i].real, k) + (1j * np.ldexp(psi.A[i].imag, k) if np.iscomplexobj(psi.A[i]) else 0)
    mode = ('left', 'right')[idx % 2]
    A_old = [np.array(a, dtype=complex) for a in psi.A]
    D_old = list(psi.bond_dims)
    m2, e2 = refs.mps_overlap_log(A_old, A_old)
    log2n0 = (e2 + np.log2(abs(m2))) / 2
    ctx.case(('long-chain', f'L{L}', f'd{d}', f'D{Dmax}', layout, kind, mode, f'log2norm~{int(round(log2n0 / 300)) * 300}'),
             sample={'L': L, 'd': d, 'Dmax': Dmax, 'mode': mode, 'log2_norm': log2n0})
    detail = {'L': L, 'd': d, 'qd': qd, 'bond_dims': D_old, 'mode': mode, 'log2_norm': log2n0, 'per_site_binary_gain': sorted(set(gains))}
    ends = (psi.qD[0].copy(), psi.qD[-1].copy())
    nrm = psi.orthonormalize(mode)
    inv = refs.mps_invariant(psi)
    if not ctx.ok('long.block-sparse-after', inv is None, str(inv), detail):
        return
    if not ctx.ok('long.factor-real-finite', isinstance(nrm, (float, np.floating)) and bool(np.isfinite(nrm)) and nrm > 0, f'factor {nrm!r} for a state of norm 2**{log2n0:.1f}', detail):
        return
    ctx.close('long.factor-equals-norm', abs(np.log2(float(nrm)) - log2n0), 1e-7, f'log2(factor) {np.log2(float(nrm))} != log2(norm) {log2n0}', detail)
    m1, e1 = refs.mps_overlap_log(psi.A, psi.A)
    ctx.close('long.unit-norm-after', abs(np.sqrt(abs(m1)) * 2.0 ** (e1 / 2) - 1), 1e-8, 'norm after orthonormalize != 1', detail)
    worst = 0.0
    for A in psi.A:
        M = A.reshape(-1, A.shape[2]) if mode == 'left' else A.transpose(0, 2, 1).reshape(-1, A.shape[1])
        worst = max(worst, float(np.linalg.norm(M.conj().T @ M - np.identity(M.shape[1]))) / max(1.0, np.sqrt(M.shape[1])))
    ctx.close('long.site-isometries', worst, 1e-9, f'a site tensor is not an isometry in direction {mode}', detail)
    # same ray: |<old|new>| = |old| |new|, with the overlap in mantissa/exponent form; phase: <old|new> real positive (factor > 0)
    mo, eo = refs.mps_overlap_log(A_old, psi.A)
    ratio = abs(mo) * 2.0 ** (eo - log2n0 - (e1 + np.log2(abs(m1))) / 2) if mo != 0 else 0.0
    ctx.close('long.same-ray', abs(ratio - 1), 1e-7, f'|<old|new>| / (|old||new|) = {ratio}', detail)
    ctx.close('long.same-phase', abs(np.angle(mo)) if mo != 0 else np.pi, 1e-7, 'factor * new has a different phase than old', detail)
    D = list(psi.bond_dims)
    if mode == 'left':
        okb = all(D[i + 1] <= min(d * D[i], D_old[i + 1]) for i in range(L))
    else:
        okb = all(D[i] <= min(d * D[i + 1], D_old[i]) for i in range(L))
    ctx.ok('long.bond-dims-bounded', okb, f'bond dims {D_old} -> {D}', detail)
    ctx.ok('long.boundary-charges-kept', np.array_equal(psi.qD[0], ends[0]) and np.array_equal(psi.qD[-1], ends[1]), 'boundary charges changed', detail)


def insitu_case(ctx, idx, rng):
    """orthonormalize as called by compress, TDVP and DMRG on their own data."""
    def around(orig, self, mode='left'):
        old = snapshot(self, False)
        nrm = orig(self, mode)
        orth_post(ctx, old, self, nrm, mode, False, in_situ=True)
        return nrm
    name, L, p, H = gen.pick_model(rng, maxdim=512, Lmax=6)
    prof = str(rng.choice(['random', 'max', 'over']))
    psi = gen.rand_mps(rng, H.qd, L, prof, Dmax=4)
    if np.linalg.norm(refs.dense_state(psi.A)) == 0:
        psi = gen.rand_mps(rng, H.qd, L, 'max', Dmax=4)
        if np.linalg.norm(refs.dense_state(psi.A)) == 0:
            return
    op = str(rng.choice(['compress', 'tdvp1', 'tdvp2', 'dmrg1', 'dmrg2']))
    ctx.case(('insitu', name, prof, op), sample={'model': name, 'L': L, 'op': op})
    with monitor.attached('pytenet.mps.MPS.orthonormalize', around):
        if op == 'compress':
            psi.compress(float(rng.choice([0, 1e-4])), str(rng.choice(['left', 'right'])))
        elif op == 'tdvp1':
            ptn.integrate_local_singlesite(H, psi, 0.1j, 1, numiter_lanczos=4)
        elif op == 'tdvp2':
            ptn.integrate_local_twosite(H, psi, 0.1j, 1, numiter_lanczos=4)
        elif op == 'dmrg1':
            ptn.calculate_ground_state_local_singlesite(H, psi, 1, numiter_lanczos=4)
        else:
            ptn.calculate_ground_state_local_twosite(H, psi, 1, numiter_lanczos=4)


def soak_case(ctx, idx, rng):
    """The repository's own test-suite with the orthonormalisation oracle attached to MPS.orthonormalize and MPO.orthonormalize (dense reference where
    the object is within dense reach)."""
    from .. import soak
    n = [0, 0]

    def make(is_mpo):
        def around(orig, self, mode='left'):
            dim = len(self.qd) ** ((2 if is_mpo else 1) * len(self.A))
            if dim > (4096 * 16 if is_mpo else 8192) or refs.mpo_invariant(self) is not None if is_mpo else (dim > 8192 or refs.mps_invariant(self) is not None):
                n[1] += 1
                return orig(self, mode)
            old = snapshot(self, is_mpo)
            nrm = orig(self, mode)
            n[0] += 1
            orth_post(ctx, old, self, nrm, mode, is_mpo, in_situ=True)
            return nrm
        return around
    ctx.case(('soak', 'repository-test-suite'), sample={'functions_monitored': ['MPS.orthonormalize', 'MPO.orthonormalize']})
    soak.run_suite(ctx, [('pytenet.mps.MPS.orthonormalize', make(False)), ('pytenet.mpo.MPO.orthonormalize', make(True))])
    ctx.event('soak_orthonormalize_calls_checked', n[0])
    ctx.event('soak_orthonormalize_calls_beyond_dense_reach', n[1])


SPEC = {
    'id': 'C01',
    'rule': ('MPS: L 1..6, d 1..4 (d^L <= 4096), bond profiles {all 1, random, maximal, over-complete, disjoint sectors (zero state), '
             'rank-deficient thin products} x charge layouts {zero, sorted, unsorted, repeated, encoded pairs} x entries {complex, real, integer '
             '(incl. the scalar-fill constructor), float32} x both modes, followed by a second call on the canonical object; MPO: L 1..4, d 1..3, '
             'random / built-in model / built-in model with vanishing parameters (exactly sparse tensors) / over-complete / disjoint; both classes '
             'additionally with exact structure on inner bonds: dead bond indices, exactly duplicated (dependent) bond slices, random exact zeros. Sequences: the same object orthonormalised repeatedly with edits in between (tensor replaced, scaled, compressed, added to itself). '
             'Large: MPS with L up to 24, d up to 6, bonds up to 16 through transfer-matrix overlaps with probe states (no dense object). In situ: orthonormalize as called from compress, TDVP, DMRG. '
             'Non-trivial = non-zero object; distinct = (class, L, d, profile, layout, entry kind, mode).'),
    'deciding': ['mps.factor-equals-norm', 'mps.factor-times-new-equals-old', 'mps.site-isometries', 'mps.unit-norm-after', 'mps.bond-dims-bounded',
                 'mpo.factor-equals-norm', 'mpo.factor-times-new-equals-old', 'mpo.site-isometries', 'mps.factor-nonnegative', 'mpo.factor-nonnegative'],
    'workloads': [
        Workload('mps', mps_case, quick=2400, thorough=400000),
        Workload('mpo', mpo_case, quick=1000, thorough=150000),
        Workload('sequence', sequence_case, quick=600, thorough=60000),
        Workload('monotone-labels', monotone_label_case, quick=120, thorough=12000),
        Workload('extreme-scales', extreme_scale_case, quick=600, thorough=60000),
        Workload('large', large_case, quick=60, thorough=6000),
        Workload('long-chain', long_chain_case, quick=40, thorough=3000),
        Workload('insitu', insitu_case, quick=80, thorough=10000),
        Workload('suite-soak', soak_case, quick=0, thorough=1, shardable=False),
    ],
    'shards': {'quick': 4, 'thorough': 16},
    'assumptions': ['dense contraction in pvm/refs.py; tolerance 1e-10 relative (1e-4 for single-precision tensors)'],
}
