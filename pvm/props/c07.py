"""C07 — molecular Hamiltonian MPOs are exact for every orbital count, both build paths; orbital gauge transform."""
import numpy as np
from scipy import sparse

from .. import monitor, refs
from ..core import Workload
from ..env import ptn

KINDS = ['real', 'complex', 'symmetric', 'zero-padded', 'single-entry', 'hermitian', 'integer-valued', 'mixed-magnitude', 'lower-triangular-storage',
         'antisym-ij', 'antisym-kl', 'antisym-both', 'sym-ij', 'product-antisym', 'fully-symmetric', 'unit-entries', 'near-equal-entries',
         'imaginary-vint', 'imaginary-pair', 'imaginary-tkin']


def coeffs(rng, L, kind):
    c = lambda *s: rng.normal(size=s) + 1j * rng.normal(size=s)
    if kind == 'real':
        return rng.normal(size=(L, L)), rng.normal(size=(L, L, L, L))
    if kind in ('imaginary-vint', 'imaginary-pair', 'imaginary-tkin'):
        # exactly vanishing REAL parts: the whole interaction tensor (i times real integrals), the slice of one orbital pair only, or the hopping matrix
        t, v = c(L, L), c(L, L, L, L)
        if kind == 'imaginary-vint':
            v = 1j * rng.normal(size=(L, L, L, L))
        elif kind == 'imaginary-tkin':
            t = 1j * rng.normal(size=(L, L))
        else:
            i_, j_ = (int(x) for x in rng.integers(0, L, size=2))
            v[i_, j_] = 1j * rng.normal(size=(L, L)); v[j_, i_] = 1j * rng.normal(size=(L, L))
        return t, v
    if kind == 'complex':
        return c(L, L), c(L, L, L, L)
    if kind == 'symmetric':
        t = rng.normal(size=(L, L)); t = t + t.T
        v = rng.normal(size=(L, L, L, L))
        v = v + v.transpose(1, 0, 3, 2)              # physicists' symmetry v_ijkl = v_jilk
        v = v + v.transpose(2, 3, 0, 1)
        return t, v
    if kind == 'hermitian':
        t = c(L, L); t = t + t.conj().T
        v = c(L, L, L, L); v = v + v.transpose(1, 0, 3, 2); v = v + v.transpose(2, 3, 0, 1).conj()
        return t, v
    if kind == 'zero-padded':
        t = c(L, L) * (rng.random(size=(L, L)) < 0.4)
        v = c(L, L, L, L) * (rng.random(size=(L, L, L, L)) < 0.15)
        k = int(rng.integers(0, L))
        t[k, :] = 0; t[:, k] = 0
        v[k] = 0; v[:, k] = 0; v[:, :, k] = 0; v[:, :, :, k] = 0
        return t, v
    if kind == 'single-entry':
        t = np.zeros((L, L)); v = np.zeros((L, L, L, L))
        if rng.random() < 0.5 or L < 2:
            t[int(rng.integers(0, L)), int(rng.integers(0, L))] = float(rng.choice([1.0, -2.5, 0.3]))
        else:
            i, j = rng.choice(L, size=2, replace=False)
            k, l = rng.choice(L, size=2, replace=False)
            v[i, j, k, l] = float(rng.choice([1.0, -2.5, 0.3]))
        return t, v
    if kind == 'mixed-magnitude':
        t, v = c(L, L), c(L, L, L, L)
        t = t * rng.choice([1, 1e-9, 1e3], size=t.shape)
        v = v * rng.choice([1, 1, 1e-9, 1e-13], size=v.shape)
        return t, v
    if kind == 'lower-triangular-storage':
        # interaction stored only for i > j (and k > l): whole slices vint[i] vanish while the antisymmetrised tensor does not
        t = rng.normal(size=(L, L))
        v = rng.normal(size=(L, L, L, L))
        ii = np.arange(L)
        v = v * (ii[:, None, None, None] > ii[None, :, None, None]) * (ii[None, None, :, None] > ii[None, None, None, :] if rng.random() < 0.5 else 1)
        return t, v
    if kind == 'integer-valued':
        return rng.integers(-2, 3, size=(L, L)), rng.integers(-2, 3, size=(L, L, L, L))
    if kind == 'near-equal-entries':
        # entries agreeing with each other to 6..12 digits (up to sign) without being equal
        cb = float(rng.uniform(0.3, 2.0))
        eps = [0, 1e-12, -1e-9, 1e-7, 1e-6, -3e-6, 3e-6, 8e-6]
        t = cb * rng.choice([-1, 1], size=(L, L)) * (1 + rng.choice(eps, size=(L, L)))
        v = cb * rng.choice([-1, 1], size=(L, L, L, L)) * (1 + rng.choice(eps, size=(L, L, L, L)))
        return t, v
    if kind == 'unit-entries':
        # generic coefficients with a few entries exactly 1.0 / -1.0 / 0.5 (values internal code may use as sentinels)
        t, v = c(L, L), c(L, L, L, L)
        for _ in range(int(rng.integers(1, 2 + L))):
            t[int(rng.integers(0, L)), int(rng.integers(0, L))] = float(rng.choice([1.0, 1.0, -1.0, 0.5]))
            v[tuple(int(x) for x in rng.integers(0, L, size=4))] = float(rng.choice([1.0, 1.0, -1.0, 2.0]))
        return t, v
    if kind in ('antisym-ij', 'antisym-kl', 'antisym-both', 'sym-ij', 'product-antisym', 'fully-symmetric'):
        # interaction tensors with an EXACT (bitwise) index symmetry: already antisymmetrised input, vanishing antisymmetric part, ...
        t = c(L, L) if rng.random() < 0.5 else rng.normal(size=(L, L))
        v = c(L, L, L, L) if rng.random() < 0.5 else (rng.normal(size=(L, L, L, L)) if rng.random() < 0.7 else rng.integers(-3, 4, size=(L, L, L, L)))
        if kind in ('antisym-ij', 'antisym-both'):
            v = v - v.transpose(1, 0, 2, 3)
        if kind in ('antisym-kl', 'antisym-both'):
            v = v - v.transpose(0, 1, 3, 2)
        if kind == 'sym-ij':
            v = v + v.transpose(1, 0, 2, 3)
        if kind == 'product-antisym':
            a = rng.normal(size=(L, L)); b = rng.normal(size=(L, L))
            a = a - a.T
            if rng.random() < 0.5:
                b = b - b.T
            v = np.einsum('ij,kl->ijkl', a, b)
        if kind == 'fully-symmetric':
            import itertools
            v = sum(v.transpose(p) for p in itertools.permutations(range(4)))
        return t, v
    raise ValueError(kind)


def to_dense_or_sparse(H, dim):
    if dim <= 1024:
        return refs.dense_operator(H.A), False
    return H.as_matrix(sparse_format=True), True


def maxdiff(M, R):
    if sparse.issparse(M) or sparse.issparse(R):
        D = sparse.csr_matrix(M) - sparse.csr_matrix(R)
        return float(abs(D).max()) if D.nnz else 0.0
    return float(np.abs(np.asarray(M) - np.asarray(R)).max())


def check_build(ctx, spin, L, t, v, kind):
    build = ptn.spin_molecular_hamiltonian_mpo if spin else ptn.molecular_hamiltonian_mpo
    R = (refs.spin_molecular_reference if spin else refs.molecular_reference)(t, v)
    zero = abs(R).max() == 0 if R.nnz else True
    tag = 'spinmol' if spin else 'mol'
    detail = {'spin': spin, 'L': L, 'kind': kind, 'tkin': t, 'vint': v}
    dim = (4 if spin else 2) ** L
    sc = max(float(abs(R).max()) if R.nnz else 0.0, 1e-300) if kind == 'mixed-magnitude' else max(1.0, float(np.abs(t).max()), float(np.abs(v).max()))
    t0, v0 = np.array(t, copy=True), np.array(v, copy=True)
    mats = {}
    for opt in (True, False):
        lmin = 1 if opt else (2 if spin else 4)
        if L < lmin:
            continue
        if opt and zero:
            # identically-zero operator: every chain coefficient vanishes; outside the domain (cf. C05)
            ctx.event('identically_zero_skipped')
            continue
        with monitor.write_protected(t, v):
            # the flag in the forms callers produce: literal bool, numpy bool (result of a numpy comparison), integer
            optv = (opt, np.bool_(opt), int(opt), np.int64(int(opt)))[(ctx.cur[1] // 2) % 4]
            H = build(t, v, optimize=optv) if not (opt and ctx.cur[1] % 2) else build(t, v)       # default flag is optimize=True
        inv = refs.mpo_invariant(H)
        if not ctx.ok(f'{tag}.block-sparse[{"opt" if opt else "explicit"}]', inv is None, str(inv), detail):
            continue
        ctx.ok(f'{tag}.shape', H.nsites == L and len(H.qd) == (4 if spin else 2) and H.bond_dims[0] == 1 and H.bond_dims[-1] == 1
               and int(H.qD[0][0]) == int(H.qD[-1][0]), f'nsites {H.nsites}, bonds {H.bond_dims}', detail)
        M, sp = to_dense_or_sparse(H, dim)
        Rm = R if sp else np.asarray(R.todense())
        ctx.close(f'{tag}.matrix==second-quantised-formula[{"opt" if opt else "explicit"}]', maxdiff(M, Rm), 1e-11 * sc, 'MPO differs from the Fock-space reference', detail)
        mats[opt] = M
        if dim <= 256:
            ctx.close(f'{tag}.as_matrix-sparse==dense', maxdiff(H.as_matrix(sparse_format=True), np.asarray(H.as_matrix())), 1e-12 * sc, 'sparse and dense as_matrix differ', detail)
    if True in mats and False in mats:
        ctx.close(f'{tag}.optimized==explicit', maxdiff(mats[True], mats[False]), 1e-11 * sc, 'the two build paths denote different operators', detail)
    ctx.ok(f'{tag}.coefficients-unchanged', np.array_equal(t, t0) and np.array_equal(v, v0), 'coefficient tensors modified', detail)
    if ctx.cur[1] % 3 == 0 and L <= 5 and np.issubdtype(np.asarray(t).dtype, np.inexact) and np.issubdtype(np.asarray(v).dtype, np.inexact) and t.flags.writeable and v.flags.writeable:
        # history: the SAME coefficient array objects changed in place, both constructions asked again
        t *= -0.5
        v[..., 0] *= 3.0
        R2 = (refs.spin_molecular_reference if spin else refs.molecular_reference)(t, v)
        if R2.nnz and abs(R2).max() > 0:
            for opt in (True, False):
                if L < (1 if opt else (2 if spin else 4)):
                    continue
                H2 = build(t, v, optimize=opt)
                M2, sp2 = to_dense_or_sparse(H2, dim)
                ctx.close(f'{tag}.matrix==formula[after-inplace-edit-of-coefficients]', maxdiff(M2, R2 if sp2 else np.asarray(R2.todense())), 1e-11 * max(sc, 3 * sc),
                          'construction after an in-place change of the coefficient arrays does not follow the current coefficients', detail)


def spinless_case(ctx, idx, rng):
    lmax = 7 if ctx.tier == 'quick' else 9
    L = 1 + idx % lmax
    kind = KINDS[(idx // lmax) % len(KINDS)]
    t, v = coeffs(rng, L, kind)
    ctx.case(('spinless', f'L{L}', kind), sample={'L': L, 'kind': kind, 'tkin': t}, info={'L': L, 'kind': kind, 'tkin': t, 'vint': v})
    check_build(ctx, False, L, t, v, kind)


def spin_case(ctx, idx, rng):
    lmax = 5 if ctx.tier == 'quick' else 6
    L = 1 + idx % lmax
    kind = KINDS[(idx // lmax) % len(KINDS)]
    t, v = coeffs(rng, L, kind)
    if L == 6 and kind not in ('zero-padded', 'single-entry', 'real', 'lower-triangular-storage'):
        kind = 'real'
        t, v = coeffs(rng, L, kind)
    ctx.case(('spin', f'L{L}', kind), sample={'L': L, 'kind': kind, 'tkin': t}, info={'L': L, 'kind': kind, 'tkin': t, 'vint': v})
    check_build(ctx, True, L, t, v, kind)


def unitary(rng, kind):
    if kind == 'identity':
        return np.identity(2)
    if kind == 'swap':
        return np.array([[0., 1.], [1., 0.]])
    if kind == 'phases':
        return np.diag(np.exp(1j * rng.uniform(0, 2 * np.pi, size=2)))
    if kind == 'rotation':
        a = rng.uniform(0, 2 * np.pi)
        return np.array([[np.cos(a), -np.sin(a)], [np.sin(a), np.cos(a)]])
    X = rng.normal(size=(2, 2)) + 1j * rng.normal(size=(2, 2))
    return np.linalg.qr(X)[0]


def gauge_case(ctx, idx, rng):
    L = int(rng.integers(4, 8 if ctx.tier == 'quick' else 9))
    i = idx % (L - 1)
    ukind = ('random', 'identity', 'swap', 'phases', 'rotation')[(idx // 7) % 5]
    kind = str(rng.choice(['complex', 'real', 'hermitian', 'zero-padded'] + (KINDS + ['free', 'no-hopping'] if idx % 2 else [])))
    if idx % 6 == 1:
        kind = ('free', 'sym-ij', 'fully-symmetric', 'no-hopping', 'symmetric', 'imaginary-vint')[(idx // 6) % 6]          # the vanishing / cancelling interaction classes in fixed rotation
    if kind in ('free', 'no-hopping'):
        # one of the two coefficient tensors identically zero (free fermions / pure interaction)
        t, v = coeffs(rng, L, 'complex')
        t, v = (t, np.zeros_like(v)) if kind == 'free' else (np.zeros_like(t), v)
    else:
        t, v = coeffs(rng, L, kind)
    u2 = unitary(rng, ukind)
    ctx.case(('gauge', f'L{L}', f'i{"first" if i == 0 else ("last" if i == L - 2 else "mid")}', ukind, kind), sample={'L': L, 'i': i, 'u': u2, 'kind': kind},
             info={'L': L, 'i': i, 'u': u2, 'tkin': t, 'vint': v})
    detail = ctx.cur_info
    u = np.identity(L, dtype=complex)
    u[i:i + 2, i:i + 2] = u2
    # rotated coefficients: t'_{ab} = sum u_{ca} conj(u_{db}) t_{cd}; v' analogously (orbital rotation a_c -> sum_a u_{ca} a_a)
    t_rot = np.einsum('ca,db,cd->ab', u, u.conj(), t)
    v_rot = np.einsum('ea,fb,gc,hd,efgh->abcd', u, u, u.conj(), u.conj(), v)
    h = ptn.molecular_hamiltonian_mpo(t, v, optimize=False)
    h_rot = ptn.molecular_hamiltonian_mpo(t_rot, v_rot, optimize=False)
    R_rot = np.asarray(refs.molecular_reference(t_rot, v_rot).todense())
    sc = max(1.0, np.abs(R_rot).max())
    # replace tensors i, i+1 by those of the rotated-coefficient MPO and apply the gauge matrices
    h.A[i] = np.copy(h_rot.A[i])
    h.A[i + 1] = np.copy(h_rot.A[i + 1])
    dh = monitor.digest(h)
    u2c = u2.copy()
    out = ptn.molecular_hamiltonian_orbital_gauge_transform(h, u2, i)
    ctx.ok('gauge.operands-unchanged', monitor.digest(h) == dh and np.array_equal(u2, u2c), 'gauge transform modified the MPO or the rotation matrix', detail)
    if not ctx.ok('gauge.returns-pair', isinstance(out, tuple) and len(out) == 2, 'must return (v_l, v_r)', detail):
        return
    v_l, v_r = out
    ok = v_l.shape == (h.bond_dims[i],) * 2 and v_r.shape == (h.bond_dims[i + 2],) * 2
    if not ctx.ok('gauge.shapes', ok, f'v_l {v_l.shape}, v_r {v_r.shape} for bonds {h.bond_dims[i]}, {h.bond_dims[i + 2]}', detail):
        return
    ctx.close('gauge.v_l-unitary', np.abs(v_l.conj().T @ v_l - np.identity(len(v_l))).max(), 1e-11, 'v_l not unitary', detail)
    ctx.close('gauge.v_r-unitary', np.abs(v_r.conj().T @ v_r - np.identity(len(v_r))).max(), 1e-11, 'v_r not unitary', detail)
    A = list(h.A)
    A[i] = np.einsum('ce,stef->stcf', v_l, A[i])
    A[i + 1] = np.einsum('fe,stce->stcf', v_r, A[i + 1])
    M = refs.dense_operator(A)
    ctx.close('gauge.transforms-to-rotated-operator', np.abs(M - R_rot).max(), 1e-10 * sc, 'gauge-transformed MPO != MPO of the rotated coefficients', detail)
    ctx.close('gauge.rotated-reference-consistent', np.abs(refs.dense_operator(h_rot.A) - R_rot).max(), 1e-10 * sc, 'explicit MPO of the rotated coefficients != Fock reference', detail)


def gauge_large_case(ctx, idx, rng):
    """The gauge transform on chains beyond the dense reach (L = 13..15, where the explicit builder switches off its own consistency check): the transformed MPO
    and the MPO of the rotated coefficients must have the same matrix elements between random entangled probe states (own transfer-matrix contraction)."""
    L = int(rng.integers(13, 16))
    i = int(rng.integers(0, L - 1))
    ukind = ('random', 'swap', 'phases', 'rotation')[idx % 4]
    t = rng.normal(size=(L, L)) + 1j * rng.normal(size=(L, L))
    v = (rng.normal(size=(L, L, L, L)) + 1j * rng.normal(size=(L, L, L, L))) * (rng.random(size=(L, L, L, L)) < 0.03)
    u2 = unitary(rng, ukind)
    ctx.case(('gauge-large', f'L{L}', ukind), sample={'L': L, 'i': i, 'u': u2}, info={'L': L, 'i': i, 'u': u2})
    detail = {'L': L, 'i': i, 'u': u2}
    u = np.identity(L, dtype=complex)
    u[i:i + 2, i:i + 2] = u2
    t_rot = np.einsum('ca,db,cd->ab', u, u.conj(), t)
    v_rot = np.einsum('ea,fb,gc,hd,efgh->abcd', u, u, u.conj(), u.conj(), v)
    h = ptn.molecular_hamiltonian_mpo(t, v, optimize=False)
    h_rot = ptn.molecular_hamiltonian_mpo(t_rot, v_rot, optimize=False)
    h.A[i] = np.copy(h_rot.A[i])
    h.A[i + 1] = np.copy(h_rot.A[i + 1])
    out = ptn.molecular_hamiltonian_orbital_gauge_transform(h, u2, i)
    if not ctx.ok('gauge.returns-pair', isinstance(out, tuple) and len(out) == 2, 'must return (v_l, v_r)', detail):
        return
    v_l, v_r = out
    ctx.close('gauge.v_l-unitary', np.abs(v_l.conj().T @ v_l - np.identity(len(v_l))).max(), 1e-11, 'v_l not unitary', detail)
    ctx.close('gauge.v_r-unitary', np.abs(v_r.conj().T @ v_r - np.identity(len(v_r))).max(), 1e-11, 'v_r not unitary', detail)
    A = list(h.A)
    A[i] = np.einsum('ce,stef->stcf', v_l, A[i])
    A[i + 1] = np.einsum('fe,stce->stcf', v_r, A[i + 1])
    worst, sc = 0.0, 0.0
    for _ in range(4):
        bra = refs.random_probe(rng, 2, L, D=2)
        ket = refs.random_probe(rng, 2, L, D=2)
        a = refs.mpo_element(bra, A, ket)
        b = refs.mpo_element(bra, h_rot.A, ket)
        worst = max(worst, abs(a - b))
        sc = max(sc, abs(a), abs(b))
    ctx.close('gauge.transforms-to-rotated-operator[probes]', worst, 1e-9 * max(sc, 1e-300), 'gauge-transformed MPO and MPO of the rotated coefficients differ in their matrix elements', detail)


SPEC = {
    'id': 'C07',
    'rule': ('spinless: every L in 1..7 (thorough 1..9) x coefficient kinds {real, complex, symmetric (gint cancels), Hermitian, zero-padded with an '
             'empty orbital, single non-zero entry, integer-valued}: optimized path for L>=1, explicit for L>=4, each against the bit-string Fock-space '
             'reference, and against each other; spin-orbital: L 1..5 (thorough 6, sparse comparison), optimized L>=1, explicit L>=2 (covers the '
             'L>=5 regression); gauge: L 4..7(8), every rotated pair i, unitaries {random, identity, swap, diagonal phases, real rotation}, every coefficient kind of the build workloads plus identically zero tkin / vint: tensors i,i+1 '
             'replaced by those of the rotated-coefficient MPO, gauge matrices applied, compared with the rotated Fock reference. The identically-zero '
             'operator is excluded on the optimized path. distinct = (family, L, kind, unitary, position).'),
    'deciding': ['mol.matrix==second-quantised-formula[opt]', 'mol.matrix==second-quantised-formula[explicit]', 'mol.optimized==explicit',
                 'spinmol.matrix==second-quantised-formula[opt]', 'spinmol.matrix==second-quantised-formula[explicit]', 'spinmol.optimized==explicit',
                 'gauge.transforms-to-rotated-operator'],
    'workloads': [
        Workload('spinless', spinless_case, quick=7 * len(KINDS) * 2, thorough=9 * len(KINDS) * 20),
        Workload('spin', spin_case, quick=5 * len(KINDS), thorough=6 * len(KINDS) * 8),
        Workload('gauge', gauge_case, quick=70, thorough=2800),
        Workload('gauge-large', gauge_large_case, quick=3, thorough=96),
    ],
    'shards': {'quick': 4, 'thorough': 16},
    'watchdog_s': {'quick': 900, 'thorough': 7200},
    'assumptions': ['bit-string Fock space with the Z string to the right (pvm/refs.py); even-parity operators do not depend on the string side'],
}
