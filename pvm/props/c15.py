"""C15 — Krylov approximations are bounded, and exact once the Krylov space is exhausted."""
import warnings

import numpy as np
from scipy.linalg import expm

from .. import krylov_ref as kr
from .. import monitor
from ..core import Workload
from ..env import ptn
from .c14 import GRID, SPECTRA, STARTS

COND = 1e-5


def reachable_min_eig(A, v):
    """Smallest eigenvalue of Hermitian A with non-negligible overlap with v (relative 1e-7)."""
    lam, U = np.linalg.eigh(A)
    ov = np.abs(U.conj().T @ (v / np.linalg.norm(v)))
    # degenerate eigenvalues: combine overlaps within clusters
    idx = np.where(ov > 1e-7)[0]
    return lam, (lam[idx[0]] if len(idx) else lam[0]), ov


def check_eigh(ctx, A, v, m, kd, detail_extra=None, style=None):
    n = len(v)
    nA = max(np.linalg.norm(A, 2), 1e-300)
    detail = {'A': A, 'v': v, 'm': m}
    captured = {}

    def around(orig, Afunc, vstart, numiter):
        out = orig(Afunc, vstart, numiter)
        captured['out'] = out
        return out
    numeig = 1 if m == 1 else int(min(m, 2))
    v0 = v.copy()
    with monitor.attached('pytenet.krylov.lanczos_iteration', around), warnings.catch_warnings():
        warnings.simplefilter('ignore')
        Af, style, _ = kr.make_callable(np.random.default_rng(n * 977 + m), A, style)
        ctx.event('callable_style:' + style)
        detail['callable_style'] = style
        w, u = ptn.eigh_krylov(Af, v, m, numeig)
    w = np.asarray(w)
    u = np.asarray(u)
    ctx.ok('eigh.start-unmodified', np.array_equal(v, v0), 'start vector modified', detail)
    if not ctx.ok('eigh.shapes', w.ndim == 1 and 1 <= len(w) <= numeig and u.ndim == 2 and u.shape[0] == n and u.shape[1] == len(w),
                  f'shapes w{w.shape} u{u.shape} numeig={numeig}', detail):
        return
    lam, lam_reach, ov = reachable_min_eig(A, v0)
    rq = float(np.real(np.vdot(v0, A @ v0)) / np.real(np.vdot(v0, v0)))
    tol = 1e-9 * nA
    ctx.ok('eigh.ritz-real-sorted', not np.iscomplexobj(w) and bool(np.all(np.diff(w) >= -tol)), f'Ritz values not real ascending: {w}', detail)
    ctx.close('eigh.lower-bound', max(0.0, lam[0] - w[0]) / nA, 1e-9, f'lowest Ritz value {w[0]} below lambda_min {lam[0]}', detail)
    ctx.close('eigh.upper-bound', max(0.0, w[0] - rq) / nA, 1e-9, f'lowest Ritz value {w[0]} above the Rayleigh quotient {rq}', detail)
    k = len(captured['out'][0]) if 'out' in captured else None
    if 'out' not in captured:
        ctx.event('eigh_lanczos_not_observed')
    if m >= kd:
        # exhausted: the lowest Ritz value is the smallest eigenvalue reachable from v
        dev = max(0.0, w[0] - lam_reach) / nA
        ind = kr.paige_indicator(np.asarray(captured['out'][0]), np.asarray(captured['out'][1])) if 'out' in captured else np.inf
        ctx.event('eigh_exhausted_converged_class' if ind < COND else 'eigh_exhausted_conditioned_class')
        ctx.close('eigh.exhausted-reaches-min-reachable', dev, 1e-8,
                  f'Krylov space exhausted (dim {kd} <= m={m}) but Ritz value {w[0]} > smallest reachable eigenvalue {lam_reach}', detail)
        # ... and the lowest Ritz vector is a unit vector. (That it is an eigenvector was tried and dropped: when the iteration continues past a numerically
        # exhausted space, rounding noise opens directions outside the reachable subspace and the lowest Ritz PAIR may be an unconverged approximation of an
        # eigenpair there -- residuals 1e-7..5e-2 on the unchanged tree; the statement speaks about the Ritz VALUE only.)
        ctx.close('eigh.exhausted-ritz-vector-unit-norm', abs(np.linalg.norm(u[:, 0]) - 1), 1e-8, 'lowest Ritz vector of an exhausted Krylov space is not normalised', detail)
        ctx.event('eigh_exhausted')
    elif k is not None:
        al, be, V = captured['out']
        ind = kr.paige_indicator(np.asarray(al), np.asarray(be))
        g = np.abs(u.conj().T @ u - np.identity(u.shape[1])).max()
        ray = np.abs(np.real(np.einsum('ij,ij->j', u.conj(), A @ u)) - w).max() / nA
        ctx.event('eigh_converged_class' if ind < COND else 'eigh_conditioned_class')
        ctx.close('eigh.ritz-vectors-orthonormal', g, 1e-8, 'Ritz vectors not orthonormal below exhaustion', detail)
        ctx.close('eigh.ritz-rayleigh', ray, 1e-8, 'Rayleigh quotient of a Ritz vector != Ritz value', detail)


def exact_expm_apply(A, dt, v):
    """expm(dt A) v: through the eigen-decomposition for Hermitian A (accurate for long time steps), scipy's expm otherwise."""
    if np.linalg.norm(A - A.conj().T) <= 1e-14 * max(np.linalg.norm(A), 1e-300):
        lam, U = np.linalg.eigh((A + A.conj().T) / 2)
        return U @ (np.exp(dt * lam) * (U.conj().T @ v))
    return expm(dt * A) @ v


def long_dt(rng):
    """|Im dt| from short TDVP-like steps to long real-time steps beyond pi and 2 pi (exact multiples included)."""
    return float(rng.choice([rng.uniform(0.05, 1.0), rng.uniform(0.05, 1.0), rng.uniform(1.0, np.pi), rng.uniform(np.pi, 4 * np.pi), np.pi, 2 * np.pi, 7.5, 31.0]))


def check_expm(ctx, A, v, dt, m, kd_h, hermitian, style=None):
    n = len(v)
    nA = max(np.linalg.norm(A, 2), 1e-300)
    detail = {'A': A, 'v': v, 'm': m, 'dt': dt, 'hermitian': hermitian}
    v0 = v.copy()
    with warnings.catch_warnings():
        warnings.simplefilter('ignore')
        Af, style, _ = kr.make_callable(np.random.default_rng(n * 991 + m + int(hermitian)), A, style)
        ctx.event('callable_style:' + style)
        detail['callable_style'] = style
        r = ptn.expm_krylov(Af, v, dt, m, hermitian=(hermitian, np.bool_(hermitian), int(hermitian))[(n + m) % 3])
    r = np.asarray(r)
    tag = 'expm-h' if hermitian else 'expm-g'
    ctx.ok(f'{tag}.start-unmodified', np.array_equal(v, v0), 'start vector modified', detail)
    if not ctx.ok(f'{tag}.shape', r.shape == (n,) and bool(np.all(np.isfinite(r))), f'result shape {r.shape} / non-finite', detail):
        return
    nv = np.linalg.norm(v0)
    if hermitian and np.real(dt) == 0:
        ctx.close('expm-h.norm-preserved', abs(np.linalg.norm(r) - nv) / nv, 1e-10, 'imaginary time step changed the norm', detail)
    if m >= kd_h:
        exact = exact_expm_apply(A, dt, v0)
        # perturbations of the projected matrix (rounding, loss of orthogonality ~1e-11 near exhaustion) enter the exponential multiplied by |dt| ||A||
        tol_x = 1e-9 * max(1.0, abs(dt) * nA)
        # 'exhausted' means: the independent residual after kd vectors is below 1e-8 ||A||, not that it is zero; what is left enters the exponential multiplied by |dt| ||A||
        _res = kr.krylov_residuals(A, v0, min(m, n) + 1)
        if 0 < kd_h <= len(_res):
            tol_x = tol_x + 10 * float(_res[kd_h - 1]) * max(1.0, abs(dt) * nA)
        if not hermitian:
            # modified-Gram-Schmidt Arnoldi loses orthogonality like eps * cond(Krylov basis) (see C14); that defect of the projected matrix enters the same way
            _, Qref = kr.krylov_residuals(A, v0, min(m, n) + 1, basis=True)
            kq = min(m, Qref.shape[1] + 1)
            tol_x = max(tol_x, 1e-14 * kr.basis_condition(A, v0, Qref, kq) * max(1.0, abs(dt) * nA))
        if hermitian:
            # amplification: rounding of relative size eps in the Ritz weights is multiplied by the largest factor |exp(dt lambda)| of the exponential
            # (1 for imaginary and for decaying steps on a semi-definite spectrum, up to 1e12 when a weakly populated direction is amplified)
            _lam = np.linalg.eigvalsh((A + A.conj().T) / 2)
            _amp = float(np.exp(min(700.0, float(np.max(np.real(dt) * _lam)))))
            tol_x = tol_x + 1e3 * np.finfo(float).eps * _amp * nv / max(np.linalg.norm(exact), nv)
        ctx.close(f'{tag}.exact-when-exhausted', np.linalg.norm(r - exact) / max(np.linalg.norm(exact), nv), tol_x,
                  f'm={m} >= Krylov dimension {kd_h} but result != expm(dt A) v', detail)

        def later(r=r, exact=exact, nv=nv, tag=tag, tol_x=tol_x):
            ctx.close(f'{tag}.result-still-valid-after-later-calls', np.linalg.norm(r - exact) / max(np.linalg.norm(exact), nv), tol_x, 'an earlier expm_krylov result was altered by later calls', None)
        ctx.hold(later)
    else:
        ctx.skip(f'{tag}.exact-when-exhausted')
    # m = 1: result = exp(dt * rayleigh) v exactly
    if m == 1:
        rq = np.vdot(v0, A @ v0) / np.vdot(v0, v0)
        if hermitian:
            rq = rq.real
        ctx.close(f'{tag}.m1-closed-form', np.linalg.norm(r - np.exp(dt * rq) * v0) / nv / max(1, abs(np.exp(dt * rq))), 1e-10, 'one-dimensional Krylov space: result != exp(dt <A>) v', detail)


def grid_case(ctx, idx, rng):
    n, m = GRID[idx % len(GRID)]
    rep = idx // len(GRID)
    cplx = bool((rep + idx) % 2)
    spectrum = SPECTRA[(idx // 2 + rep) % len(SPECTRA)]
    start = STARTS[(idx // 3 + rep) % len(STARTS)]
    A, v = kr.make_case(rng, n, cplx, spectrum, start)
    A = A / max(1.0, np.linalg.norm(A, 2) / 3)
    if idx % 7 == 3:
        A = A * (float(rng.choice([1e-3, 30.0])) if idx % 3 == 0 else 1e-3)          # small operator norms; large ones (|dt| ||A|| up to ~1000) for imaginary dt only (idx % 3 == 0)
    res = kr.krylov_residuals(A, v, m + 1)
    kd = kr.krylov_dim(res)
    # ambiguous exhaustion (residual between the thresholds) cannot decide exactness: classify conservatively
    amb = any(1e-8 <= r <= 1e-5 for r in res[:m])
    dtk = ('imag', 'real', 'complex')[idx % 3]
    dt = {'imag': 1j, 'real': -1.0, 'complex': (0.6 + 0.8j)}[dtk] * float(rng.uniform(0.05, 1.0))
    if dtk == 'imag':
        dt = 1j * float(rng.choice([-1, 1])) * long_dt(rng)
    elif dtk == 'complex' and rng.random() < 0.3:
        dt = complex(-float(rng.uniform(0.0, 0.3)), float(rng.choice([-1, 1])) * long_dt(rng))      # damped long real-time step
    ctx.case(('hermitian', 'm>n' if m > n else ('m=n' if m == n else 'm<n'), 'exhausted' if m >= kd else 'not-exhausted', spectrum, start,
              'complex' if cplx else 'real', dtk), sample={'n': n, 'm': m, 'A': A, 'v': v, 'dt': dt, 'krylov_dim': kd})
    if amb:
        ctx.event('ambiguous_exhaustion_skipped')
        kd_use = 10**9
    else:
        kd_use = kd
    check_eigh(ctx, A, v, m, kd_use if not amb else 10**9)
    check_expm(ctx, A, v, dt, m, kd_use, hermitian=True)
    if idx % 9 == 4:
        # the identity map handed over as `lambda x: x` (returns its argument / a view of it): Krylov dimension 1, everything exact
        I = np.identity(n)
        ctx.case(('identity-map-returning-its-argument', f'm{min(m, 3)}', dtk), sample={'n': n, 'm': m, 'dt': dt})
        check_eigh(ctx, I, v, m, 1, style='argument-when-identity')
        check_expm(ctx, I, v, dt, m, 1, hermitian=True, style='argument-when-identity')
        check_expm(ctx, I, v, dt, m, 1, hermitian=False, style='argument-when-identity')
    check_expm(ctx, A, v, dt, m, kd_use, hermitian=False)
    if idx % 4 == 0:
        # history: the same vector / matrix objects changed in place and used again
        v *= -3.0
        A *= 0.5
        res2 = kr.krylov_residuals(A, v, m + 1)
        kd2 = kr.krylov_dim(res2)
        if any(1e-8 <= r <= 1e-5 for r in res2[:m]):
            kd2 = 10**9
        check_eigh(ctx, A, v, m, kd2)
        check_expm(ctx, A, v, dt, m, kd2, hermitian=True)
    _w = np.linalg.eigvalsh((A + A.conj().T) / 2) if (idx % 6 == 1 and n >= 2) else None
    if _w is not None and float(_w[-1] - _w[0]) > 1e-6 * max(1.0, float(np.abs(_w).max())):       # (a multiple of the identity has no spread to rescale)
        # strongly DECAYING (or growing) real part of the step on a semi-definite spectrum: exp(dt A) v is perfectly finite (all factors in (0, 1]), but
        # |Re dt| x spectral spread is 720 .. 1500 -- factoring out the wrong end of the spectrum overflows
        w_, Q_ = np.linalg.eigh((A + A.conj().T) / 2)
        spread = max(float(w_[-1] - w_[0]), 1e-300)
        sgn = float(rng.choice([-1, 1]))
        Apsd = (A - (w_[0] if sgn < 0 else w_[-1]) * np.identity(n)) / spread * float(rng.uniform(20, 120))          # spectrum in [0, W] (decay) or [-W, 0] (growth direction reversed)
        Wd = float(np.linalg.norm(Apsd, 2))
        dts = sgn * float(rng.uniform(720, 1500)) / max(Wd, 1e-300) + (1j * float(rng.uniform(-2, 2)) / max(Wd, 1e-300) if idx % 12 == 1 else 0)
        res_s = kr.krylov_residuals(Apsd, v, m + 1)
        kd_s = kr.krylov_dim(res_s)
        if any(1e-8 <= r <= 1e-5 for r in res_s[:m]):
            kd_s = 10**9
        ctx.case(('hermitian', 'semi-definite-long-real-step', 'decaying' if sgn < 0 else 'decaying-negative-spectrum', 'm>n' if m > n else ('m=n' if m == n else 'm<n'),
                  'exhausted' if m >= kd_s else 'not-exhausted', 'complex' if cplx else 'real'), sample={'n': n, 'm': m, 'A': Apsd, 'v': v, 'dt': dts})
        check_expm(ctx, Apsd, v, dts, m, kd_s, hermitian=True)
    if idx % 6 == 4 and n >= 3:
        # a WEAKLY POPULATED direction that the step amplifies to order one: start vector with amplitude 1e-9 .. 1e-12 on the eigenvector of the single negative
        # eigenvalue -1 (all others in [0.2, 1]), step -tau with tau = ln(1 / amplitude) + 0..3: exp(dt A) v is dominated by the component that was invisible in v
        Qh = np.linalg.qr(rng.normal(size=(n, n)) + (1j * rng.normal(size=(n, n)) if cplx else 0))[0]
        lam_ = np.concatenate([[-1.0], rng.uniform(0.2, 1.0, size=n - 1)])
        Aw = (Qh * lam_) @ Qh.conj().T
        Aw = (Aw + Aw.conj().T) / 2
        amp_ = float(rng.choice([1e-9, 1e-10, 1e-12]))
        cw = rng.normal(size=n) + (1j * rng.normal(size=n) if cplx else 0)
        cw[0] = amp_
        vw = Qh @ cw
        dtw = -(float(np.log(1 / amp_)) + float(rng.uniform(0, 3))) + (0.8j if idx % 12 == 4 else 0)
        res_w = kr.krylov_residuals(Aw, vw, m + 1)
        kd_w = kr.krylov_dim(res_w)
        if any(1e-8 <= r <= 1e-5 for r in res_w[:m]):
            kd_w = 10**9
        ctx.case(('hermitian', 'weakly-populated-direction-amplified', 'm>n' if m > n else ('m=n' if m == n else 'm<n'), 'exhausted' if m >= kd_w else 'not-exhausted',
                  'complex' if cplx else 'real'), sample={'n': n, 'm': m, 'A': Aw, 'v': vw, 'dt': dtw, 'amplitude': amp_})
        check_expm(ctx, Aw, vw, dtw, m, kd_w, hermitian=True)
    # non-normal matrix for the general branch: generic, or defective / highly non-normal (Jordan blocks, ladder operators), where an
    # eigen-decomposition of the projected matrix is ill-conditioned or impossible
    gk = ('generic', 'jordan', 'ladder', 'triangular-degenerate')[(idx // 5) % 4]
    if gk == 'generic' or n == 1:
        G = A + (rng.normal(size=(n, n)) + (1j * rng.normal(size=(n, n)) if cplx else 0)) * 0.4
    else:
        if gk == 'jordan':
            N = np.triu(rng.normal(size=(n, n)), 1) * (rng.random(size=(n, n)) < 0.5)
            G0 = float(rng.normal()) * np.identity(n) + N
        elif gk == 'ladder':
            G0 = np.diag(np.sqrt(np.arange(1, n)), 1 if rng.random() < 0.5 else -1) + float(rng.choice([0, 0.7])) * np.identity(n)
        else:
            G0 = np.triu(rng.normal(size=(n, n)))
            G0[np.diag_indices(n)] = np.repeat(rng.normal(size=(n + 1) // 2), 2)[:n]
        Q = np.linalg.qr(rng.normal(size=(n, n)) + (1j * rng.normal(size=(n, n)) if cplx else 0))[0] if rng.random() < 0.6 else np.identity(n)
        G = Q @ G0 @ Q.conj().T
        G = G / max(1.0, np.linalg.norm(G, 2) / 3)
    vg = rng.normal(size=n) + (1j * rng.normal(size=n) if cplx else 0)
    resg = kr.krylov_residuals(G, vg, m + 1)
    kdg = kr.krylov_dim(resg)
    if any(1e-8 <= r <= 1e-5 for r in resg[:m]):
        kdg = 10**9
    # general (non-normal, defective) matrices: |dt| ||G|| <= 3 -- the exponential of a non-normal matrix is ill conditioned for long time arguments, two
    # finite-precision evaluations (library and scipy reference) then differ by far more than rounding (1.3e-7 observed at |dt| ||G|| = 76) without either being wrong
    dt_g = dt if abs(dt) <= 1.0 else dt / abs(dt) * float(rng.uniform(0.05, 1.0))
    ctx.case(('general', gk, 'm>n' if m > n else ('m=n' if m == n else 'm<n'), 'exhausted' if m >= kdg else 'not-exhausted', 'complex' if cplx else 'real', dtk),
             sample={'n': n, 'm': m, 'G': G, 'v': vg, 'dt': dt_g})
    check_expm(ctx, G, vg, dt_g, m, kdg, hermitian=False)


def large_case(ctx, idx, rng):
    n = int(rng.choice([20, 50, 120]))
    m = int(rng.integers(1, 30)) if idx % 3 else int(rng.integers(min(30, n), min(n, 90) + 1))
    cplx = bool(rng.random() < 0.5)
    spectrum = str(rng.choice(SPECTRA))
    start = str(rng.choice(['generic', 'real', 'invariant-rotated']))
    A, v = kr.make_case(rng, n, cplx, spectrum, start)
    if idx % 5 == 2:
        # LONG runs: 70 .. 110 iterations on a REAL problem of dimension 160 with an isolated lowest level (a Ritz value that converges early): anything that
        # re-orthogonalises against a window / a block of recent vectors only, ghost Ritz pairs
        n, m, cplx, spectrum, start = 160, int(rng.integers(70, 111)), False, 'isolated-lowest-level', 'real'
        Qr = np.linalg.qr(rng.normal(size=(n, n)))[0]
        lam_ = np.concatenate([[-float(rng.uniform(5, 60))], rng.uniform(0, 1, size=n - 1)])
        A = (Qr * lam_) @ Qr.T
        A = (A + A.T) / 2
        v = rng.normal(size=n)
    A = A / max(1.0, np.linalg.norm(A, 2) / 3)
    res = kr.krylov_residuals(A, v, m + 1)
    kd = kr.krylov_dim(res)
    if any(1e-8 <= r <= 1e-5 for r in res[:m]):
        kd = 10**9
    dt = 1j * float(rng.choice([-1, 1])) * long_dt(rng)
    ctx.case(('hermitian', 'large-n' if n < 160 else 'n160-long-run', 'exhausted' if m >= kd else 'not-exhausted', spectrum, start), sample={'n': n, 'm': m, 'spectrum': spectrum, 'start': start})
    check_eigh(ctx, A, v, m, kd)
    check_expm(ctx, A, v, dt, m, kd, hermitian=True)


def coefficient_zero_case(ctx, idx, rng):
    """Time arguments tuned (Newton iteration in the complex plane) to a ZERO of one Krylov coefficient c_k(dt) = q_k^H exp(dt A) q_0 while later
    coefficients are of order one: the exact result simply has no component along one Krylov vector. Iteration count = Krylov dimension (exactness demanded)."""
    n = int(rng.integers(3, 9))
    cplx = bool(rng.random() < 0.5)
    spectrum = str(rng.choice(SPECTRA))
    A, v = kr.make_case(rng, n, cplx, spectrum, str(rng.choice(['generic', 'real'])))
    A = A / max(1.0, np.linalg.norm(A, 2) / 3)
    hit = kr.coefficient_zero(rng, A, v)
    if hit is None:
        ctx.case(('coefficient-zero', 'none-found'), nontrivial=False)
        ctx.event('coefficient_zero_not_found')
        return
    z, k = hit
    res = kr.krylov_residuals(A, v, n + 1)
    kd = kr.krylov_dim(res)
    if any(1e-8 <= r <= 1e-5 for r in res[:n]):
        ctx.case(('coefficient-zero', 'ambiguous-exhaustion'), nontrivial=False)
        return
    m = int(min(n, kd)) if rng.random() < 0.7 else n + 2
    ctx.case(('coefficient-zero', f'n{n}', f'k{min(k, 3)}', spectrum, 'complex' if cplx else 'real'), sample={'n': n, 'm': m, 'A': A, 'v': v, 'dt': z, 'vanishing_coefficient': k})
    check_expm(ctx, A, v, z, m, kd, hermitian=True)
    check_expm(ctx, A, v, z, m, kd, hermitian=False)


def f6_case(ctx, idx, rng):
    n = (40, 64, 100)[idx % 3]
    m = n - (0, 6, 30)[idx % 3]
    A = rng.normal(size=(n, n)) + 1j * rng.normal(size=(n, n))
    A = (A + A.conj().T) / np.sqrt(n)
    v = rng.normal(size=n) + 1j * rng.normal(size=n)
    res = kr.krylov_residuals(A, v, m + 1)
    kd = kr.krylov_dim(res)
    ctx.case(('hermitian', 'n~m-large', f'n{n}m{m}'), sample={'n': n, 'm': m})
    check_eigh(ctx, A, v, m, kd)
    check_expm(ctx, A, v, 0.5j, m, kd, hermitian=True)


SPEC = {
    'id': 'C15',
    'rule': ('same (n, m) grid as C14 (1<=n<=10, 1<=m<=n+5) x spectra x starts x real/complex x dt in {imaginary, real, complex}: eigh_krylov and '
             'expm_krylov (both flags) on Hermitian matrices, expm_krylov general branch on non-normal matrices incl. defective ones (Jordan blocks, ladder operators, degenerate triangular); large n; cases with m close to n '
             '(orthogonality-loss regime). Bounds and norm preservation are demanded for every m; exactness where m >= the independently computed '
             'Krylov dimension (ambiguous exhaustion, residual in [1e-8,1e-5], skipped and counted); Ritz-vector orthonormality and Rayleigh quotients where m < Krylov '
             'dimension (all conditioning classes). distinct = (branch, m vs n, exhausted?, spectrum, start, dtype, dt class).'),
    'deciding': ['eigh.lower-bound', 'eigh.upper-bound', 'expm-h.norm-preserved', 'expm-h.exact-when-exhausted', 'expm-g.exact-when-exhausted',
                 'eigh.exhausted-reaches-min-reachable', 'eigh.ritz-vectors-orthonormal', 'eigh.ritz-rayleigh'],
    'workloads': [
        Workload('grid', grid_case, quick=len(GRID) * 6, thorough=len(GRID) * 3000),
        Workload('large', large_case, quick=450, thorough=40000),
        Workload('coefficient-zero', coefficient_zero_case, quick=200, thorough=20000),
        Workload('f6', f6_case, quick=6, thorough=240),
    ],
    'shards': {'quick': 1, 'thorough': 16},
    'assumptions': ['numpy eigh and scipy expm on the dense matrix are the references'],
}
