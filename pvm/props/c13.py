"""C13 — compression and vector-to-MPS conversion obey their truncation error bounds."""
import numpy as np

from .. import gen, monitor, oracles, refs
from ..core import Workload
from ..env import ptn
from .c01 import _qd, add_structure

GRID = [0.0, 0.0, 1e-24, 1e-20, 1e-17, 1e-14, 1e-10, 1e-6, 1e-4, 1e-3, 1e-2, 0.03, 0.1, 0.2]


def make_state(rng, kind, L, d):
    if kind == 'tall-weak':
        # large local dimension (d^2 > 40), a full-capacity bond next to a bond of dimension 2..3 that carries a WEAK Schmidt value (1e-5 .. 1e-10) in a generic
        # gauge: the matrix split at that bond is very tall and skinny (7*14 x 2), its small singular value must survive a zero / tiny tolerance
        d = int(rng.choice([7, 8]))
        small = int(rng.choice([2, 3]))
        D = [1, d, 2 * d, small, 1]
        if rng.random() < 0.5:
            D = D[::-1]
        qd = np.zeros(d, dtype=int)
        psi = ptn.MPS(qd, [np.zeros(Di, dtype=int) for Di in D], fill='random', rng=np.random.default_rng(int(rng.integers(0, 2 ** 31))))
        cplx = bool(rng.random() < 0.6)
        i = D.index(small, 1) - 1 if D[3] == small else 1            # tensor whose matricisation towards the small bond is tall
        c = lambda *sh: rng.normal(size=sh) + (1j * rng.normal(size=sh) if cplx else 0)
        for j in range(4):
            psi.A[j] = c(*psi.A[j].shape) / np.sqrt(psi.A[j].shape[0] * psi.A[j].shape[1])
        weak = np.concatenate([[1.0], 10.0 ** -rng.uniform(5, 10, size=small - 1)])
        if D[3] == small:
            T = psi.A[2]
            M = T.reshape(-1, small)
            U = np.linalg.qr(M)[0]
            W = np.linalg.qr(c(small, small))[0]
            psi.A[2] = ((U * weak) @ W).reshape(T.shape)
        else:
            T = psi.A[1]
            M = T.transpose(1, 0, 2).reshape(small, -1)
            V = np.linalg.qr(M.conj().T)[0].conj().T
            W = np.linalg.qr(c(small, small))[0]
            psi.A[1] = (W @ (weak[:, None] * V)).reshape(small, T.shape[0], T.shape[2]).transpose(1, 0, 2)
        return psi
    if kind == 'product':
        qd = np.zeros(d, dtype=int)
        return gen.rand_mps(rng, qd, L, 'one')
    if kind == 'sectors':
        name = str(rng.choice(['xxz', 'xxz1', 'bose3', 'fermi']))
        qd = {'xxz': [1, -1], 'xxz1': [1, 0, -1], 'bose3': [0, 1, 2], 'fermi': [0, (1 << 16) - 1, (1 << 16) + 1, 2 << 16]}[name]
        while len(qd) ** L > 4096:
            L -= 1
        psi = gen.rand_mps(rng, qd, L, str(rng.choice(['random', 'max', 'over'])), Dmax=5)
        return psi
    qd = _qd(rng, d, 'zero')
    psi = gen.rand_mps(rng, qd, L, 'over' if kind == 'over' else 'random', Dmax=6, kind=str(rng.choice(['complex', 'real'])))
    if kind in ('flat', 'staircase', 'decaying', 'weak-tail'):
        # shape the spectra: canonicalise, then scale the bonds
        psi.orthonormalize('left')
        for i in range(1, L):
            D = psi.A[i].shape[1]
            if kind == 'flat':
                s = np.ones(D)
            elif kind == 'staircase':
                s = np.repeat(2.0 ** -np.arange((D + 1) // 2), 2)[:D]
            elif kind == 'weak-tail':
                # order-one Schmidt values followed by a tail at 1e-8 .. 1e-12 (relative weights 1e-16 .. 1e-24)
                nb = max(1, D // 2)
                s = np.concatenate([rng.uniform(0.3, 1, size=nb), 10.0 ** -rng.uniform(7.5, 12, size=D - nb)])
            else:
                s = np.exp(-rng.uniform(0.5, 3) * np.arange(D))
            psi.A[i] = psi.A[i] * s[None, :, None]
    return psi


def compress_case(ctx, idx, rng):
    L = int(rng.choice([1, 2, 3, 4, 5, 6, 7, 8]))
    d = int(rng.choice([2, 2, 3, 4, 1]))
    while d ** L > 4096:
        L -= 1
    kind = ('product', 'random', 'flat', 'staircase', 'decaying', 'over', 'sectors', 'weak-tail')[idx % 8]
    if idx % 24 == 15:
        kind = 'tall-weak'
    psi = make_state(rng, kind, L, d)
    if idx % 9 == 4:
        # tensors rescaled to LOOK canonical (Frobenius norm^2 = bond dimension, or unit-norm slices) without being isometries; every ninth case, cycling
        # through the four coincidences (a generic random state is used when the drawn kind has a prescribed spectrum)
        if kind not in ('random', 'over', 'sectors'):
            kind = 'random'
            psi = make_state(rng, kind, L, d)
        kind = kind + '+' + gen.pseudo_canonical(rng, psi, ('frob-left', 'frob-right', 'slice-left', 'slice-right')[(idx // 9) % 4])
    L = psi.nsites
    d = len(psi.qd)
    v0 = refs.dense_state(psi.A)
    n0 = float(np.linalg.norm(v0))
    if n0 == 0:
        ctx.case(('compress', kind, 'zero-state'), nontrivial=False)
        return
    mode = ('left', 'right')[(idx // 8) % 2]
    struct = ('none', 'none', 'dead', 'dup', 'sparse')[(idx // 16) % 5]
    if struct != 'none':
        psi.A = [np.array(a, dtype=complex) for a in psi.A]
        add_structure(rng, psi, False, struct)
        if np.linalg.norm(refs.dense_state(psi.A)) < 1e-9:
            ctx.case(('compress', kind, 'zero-state'), nontrivial=False)
            return
    psi.A[0] = psi.A[0] * float(rng.choice([1, 1e-5, 1e5, 3.0]))
    v0 = refs.dense_state(psi.A)
    n0 = float(np.linalg.norm(v0))
    # Schmidt spectrum across the first truncated cut
    cut = 1 if mode == 'left' else L - 1
    sig = None
    if L >= 2:
        sig = np.sort(np.linalg.svd(v0.reshape(d ** cut, -1), compute_uv=False))[::-1]
    tol_kind = str(rng.choice(['grid', 'on-weight', 'near-1/L']))
    tol = float(rng.choice(GRID))
    if tol_kind == 'on-weight' and sig is not None:
        cw = np.cumsum(np.sort(sig ** 2)) / n0 ** 2
        c = float(cw[int(rng.integers(0, len(cw)))])
        t = c * (1 + float(rng.choice([-1e-9, 1e-9])))
        if 0 <= t < 1.0 / L:
            tol = t
    elif tol_kind == 'near-1/L':
        tol = float(rng.uniform(0.5, 0.999)) / L
    D_old = list(psi.bond_dims)
    ends = (psi.qD[0].copy(), psi.qD[-1].copy())
    snap = {'qd': psi.qd.copy(), 'qD': [q.copy() for q in psi.qD], 'A': [a.copy() for a in psi.A], 'tol': tol, 'mode': mode}
    ctx.case(('compress', kind, f'L{min(L, 4)}', mode, 'tol0' if tol == 0 else tol_kind, struct), sample={'qD': snap['qD'], 'tol': tol, 'mode': mode, 'L': L, 'd': d}, info=snap)
    K = 0
    if idx % 5 == 3 and all(np.issubdtype(a.dtype, np.inexact) and a.dtype not in (np.float32, np.complex64) for a in psi.A):
        # tensors scaled by exact powers of two up to 2**+-830 (the preparatory orthonormalisation sweep keeps every intermediate representable):
        # everything must be as for the unscaled state, with nrm multiplied by the known power
        from .c01 import sweep_exponents
        ks = sweep_exponents(rng, L, 'right' if mode == 'left' else 'left')
        K = int(sum(ks))
        for i, k in enumerate(ks):
            if k:
                psi.A[i] = (np.ldexp(psi.A[i].real, k) + 1j * np.ldexp(psi.A[i].imag, k)) if np.iscomplexobj(psi.A[i]) else np.ldexp(psi.A[i], k)
        snap['binary_exponents_applied_to_A'] = ks
        ctx.event('compress_extreme_scale_cases')
    res = psi.compress(np.float64(tol) if idx % 2 else tol, np.str_(mode) if idx % 7 == 0 else mode) if not (mode == 'left' and idx % 3 == 0) else psi.compress(tol)          # default mode is 'left'
    detail = snap
    if not ctx.ok('compress.returns-pair', isinstance(res, tuple) and len(res) == 2, f'returned {res!r}', detail):
        return
    nrm, scale = res
    okr = all(np.isrealobj(x) and np.isfinite(x) for x in (nrm, scale))
    if not ctx.ok('compress.real-finite', bool(okr), f'(nrm, scale) = {res!r}', detail):
        return
    nrm, scale = float(np.ldexp(float(nrm), -K)), float(scale)
    ctx.close('compress.nrm-equals-norm', abs(nrm - n0), 1e-10 * n0, f'nrm {nrm} != {n0}', detail)
    ctx.ok('compress.scale-in-range', np.sqrt(max(0.0, 1 - L * tol)) - 1e-10 <= scale <= 1 + 1e-10,
           f'scale {scale} outside [sqrt(1-L*tol)={np.sqrt(max(0.0, 1 - L * tol))}, 1]', detail)
    inv = refs.mps_invariant(psi)
    if not ctx.ok('compress.block-sparse-after', inv is None, str(inv), detail):
        return
    v1 = refs.dense_state(psi.A)
    ctx.close('compress.unit-norm', abs(np.linalg.norm(v1) - 1), 1e-10, 'compressed state not normalised', detail)
    worst = 0.0
    for A in psi.A:
        M = A.reshape(-1, A.shape[2]) if mode == 'left' else A.transpose(0, 2, 1).reshape(-1, A.shape[1])
        worst = max(worst, float(np.linalg.norm(M.conj().T @ M - np.identity(M.shape[1]))))
    ctx.close('compress.canonical-in-sweep-direction', worst, 1e-9, f'not {mode}-canonical after compress', detail)
    D_new = list(psi.bond_dims)
    ctx.ok('compress.bond-dims-do-not-grow', all(a <= b for a, b in zip(D_new, D_old)), f'bond dims {D_old} -> {D_new}', detail)
    ctx.ok('compress.boundary-charges-kept', np.array_equal(psi.qD[0], ends[0]) and np.array_equal(psi.qD[-1], ends[1]), 'boundary charges changed', detail)
    err2 = float(np.linalg.norm(nrm * scale * v1 - v0) ** 2)
    ctx.close('compress.error-identity', abs(err2 - nrm ** 2 * (1 - scale ** 2)) / n0 ** 2, 1e-10, '|nrm*scale*new - old|^2 != nrm^2 (1 - scale^2)', detail)
    ctx.ok('compress.error-bound', err2 <= n0 ** 2 * (np.sqrt(L * tol) + 1e-11) ** 2, f'error^2 {err2 / n0 ** 2:.3e} > L*tol = {L * tol:.3e}', detail)
    if tol == 0:
        ctx.close('compress.tol0-exact', np.sqrt(err2), 1e-10 * n0, 'zero tolerance must be exact', detail)
    if sig is not None:
        kmin, kmax = oracles.expected_kept_range(sig, tol)
        k = D_new[cut]
        ctx.ok('compress.first-bond-kept-count', kmin <= k <= kmax, f'first truncated bond (cut {cut}) keeps {k} Schmidt values, rule prescribes [{kmin},{kmax}]', detail)
    if idx % 4 == 0 and not ctx._case_failed:
        # history: the same (now canonical) object edited in place and compressed again, possibly in the other direction
        j = int(rng.integers(0, L))
        psi.A[j] *= float(rng.choice([3.0, -0.5, 2.0]))
        mode2 = str(rng.choice(['left', 'right']))
        v_b = refs.dense_state(psi.A)
        n_b = float(np.linalg.norm(v_b))
        nrm2, scale2 = psi.compress(tol, mode2)
        v_a = refs.dense_state(psi.A)
        ctx.close('compress.again.nrm-equals-norm', abs(float(nrm2) - n_b), 1e-10 * n_b, 'second compress after an in-place edit: nrm != current norm', detail)
        ctx.close('compress.again.unit-norm', abs(np.linalg.norm(v_a) - 1), 1e-10, 'second compress: not normalised', detail)
        ctx.close('compress.again.error-identity', abs(float(np.linalg.norm(float(nrm2) * float(scale2) * v_a - v_b) ** 2) - float(nrm2) ** 2 * (1 - float(scale2) ** 2)) / n_b ** 2, 1e-10,
                  'second compress: error identity', detail)
        worst = 0.0
        for A_ in psi.A:
            M_ = A_.reshape(-1, A_.shape[2]) if mode2 == 'left' else A_.transpose(0, 2, 1).reshape(-1, A_.shape[1])
            worst = max(worst, float(np.linalg.norm(M_.conj().T @ M_ - np.identity(M_.shape[1]))))
        ctx.close('compress.again.canonical', worst, 1e-9, f'second compress: not {mode2}-canonical', detail)


def from_vector_case(ctx, idx, rng):
    d = int(rng.choice([2, 2, 3, 4]))
    L = int(rng.integers(1, 9))
    while d ** L > 4096:
        L -= 1
    n = d ** L
    kind = str(rng.choice(['gaussian', 'low-rank', 'product', 'flat']))
    if kind == 'gaussian':
        v = rng.normal(size=n) + 1j * rng.normal(size=n)
    elif kind == 'product':
        v = np.ones(1)
        for _ in range(L):
            v = np.kron(v, rng.normal(size=d) + 1j * rng.normal(size=d))
        v = v + 1e-5 * rng.normal(size=n)
    elif kind == 'flat':
        v = np.zeros(n)
        v[[sum(s * d ** k for k in range(L)) for s in range(d)]] = 1.0   # GHZ-like: flat spectrum at every cut
    else:
        psi = gen.rand_mps(rng, np.zeros(d, dtype=int), L, 'random', Dmax=3)
        v = refs.dense_state(psi.A) + 1e-4 * rng.normal(size=n)
    v = v * float(rng.choice([1, 1e-4, 1e4]))
    kx = int(rng.choice([0, 0, 0, -560, 560, -830, 830]))         # exact power-of-two scaling far outside the unit range (entries ~1e+-169, 1e+-250)
    v_unscaled = np.array(v, copy=True)
    if kx:
        v = (np.ldexp(v.real, kx) + 1j * np.ldexp(v.imag, kx)) if np.iscomplexobj(v) else np.ldexp(np.asarray(v, dtype=float), kx)
    tol = float(rng.choice(GRID + [0.5 / L, 0.9 / L]))
    if tol >= 1.0 / L:
        tol = 0.5 / L
    ctx.case(('from_vector', kind, f'd{d}', f'L{min(L, 4)}', 'tol0' if tol == 0 else 'tol>0', 'unit-scale' if kx == 0 else ('tiny' if kx < 0 else 'huge')), sample={'d': d, 'L': L, 'tol': tol, 'v': v[:16]},
             info={'d': d, 'L': L, 'tol': tol, 'v': v})
    detail = {'d': d, 'L': L, 'tol': tol, 'v': v}
    v0 = np.array(v, copy=True)
    with monitor.write_protected(v):
        psi = ptn.MPS.from_vector(d, L, v, tol)
    inv = refs.mps_invariant(psi)
    if not ctx.ok('from_vector.invariant', inv is None, str(inv), detail):
        return
    ctx.ok('from_vector.input-unchanged', np.array_equal(v, v0), 'input vector modified', detail)
    dense = refs.dense_state(psi.A)
    if kx:
        dense = np.ldexp(dense.real, -kx) + 1j * np.ldexp(dense.imag, -kx)
        v0 = v_unscaled
    err = float(np.linalg.norm(dense - v0)) / float(np.linalg.norm(v0))
    ctx.ok('from_vector.error-bound', err <= np.sqrt(L * tol) + 1e-11, f'relative error {err:.3e} > sqrt(L*tol) = {np.sqrt(L * tol):.3e}', detail)
    if tol == 0:
        ctx.close('from_vector.tol0-exact', err, 1e-10, 'zero tolerance must reproduce the vector', detail)
    # first bond keeps what the rule prescribes for the spectrum of the first unfolding
    if L >= 2:
        sig = np.sort(np.linalg.svd(v0.reshape(d, -1), compute_uv=False))[::-1]
        kmin, kmax = oracles.expected_kept_range(sig, tol)
        ctx.ok('from_vector.first-bond-kept-count', kmin <= psi.bond_dims[1] <= kmax, f'first bond keeps {psi.bond_dims[1]}, rule prescribes [{kmin},{kmax}]', detail)
    # the result must be usable: later public operations work on it
    c = ptn.MPS(psi.qd, psi.qD, fill='postpone')
    c.A = [a.copy() for a in psi.A]
    c.qD = [np.array(q, copy=True) for q in psi.qD]
    n2 = c.orthonormalize('left' if idx % 2 else 'right')
    ctx.close('from_vector.result-usable', abs(float(np.ldexp(float(n2), -kx)) - np.linalg.norm(dense)), 1e-9 * np.linalg.norm(v0), 'orthonormalize on a from_vector result', detail)


def exact_tie_case(ctx, idx, rng):
    """Tolerance EXACTLY on a cumulative Schmidt weight: spectra with a power-of-two norm placed on a generalised diagonal, so that every QR / SVD factor,
    every squared weight and every partial sum is exact in binary64 (verified per case on the values the library hands to retained_bond_indices).
    The rule 'discard while the discarded weight is <= tol' is then decidable without any rounding slack, also AT the threshold."""
    from fractions import Fraction
    from .c12 import EXACT_SPECTRA, _exact_ok, exact_count
    spec = [sp for sp in EXACT_SPECTRA if _exact_ok(sp)]
    sp = [x for x in spec[idx % len(spec)] if x != 0]
    k = len(sp)
    L = int(rng.integers(2, 5))
    via = ('compress-left', 'compress-right', 'from_vector')[(idx // len(spec)) % 3]
    perm = rng.permutation(k)
    order = rng.permutation(k)
    tot = sum(int(x) ** 2 for x in sp)
    cum = sorted(set(sum(sorted(int(x) ** 2 for x in sp)[:j]) for j in range(k + 1)))
    tols = [Fraction(c, tot) for c in cum if 0 < c < tot] + [Fraction(a + b, 2 * tot) for a, b in zip(cum[:-1], cum[1:])]
    tols = [t for t in tols if Fraction(float(t)) == t and float(t) * L < 1]
    if not tols:
        ctx.case(('exact-tie', 'no-representable-tolerance'), nontrivial=False)
        return
    t = tols[int(rng.integers(0, len(tols)))]
    on_weight = t.denominator and (t * tot).denominator == 1 and int(t * tot) in cum
    scale = float(rng.choice([1.0, 0.25, 8.0]))              # powers of two: exact
    # psi = sum_i s_i |i>|perm(i)>|0...0>: the only entangled bond is bond 1, hence the first truncated bond of either sweep
    vec = np.zeros((k, k) + (k,) * (L - 2))
    for i in range(k):
        vec[(int(order[i]), int(perm[i])) + (0,) * (L - 2)] = sp[i] * scale * (1 if rng.random() < 0.5 else -1)
    seen = []

    def around(orig, sv, tol):
        out = orig(sv, tol)
        try:
            seen.append(np.array(sv, dtype=float, copy=True))
        except Exception:
            pass
        return out
    ctx.case(('exact-tie', via, f'k{k}', f'L{L}', 'on-weight' if on_weight else 'between'), sample={'spectrum': sp, 'L': L, 'tol': float(t), 'via': via},
             info={'spectrum': sp, 'L': L, 'tol': float(t), 'via': via, 'vector': vec.reshape(-1)})
    detail = ctx.cur_info
    with monitor.attached('pytenet.bond_ops.retained_bond_indices', around):
        if via == 'from_vector':
            psi = ptn.MPS.from_vector(k, L, vec.reshape(-1), float(t))
        else:
            psi = ptn.MPS(np.zeros(k, dtype=int), [np.zeros(D, dtype=int) for D in [1] + [k] + [1] * (L - 1)], fill=0.0)
            for i in range(k):
                psi.A[0][int(order[i]), 0, i] = vec[(int(order[i]), int(perm[i])) + (0,) * (L - 2)]
                psi.A[1][int(perm[i]), i, 0] = 1.0
            for j in range(2, L):
                psi.A[j][0, 0, 0] = 1.0
            psi.compress(float(t), via.split('-')[1])
    inv = refs.mps_invariant(psi)
    if not ctx.ok('exact-tie.invariant', inv is None, str(inv), detail):
        return
    # exact expectations apply only if the library's own factorisations delivered the spectrum bit for bit (up to a power of two and zeros)
    want = sorted(float(x) for x in sp)
    exact = False
    for sv in seen:
        nz = np.sort(np.abs(sv[sv != 0]))
        if len(nz) == k and nz[-1] > 0:
            r = want[-1] / nz[-1]
            if np.frexp(r)[0] == 0.5 and np.array_equal(nz * r, np.array(want)):
                exact = True
                break
    if not exact:
        ctx.skip('exact-tie.kept-count')
        ctx.event('exact_tie_spectrum_not_bit_exact')
        return
    exp = exact_count(sp, t)
    ctx.ok('exact-tie.kept-count', psi.bond_dims[1] == exp, f'{via}, tol={float(t)} ({"ON" if on_weight else "between"} cumulative weights): bond 1 keeps '
           f'{psi.bond_dims[1]} Schmidt values, the tolerance rule (discard while the discarded weight is <= tol) prescribes {exp}', detail)


def large_case(ctx, idx, rng):
    """compress beyond the dense reach: error identity and bounds through overlaps."""
    from .. import large
    L = int(rng.integers(8, 25))
    d = int(rng.choice([2, 3, 5]))
    qd = _qd(rng, d, str(rng.choice(['zero', 'unsorted', 'pairs', 'huge'])))
    psi = large.big_state(rng, qd, L, int(rng.choice([6, 10])))
    # shape the spectra a little so that truncation happens
    for i in range(1, L):
        D = psi.A[i].shape[1]
        psi.A[i] = psi.A[i] * np.exp(-float(rng.uniform(0, 1.5)) * np.arange(D))[None, :, None]
    mode = ('left', 'right')[idx % 2]
    tol = float(rng.choice([0.0, 1e-8, 1e-4, 1e-2])) / (1 if rng.random() < 0.5 else L)
    A_old = [np.array(a, dtype=complex) for a in psi.A]
    D_old = list(psi.bond_dims)
    n0 = large.norm_of(A_old)
    ctx.case(('large-compress', f'L{L // 8 * 8}+', f'd{d}', mode, 'tol0' if tol == 0 else 'tol>0'), sample={'L': L, 'd': d, 'bond_dims': D_old, 'tol': tol, 'mode': mode})
    detail = {'L': L, 'd': d, 'bond_dims': D_old, 'tol': tol, 'mode': mode}
    nrm, scale = psi.compress(tol, mode)
    nrm, scale = float(nrm), float(scale)
    inv = refs.mps_invariant(psi)
    if not ctx.ok('large.block-sparse-after', inv is None, str(inv), detail):
        return
    ctx.close('large.nrm-equals-norm', abs(nrm - n0), 1e-9 * n0, f'nrm {nrm} != {n0}', detail)
    ctx.ok('large.scale-in-range', np.sqrt(max(0.0, 1 - L * tol)) - 1e-9 <= scale <= 1 + 1e-9, f'scale {scale}', detail)
    ctx.close('large.unit-norm', abs(large.norm_of(psi.A) - 1), 1e-9, 'not normalised', detail)
    worst = 0.0
    for A in psi.A:
        M = A.reshape(-1, A.shape[2]) if mode == 'left' else A.transpose(0, 2, 1).reshape(-1, A.shape[1])
        worst = max(worst, float(np.linalg.norm(M.conj().T @ M - np.identity(M.shape[1]))))
    ctx.close('large.canonical', worst, 1e-8, f'not {mode}-canonical', detail)
    ctx.ok('large.bond-dims-do-not-grow', all(x <= y for x, y in zip(psi.bond_dims, D_old)), f'{D_old} -> {psi.bond_dims}', detail)
    ov = refs.mps_overlap(psi.A, A_old)
    err2 = n0 ** 2 + (nrm * scale) ** 2 - 2 * nrm * scale * ov.real
    ctx.close('large.error-identity', abs(err2 - nrm ** 2 * (1 - scale ** 2)) / n0 ** 2, 1e-8, '|nrm scale new - old|^2 != nrm^2 (1 - scale^2)', detail)
    ctx.close('large.overlap-is-real-positive', abs(ov.imag) / n0, 1e-8, '<new|old> has a phase: the trailing phase was not absorbed', detail)
    ctx.ok('large.error-bound', err2 <= n0 ** 2 * (L * tol + 1e-8), f'error^2/n0^2 = {err2 / n0 ** 2:.3e} > L tol = {L * tol:.3e}', detail)


SPEC = {
    'id': 'C13',
    'rule': ('compress: states {product, random, flat / staircase / decaying Schmidt spectra (bonds of a canonical state rescaled), over-complete '
             'bonds, charge sectors of XXZ / spin-1 / Bose / encoded Fermi pairs} x L 1..8 x both modes x tolerances {0, grid 1e-14..0.2, on a '
             'cumulative Schmidt weight of the first cut (x(1 +- 1e-9)), close to 1/L}, norms 1e-5..1e5; from_vector: Gaussian, perturbed low-rank / '
             'product, GHZ vectors, d 2..4, L 1..8; exact ties: spectra with a power-of-two norm on a generalised diagonal (all arithmetic exact, verified per case), tolerance exactly ON and between the cumulative weights, through compress (both modes) and from_vector. Non-trivial = non-zero state; distinct = (family, spectrum kind, L, mode, tolerance class).'),
    'deciding': ['compress.nrm-equals-norm', 'compress.scale-in-range', 'compress.error-identity', 'compress.error-bound', 'compress.unit-norm',
                 'compress.canonical-in-sweep-direction', 'compress.bond-dims-do-not-grow', 'compress.first-bond-kept-count', 'compress.tol0-exact',
                 'from_vector.error-bound', 'from_vector.tol0-exact', 'exact-tie.kept-count'],
    'workloads': [
        Workload('compress', compress_case, quick=1800, thorough=360000),
        Workload('large', large_case, quick=80, thorough=8000),
        Workload('from-vector', from_vector_case, quick=800, thorough=120000),
        Workload('exact-ties', exact_tie_case, quick=300, thorough=30000),
    ],
    'shards': {'quick': 1, 'thorough': 16},
    'assumptions': ['dense Schmidt spectrum from numpy.linalg.svd of the unfolded vector; threshold slack 1e-12'],
}
