"""C08 — real-time TDVP conserves norm, energy and quantum numbers (TRACE monitor on every sub-step)."""
import copy

import numpy as np

from .. import gen, monitor, refs
from ..core import Workload
from ..env import ptn

TOL = 1e-10


def pick_problem(rng, Lmin=1, Lmax=7, maxdim=512):
    src = str(rng.choice(['model', 'model', 'hermitian-random', 'hermitian-charge-free', 'nn-pattern', 'nn-pattern', 'hermitian-funnel', 'long-range']))
    if src == 'long-range':
        # terms whose end points are not neighbours (hopping X_i S ... S X^dagger_j across SPECTATOR sites that carry only identities, strings and fields),
        # compiled from operator chains
        d = int(rng.choice([2, 2, 3]))
        lmax = Lmax
        while d ** lmax > maxdim and lmax > 1:
            lmax -= 1
        L = int(rng.integers(max(Lmin, min(3, lmax)), lmax + 1))
        qd = np.array([[1, -1], [1, 0, -1]][d - 2]) if rng.random() < 0.7 else np.zeros(d, dtype=int)
        H = gen.long_range_hamiltonian(rng, qd, L, cplx=bool(rng.random() < 0.6))
        label = 'long-range'
    elif src == 'nn-pattern':
        # hand-built nearest-neighbour Hamiltonian with site-dependent parameter patterns (staggered, impurity, period 3, blocks, ...)
        d = int(rng.choice([2, 2, 3]))
        lmax = Lmax
        while d ** lmax > maxdim and lmax > 1:
            lmax -= 1
        L = int(rng.integers(max(Lmin, 1), lmax + 1))
        qd = rng.integers(-1, 2, size=d) if rng.random() < 0.6 else np.zeros(d, dtype=int)
        cpl_ = bool(rng.random() < 0.6)
        iso_ = bool(cpl_ and rng.random() < 0.5)
        H, pat, _ = gen.nn_pattern_hamiltonian(rng, qd, L, cplx=cpl_, iso=iso_)
        label = 'nn-' + pat + ('+isotropic-blocks' if iso_ else '')
    elif src == 'model':
        name = str(rng.choice(['ising', 'xxz', 'xxz1', 'bose3', 'fermi']))
        d = gen.MODEL_D[name]
        lmax = Lmax
        while d ** lmax > maxdim and lmax > 1:
            lmax -= 1
        L = int(rng.integers(max(Lmin, 1), lmax + 1))
        # the built-in constructors need at least one term that fits
        H = gen.model(name, L, gen.generic_params(rng))
        label = name
    else:
        d = int(rng.choice([2, 2, 3]))
        lmax = Lmax
        while d ** lmax > maxdim and lmax > 1:
            lmax -= 1
        L = int(rng.integers(max(Lmin, 1), lmax + 1))
        if src == 'hermitian-random':
            qd = rng.integers(-1, 2, size=d)
        else:
            qd = np.zeros(d, dtype=int)
        if src == 'hermitian-funnel':
            # operator bonds that vary strongly along the chain (a bond larger than d^2 times its neighbour, interior bonds of dimension 2)
            H = gen.funnel_hermitian_mpo(rng, d, L, cplx=bool(rng.random() < 0.8))
        else:
            H = gen.rand_hermitian_mpo(rng, qd, L, Dmax=2)
        label = src
    prof = str(rng.choice(['random', 'random', 'max', 'over', 'one']))
    if rng.random() < 0.12 and len(H.qd) ** L <= 256:
        # start from an EXACT eigenstate of H (quantum numbers switched off on a copy of the operator): every local Krylov space is one-dimensional
        # (breakdown at the first iteration), the state may only acquire a phase
        import copy as _copy
        H = _copy.deepcopy(H).zero_qnumbers()
        lam, U = np.linalg.eigh((lambda M: (M + M.conj().T) / 2)(refs.dense_operator(H.A)))
        psi = ptn.MPS.from_vector(len(H.qd), L, U[:, int(rng.integers(0, U.shape[1]))] * complex(rng.normal(), rng.normal()), 0)
        if np.linalg.norm(refs.dense_state(psi.A)) > 1e-8:
            return label + '+eigenstate-start', L, H, psi, 'eigenstate'
    for _ in range(20):
        psi = gen.rand_mps(rng, H.qd, L, prof, Dmax=4, kind=str(rng.choice(['complex', 'real'])))
        if np.linalg.norm(refs.dense_state(psi.A)) > 1e-8:
            break
        prof = 'max'
    else:
        return None
    return label, L, H, psi, prof


def tdvp_case(ctx, idx, rng, long=False):
    import pytenet.evolution as pe
    two = bool(idx % 2)
    prob = pick_problem(rng, Lmin=2 if two else 1) if not long else pick_problem(rng, Lmin=3, Lmax=5, maxdim=81)
    if prob is None:
        ctx.case(('no-nonzero-state',), nontrivial=False)
        return
    label, L, H, psi, prof = prob
    numiter = int(rng.choice([1, 2, 3, 5, 25, 25]))
    nsteps = int(rng.integers(1, 5))
    if long:
        # many time steps in ONE call (round numbers 100 / 128 / 200 / 256 and their neighbours included)
        nsteps = int(rng.choice([int(rng.integers(97, 141)), 101, 128, 129, 200, 201, 256, 257, 300]))
        numiter = int(rng.choice([2, 3, 5, 25]))
    dt = 1j * float(rng.choice([-1, 1])) * float(rng.uniform(0.01, 0.5))
    degenerate = None
    if not long and idx % 23 == 11:
        # nothing to integrate: zero steps, or a zero time step -- the state must still come back normalised (and otherwise unchanged)
        degenerate = str(rng.choice(['numsteps=0', 'dt=0', 'dt=0j']))
        if degenerate == 'numsteps=0':
            nsteps = 0
        else:
            dt = 0.0 if degenerate == 'dt=0' else 0j
    scale = float(rng.choice([1.0, 0.3, 7.0])) * np.exp(1j * float(rng.uniform(0, 2 * np.pi)) if rng.random() < 0.3 else 0)
    psi.A[0] = psi.A[0] * scale
    mH = refs.dense_operator(H.A)
    nH = max(np.linalg.norm(mH, 2), 1.0)
    v_in = refs.dense_state(psi.A)
    n_in = float(np.linalg.norm(v_in))
    E0 = float(np.real(np.vdot(v_in, mH @ v_in))) / n_in ** 2
    D_in = list(psi.bond_dims)
    ends = (psi.qD[0].copy(), psi.qD[-1].copy())
    integ = 'twosite' if two else 'singlesite'
    ctx.case((integ, label, f'L{L}', prof, f'numiter{numiter}', (f'steps{min(nsteps, 2)}' if not long else f'steps>={nsteps // 100 * 100}') + ('' if degenerate is None else '+' + degenerate)),
             sample={'integrator': integ, 'model': label, 'L': L, 'qD': psi.qD, 'dt': dt, 'numiter': numiter, 'steps': nsteps},
             info={'integrator': integ, 'model': label, 'L': L, 'qd': H.qd, 'qD': psi.qD, 'A': psi.A, 'H_A': H.A, 'H_qD': H.qD, 'dt': dt, 'numiter': numiter, 'steps': nsteps})
    detail = ctx.cur_info
    psi_copy = copy.deepcopy(psi)
    trace = []
    bond = []
    first = []

    def around_h(orig, Lb, Rb, W, A, dt_, numiter_):
        # entry of a local Hamiltonian step: every earlier sub-step has been stored, psi is a valid MPS of the current state
        try:
            v = refs.dense_state(psi.A)
            if not trace:
                first.append(float(np.linalg.norm(v - v_in / n_in)))
            trace.append((float(np.linalg.norm(v)), float(np.real(np.vdot(v, mH @ v)))))
        except Exception as e:          # the monitor must never disturb the run
            trace.append((float('nan'), float('nan')))
        out = orig(Lb, Rb, W, A, dt_, numiter_)
        bond.append(('h', float(np.linalg.norm(A)), float(np.linalg.norm(out))))
        return out

    def around_b(orig, Lb, Rb, C, dt_, numiter_):
        out = orig(Lb, Rb, C, dt_, numiter_)
        bond.append(('b', float(np.linalg.norm(C)), float(np.linalg.norm(out))))
        return out
    if np.any(psi.qd) and idx % 5 == 0:
        # the operator in a different, equally valid labelling (shifted physical labels): the state's own labels are the ones that count
        H = gen.relabelled_operator(np.random.default_rng(idx), H)
    dH = monitor.digest(H)
    fn = ptn.integrate_local_twosite if two else ptn.integrate_local_singlesite
    with monitor.attached('pytenet.evolution._local_hamiltonian_step', around_h), monitor.attached('pytenet.evolution._local_bond_step', around_b), \
            monitor.write_protected(H):
        if numiter == 25 and idx % 2:
            ret = fn(H, psi, dt, nsteps)                  # documented defaults: numiter_lanczos = 25 (and tol_split = 0)
        else:
            ret = fn(H, psi, dt, nsteps, numiter_lanczos=numiter) if idx % 3 else (fn(H, psi, dt, nsteps, numiter) if not two else fn(H, psi, dt, nsteps, numiter, 0))
    ctx.ok('hamiltonian-untouched', monitor.digest(H) == dH, 'the Hamiltonian MPO was modified', detail)
    ok = np.isrealobj(ret) and np.isfinite(ret)
    if not ctx.ok('return.real-finite', bool(ok), f'returned {ret!r}', detail):
        return
    ctx.close('return==norm-of-input', abs(float(ret) - n_in), TOL * n_in, f'returned {ret}, input norm {n_in}', detail)
    inv = refs.mps_invariant(psi)
    if not ctx.ok('block-sparse-after', inv is None, str(inv), detail):
        return
    v_out = refs.dense_state(psi.A)
    ctx.close('norm-conserved', abs(np.linalg.norm(v_out) - 1), TOL, 'norm after real-time evolution != 1', detail)
    ctx.close('energy-conserved', abs(float(np.real(np.vdot(v_out, mH @ v_out))) - E0), TOL * nH, 'energy expectation value drifted', detail)
    ctx.ok('total-charge-kept', np.array_equal(psi.qD[0], ends[0]) and np.array_equal(psi.qD[-1], ends[1]), 'boundary quantum numbers changed', detail)
    # trace points (the first one sees the right-normalised input)
    tr = np.array(trace) if trace else np.zeros((0, 2))
    expected_points = nsteps * ((3 * (L - 2) + 1 + (L - 2)) if two else (2 * (L - 1) + 1)) if L >= 2 or not two else 0
    if nsteps > 0:
        ctx.ok('trace.points-observed', len(tr) >= 1, 'no trace point reached: the internal hook was not observed', detail)
    if degenerate is not None:
        ctx.close('nothing-to-integrate.state-is-normalised-input', float(np.linalg.norm(v_out - v_in / n_in)), 1e-10, f'{degenerate}: the state after the call is not the normalised input', detail)
    if first:
        ctx.close('trace.evolution-starts-from-normalised-input', first[0], 1e-10, 'state at the first internal step is not the normalised input', detail)
    if len(tr):
        ctx.close('trace.norm-at-every-substep', float(np.nanmax(np.abs(tr[:, 0] - 1))) if not np.isnan(tr).any() else float('nan'), TOL, 'norm deviates at an internal trace point', detail)
        ctx.close('trace.energy-at-every-substep', float(np.nanmax(np.abs(tr[:, 1] - E0))) if not np.isnan(tr).any() else float('nan'), TOL * nH, 'energy deviates at an internal trace point', detail)
        ctx.event('trace_points', len(tr))
    if bond:
        ctx.close('trace.local-steps-unitary', max(abs(a - b) for _, a, b in bond), TOL * 10, 'a local (site or bond) step changed the norm of its tensor', detail)
    if not two:
        ctx.ok('singlesite.bond-dims-never-grow', all(a <= b for a, b in zip(psi.bond_dims, D_in)), f'bond dims {D_in} -> {psi.bond_dims}', detail)
    # scale invariance of the RETURN VALUE: rescaling the input changes only what is returned. (That the evolution starts from the
    # normalised input is decided at the first trace point above; comparing the evolved states of two differently scaled inputs was tried
    # and dropped: rounding differences are amplified by the discrete dynamics -- 1e-15 -> 1e-4 even for |dt| ||H|| <= 0.3 near
    # rank-deficient points -- so that comparison raised false alarms.)
    if long:
        return
    c = float(rng.choice([0.5, 3.0]))
    psi2 = psi_copy
    psi2.A[int(rng.integers(0, L))] *= c
    ret2 = fn(H, psi2, dt, nsteps, numiter_lanczos=numiter)
    ctx.close('scale-invariance.return', abs(float(ret2) - c * n_in), TOL * c * n_in, 'return value does not scale with the input norm', detail)
    # repeated call on the same (already evolved) state: returns 1, keeps conserving
    if idx % 4 == 0:
        r3 = fn(H, psi, dt, 1, numiter_lanczos=numiter)
        v3 = refs.dense_state(psi.A)
        ctx.close('repeated-call.return-one', abs(float(r3) - 1), TOL, 'second call on the evolved (normalised) state must return 1', detail)
        ctx.close('repeated-call.energy', abs(float(np.real(np.vdot(v3, mH @ v3))) - E0), TOL * nH, 'energy drift on a repeated call', detail)
    elif idx % 4 == 2 and L >= 2:
        # history: the evolved state is EDITED in place between two calls in a way that keeps the shape and the Frobenius norm of the edited tensor but breaks
        # its canonical form (two entries rescaled against each other): the next call must start from what the state IS now -- its return value is the norm of
        # the edited state, norm one and the energy of the edited, normalised state are conserved
        k = int(rng.integers(1, L))
        T = psi.A[k]
        nzi = np.argwhere(np.abs(T) > 1e-3)
        if len(nzi) >= 2:
            a_, b_ = nzi[int(rng.integers(0, len(nzi)))], nzi[int(rng.integers(0, len(nzi)))]
            if tuple(a_) != tuple(b_):
                x, y = T[tuple(a_)], T[tuple(b_)]
                cfac = 0.5
                y2 = np.sqrt(max((abs(x) ** 2) * (1 - cfac ** 2) + abs(y) ** 2, 0.0)) / abs(y)
                T[tuple(a_)] = x * cfac
                T[tuple(b_)] = y * y2
                v_e = refs.dense_state(psi.A)
                n_e = float(np.linalg.norm(v_e))
                if n_e > 1e-6:
                    E_e = float(np.real(np.vdot(v_e, mH @ v_e))) / n_e ** 2
                    r4 = fn(H, psi, dt, 1, numiter_lanczos=numiter)
                    v4 = refs.dense_state(psi.A)
                    ctx.close('edited-state.return-is-its-norm', abs(float(r4) - n_e), TOL * max(1.0, n_e), 'call on an edited state must return the norm of the edited state', detail)
                    ctx.close('edited-state.norm-one', abs(float(np.linalg.norm(v4)) - 1), TOL, 'state not normalised after evolving an edited state', detail)
                    ctx.close('edited-state.energy', abs(float(np.real(np.vdot(v4, mH @ v4))) - E_e), TOL * nH, 'energy of the edited (normalised) state not conserved', detail)


def long_run_case(ctx, idx, rng):
    """97..300 time steps in a single call (anything that happens only every N-th step), every sub-step traced as in the short runs."""
    tdvp_case(ctx, idx, rng, long=True)


def large_case(ctx, idx, rng):
    """Conservation beyond the dense reach (L 8..14): norm and energy through transfer-matrix contractions."""
    from .. import large
    two = bool(idx % 2)
    name, d, L, H = large.pick_large(rng)
    psi = large.big_state(rng, H.qd, L, int(rng.choice([3, 6])), kind=str(rng.choice(['complex', 'real'])))
    fn = ptn.integrate_local_twosite if two else ptn.integrate_local_singlesite
    numiter = int(rng.choice([2, 5, 25]))
    dt = 1j * float(rng.choice([-1, 1])) * float(rng.uniform(0.01, 0.2))
    nsteps = int(rng.integers(1, 3))
    n0 = large.norm_of(psi.A)
    E0 = refs.mpo_element(psi.A, H.A, psi.A).real / n0 ** 2
    Hs = max(large.tensor_scale(H.A), 1.0)
    D_in = list(psi.bond_dims)
    integ = 'twosite' if two else 'singlesite'
    ctx.case(('large', integ, name, f'L{L}', f'numiter{numiter}'), sample={'integrator': integ, 'model': name, 'L': L, 'bond_dims': D_in, 'dt': dt})
    detail = {'integrator': integ, 'model': name, 'L': L, 'bond_dims': D_in, 'dt': dt, 'numiter': numiter, 'steps': nsteps}
    dH = monitor.digest(H)
    ret = fn(H, psi, dt, nsteps, numiter_lanczos=numiter)
    ctx.ok('large.hamiltonian-untouched', monitor.digest(H) == dH, 'Hamiltonian modified', detail)
    inv = refs.mps_invariant(psi)
    if not ctx.ok('large.block-sparse-after', inv is None, str(inv), detail):
        return
    nH = float(np.sum([np.linalg.norm(w) for w in H.A]))
    ctx.close('large.return==norm-of-input', abs(float(ret) - n0), 1e-9 * n0, 'return value', detail)
    ctx.close('large.norm-conserved', abs(large.norm_of(psi.A) - 1), 1e-9, 'norm not conserved', detail)
    ctx.close('large.energy-conserved', abs(refs.mpo_element(psi.A, H.A, psi.A).real - E0), 1e-9 * max(1.0, abs(E0), nH), 'energy not conserved', detail)
    if not two:
        ctx.ok('large.singlesite-bonds-do-not-grow', all(x <= y for x, y in zip(psi.bond_dims, D_in)), f'{D_in} -> {psi.bond_dims}', detail)


def huge_bond_case(ctx, idx, rng):
    """Chains long enough to carry really large bond dimensions (Fermi-Hubbard d = 4, L = 10, saturated bonds up to ~290 single-site; L = 8, ~150 two-site): local work
    arrays beyond 2**19 entries (anything that switches to a blocked contraction above a size threshold). Norm, energy and charges through transfer matrices."""
    from .. import large
    two = bool(idx % 4 == 3)
    name, L, Dmax = 'fermi', 10, (200 if idx % 4 == 0 else int(rng.integers(150, 171)))          # the first case of every tier uses the largest cap (local tensors beyond 2**19 entries)
    if two:
        L, Dmax = 8, int(rng.integers(76, 90))
    H = gen.model(name, L, gen.generic_params(rng))
    # saturated bonds (every reachable sector with full multiplicity up to the cap): they survive the right-orthonormalisation inside the integrator,
    # so the central site tensors really have d * D_left * D_right * D_mpo > 2**19 entries
    psi = gen.rand_mps(rng, H.qd, L, 'max', Dmax=Dmax, kind='complex')
    psi.orthonormalize('right')
    fn = ptn.integrate_local_twosite if two else ptn.integrate_local_singlesite
    dt = 1j * float(rng.uniform(0.02, 0.1))
    n0 = large.norm_of(psi.A)
    E0 = refs.mpo_element(psi.A, H.A, psi.A).real / n0 ** 2
    D_in = list(psi.bond_dims)
    ends = (psi.qD[0].copy(), psi.qD[-1].copy())
    integ = 'twosite' if two else 'singlesite'
    ctx.case(('huge-bonds', integ, name, f'L{L}', f'Dmax{max(D_in) // 50 * 50}+'), sample={'integrator': integ, 'model': name, 'L': L, 'bond_dims': D_in, 'mpo_bond_dims': H.bond_dims, 'dt': dt})
    detail = {'integrator': integ, 'model': name, 'L': L, 'bond_dims': D_in, 'mpo_bond_dims': H.bond_dims, 'dt': dt}
    ret = fn(H, psi, dt, 1, numiter_lanczos=3)
    inv = refs.mps_invariant(psi)
    if not ctx.ok('huge.block-sparse-after', inv is None, str(inv), detail):
        return
    nH = float(np.sum([np.linalg.norm(w) for w in H.A]))
    ctx.close('huge.return==norm-of-input', abs(float(ret) - n0), 1e-9 * n0, 'return value', detail)
    ctx.close('huge.norm-conserved', abs(large.norm_of(psi.A) - 1), 1e-9, 'norm not conserved', detail)
    ctx.close('huge.energy-conserved', abs(refs.mpo_element(psi.A, H.A, psi.A).real - E0), 1e-9 * max(1.0, abs(E0), nH), 'energy not conserved', detail)
    ctx.ok('huge.total-charge-kept', np.array_equal(psi.qD[0], ends[0]) and np.array_equal(psi.qD[-1], ends[1]), 'boundary quantum numbers changed', detail)


def mutate_mpo_in_place(rng, H):
    """Changes the Hamiltonian held by the SAME MPO object: in-place rescaling of a tensor, in-place edit of a Hermitian on-site block,
    rebinding of a tensor, or a gauge change by the public orthonormalize(). Returns a label; H stays Hermitian."""
    how = str(rng.choice(['scale-inplace', 'scale-rebind', 'orthonormalize', 'scale-all-inplace']))
    if how == 'orthonormalize' and np.linalg.norm(refs.dense_operator(H.A)) < 1e-9:
        how = 'scale-inplace'       # orthonormalising the zero operator relabels its boundary bonds (dummy-bond branch): not a Hamiltonian any more
    i = int(rng.integers(0, H.nsites))
    c = float(rng.choice([-1.0, 0.5, 2.0, -1.7]))
    if how == 'scale-inplace':
        if np.iscomplexobj(H.A[i]) or True:
            H.A[i] *= c
    elif how == 'scale-rebind':
        H.A[i] = c * H.A[i]
    elif how == 'scale-all-inplace':
        for W in H.A:
            W *= 1.3
    else:
        H.orthonormalize(str(rng.choice(['left', 'right'])))
    return how


def quench_case(ctx, idx, rng):
    """History: evolve, change the Hamiltonian held by the same MPO object, evolve again; conservation must hold with respect to the
    Hamiltonian that is passed in at that moment (a cache keyed by object identity would use the old one)."""
    two = bool(idx % 2)
    prob = pick_problem(rng, Lmin=2 if two else 1, Lmax=6, maxdim=256)
    if prob is None:
        ctx.case(('no-nonzero-state',), nontrivial=False)
        return
    label, L, H, psi, prof = prob
    fn = ptn.integrate_local_twosite if two else ptn.integrate_local_singlesite
    numiter = int(rng.choice([2, 5, 25]))
    dt = 1j * float(rng.uniform(0.02, 0.3))
    hist = []
    integ = 'twosite' if two else 'singlesite'
    for rnd in range(int(rng.integers(2, 4))):
        if rnd > 0:
            hist.append(mutate_mpo_in_place(rng, H))
        mH = refs.dense_operator(H.A)
        nH = max(np.linalg.norm(mH, 2), 1.0)
        v0 = refs.dense_state(psi.A)
        n0 = float(np.linalg.norm(v0))
        E0 = float(np.real(np.vdot(v0, mH @ v0))) / n0 ** 2
        ctx.cur_info = {'integrator': integ, 'model': label, 'L': L, 'history': list(hist), 'round': rnd, 'dt': dt, 'numiter': numiter, 'qD': psi.qD}
        detail = ctx.cur_info
        ret = fn(H, psi, dt, int(rng.integers(1, 3)), numiter_lanczos=numiter)
        if refs.mps_invariant(psi) is not None:
            ctx.ok('quench.block-sparse-after', False, str(refs.mps_invariant(psi)), detail)
            return
        v1 = refs.dense_state(psi.A)
        ctx.close('quench.return==norm-of-input', abs(float(ret) - n0), TOL * n0, 'return value', detail)
        ctx.close('quench.norm-conserved', abs(np.linalg.norm(v1) - 1), TOL, f'norm not conserved in round {rnd} after {hist}', detail)
        ctx.close('quench.energy-conserved-wrt-current-H', abs(float(np.real(np.vdot(v1, mH @ v1))) - E0), TOL * nH,
                  f'energy with respect to the Hamiltonian passed in drifted in round {rnd} after {hist}', detail)
    ctx.case(('quench', integ, label, f'L{L}', f'numiter{numiter}') + tuple(hist), sample={'integrator': integ, 'model': label, 'L': L, 'history': hist})


SPEC = {
    'id': 'C08',
    'rule': ('histories: evolve, change the Hamiltonian held by the same MPO object (in-place rescaling, rebinding, gauge change by orthonormalize), evolve again -- conservation with respect to the Hamiltonian passed in at that moment; single-site and two-site (default tol_split = 0) TDVP with purely imaginary dt (|dt| <= 0.5, either sign), 1..4 steps, numiter in {1,2,3,5,25}, '
             'on built-in models (Ising, XXZ, spin-1, Bose d=3, Fermi-Hubbard with encoded pairs) and harness-built random Hermitian MPOs with and without '
             'charges, L 1..7 (two-site >= 2), bond profiles random / maximal / over-complete / all-one, real and complex states, input norms 0.3..7 with '
             'phases. Norm and energy are evaluated on the dense state after the call AND at the entry of every internal local Hamiltonian step (trace '
             'points); every local site/bond step must preserve the norm of its tensor; return value and its scaling with the input norm, start from the normalised input (first trace point), repeated call, bond dims, '
             'Hamiltonian digest + write trap; every fifth case hands over the operator in a shifted / zeroed but equally valid labelling. distinct = (integrator, model, L, profile, numiter, steps).'),
    'deciding': ['quench.energy-conserved-wrt-current-H', 'norm-conserved', 'energy-conserved', 'trace.norm-at-every-substep', 'trace.energy-at-every-substep', 'return==norm-of-input',
                 'hamiltonian-untouched', 'singlesite.bond-dims-never-grow', 'trace.evolution-starts-from-normalised-input', 'trace.points-observed'],
    'workloads': [
        Workload('tdvp', tdvp_case, quick=520, thorough=48000),
        Workload('long-runs', long_run_case, quick=32, thorough=2400),
        Workload('large', large_case, quick=60, thorough=4000),
        Workload('huge-bonds', huge_bond_case, quick=1, thorough=32),
        Workload('quench', quench_case, quick=200, thorough=16000),
    ],
    'shards': {'quick': 4, 'thorough': 16},
    'assumptions': ['dense Hamiltonian from the independent contraction; tolerance 1e-10 (norm) and 1e-10*||H|| (energy)'],
}
