"""C05 — operator chains compile to an equivalent operator graph and MPO."""
import copy

import numpy as np

from .. import gen, monitor, refs
from ..core import Workload
from ..env import ptn

COEFFS = [-1.0, 0.5, 1.0, 2.0]


def all_chains(L):
    """Every chain over the alphabet {0 (identity), 1, 2}: all starts and lengths, 4 coefficients."""
    out = []
    for ln in range(1, L + 1):
        for ist in range(0, L - ln + 1):
            for code in range(3 ** ln):
                oids = [(code // 3 ** k) % 3 for k in range(ln)]
                for c in COEFFS:
                    out.append((oids, ist, c))
    return out


_CH = {L: all_chains(L) for L in (1, 2, 3, 4)}


def check_chain_list(ctx, chains, L, oid_id, exact=True, fast=False):
    """Build the graph from `chains` and compare with the padded sum. Returns the graph or None."""
    ref = refs.chains_poly(chains, L, oid_id)
    snap = [(list(c.oids), list(c.qnums), c.coeff, c.istart) for c in chains]
    detail = {'L': L, 'oid_identity': oid_id, 'chains': snap}
    g = ptn.OpGraph.from_opchains(chains, L, oid_id)       # an exception here is reported as 'no-exception' by the driver
    if fast:
        try:
            poly, depth = refs.graph_poly(g)
            if poly == ref and depth == L and refs.graph_structure_ok(g) is None and g.is_consistent() and g.length == L \
                    and snap == [(list(c.oids), list(c.qnums), c.coeff, c.istart) for c in chains]:
                return g
        except Exception:
            pass
    ctx.ok('chains.inputs-unchanged', snap == [(list(c.oids), list(c.qnums), c.coeff, c.istart) for c in chains], 'from_opchains modified a chain', detail)
    st = refs.graph_structure_ok(g)
    ctx.ok('graph.structure', st is None, str(st), detail)
    ctx.ok('graph.is_consistent', bool(g.is_consistent()), 'is_consistent() is False', detail)
    if st is not None:
        return None
    ctx.ok('graph.length', g.length == L, f'graph length {g.length} != {L}', detail)
    poly, depth = refs.graph_poly(g)
    ctx.ok('graph.depth', depth == L, f'terminal reached after {depth} layers, expected {L}', detail)
    if exact:
        ctx.ok('graph.polynomial==sum-of-padded-chains', poly == ref, f'graph denotes {dict(list(poly.items())[:6])}..., chains sum to {dict(list(ref.items())[:6])}...', detail)
    else:
        # term by term, relative to the sum of the magnitudes contributing to that word (a dropped tiny term must be visible next to large ones)
        mag = {}
        for ch in chains:
            w = tuple([int(oid_id)] * ch.istart + [int(o) for o in ch.oids] + [int(oid_id)] * (L - ch.istart - len(ch.oids)))
            mag[w] = mag.get(w, 0.0) + abs(ch.coeff)
        worst = 0.0
        for w in set(poly) | set(ref):
            worst = max(worst, abs(poly.get(w, 0) - ref.get(w, 0)) / mag[w] if mag.get(w, 0) > 0 else float('inf'))
        ctx.close('graph.polynomial~sum-of-padded-chains', worst, 1e-12, 'graph polynomial deviates from the chain sum (relative per term)', detail)
    return g


ALPHABETS = [(0, 1, 2), (0, -1, -2), (-2, -1, 5), (7, -2, -1)]       # identity id first; hash(-1) == hash(-2) in CPython


def _mk(spec, alph=(0, 1, 2)):
    oids, ist, c = spec
    return ptn.OpChain([alph[o] for o in oids], [0] * (len(oids) + 1), c, ist)


def make_exhaustive(L, k):
    """All multisets of k chains (plus fewer) at length L; one workload index = one fixed prefix."""
    CH = _CH[L]
    N = len(CH)

    def fn(ctx, idx, rng):
        mons = ('graph.structure', 'graph.is_consistent', 'graph.length', 'graph.depth', 'graph.polynomial==sum-of-padded-chains', 'chains.inputs-unchanged')
        n = 0
        if k == 1:
            lists = [[idx]]
        elif k == 2:
            lists = [[idx, j] for j in range(idx, N)]
        else:
            # idx enumerates pairs (i <= j); third index runs over l >= j
            i = 0
            r = idx
            while r >= N - i:
                r -= N - i
                i += 1
            j = i + r
            lists = [[i, j, l] for l in range(j, N)]
        good = 0
        alph = ALPHABETS[idx % len(ALPHABETS)] if k < 3 or L < 3 else ALPHABETS[(idx // 7) % len(ALPHABETS)]
        for lst in lists:
            chains = [_mk(CH[t], alph) for t in lst]
            ctx.cur_info = {'L': L, 'alphabet': alph, 'chains': [CH[t] for t in lst]}
            before = len(ctx.violations)
            g = check_chain_list(ctx, chains, L, alph[0], exact=True, fast=True)
            if len(ctx.violations) == before and g is not None:
                good += 1
            n += 1
        for mname in mons:
            ctx.count_n(mname, good)
        ctx.case_bulk((f'exhaustive-L{L}', f'{k}-chains', f'alphabet{alph}'), n, nontrivial=True)
        if idx % 97 == 0:
            ctx.case((f'exhaustive-L{L}', f'{k}-chains', 'sample'), nontrivial=False, sample={'L': L, 'chains': [CH[t] for t in lists[-1]]})
    if k == 1:
        fn.count = N
    elif k == 2:
        fn.count = N
    else:
        fn.count = N * (N + 1) // 2
    fn.lists = {1: N, 2: N * (N + 1) // 2, 3: N * (N + 1) * (N + 2) // 6}[k]
    return fn


EX = {(L, k): make_exhaustive(L, k) for (L, k) in [(1, 1), (1, 2), (2, 1), (2, 2), (3, 1), (3, 2), (3, 3), (4, 2), (1, 3), (2, 3)]}


def random_case(ctx, idx, rng):
    L = int(rng.choice([1, 1, 2, 3, 4, 5, 6, 7, 8, 12, 20, 30]))
    kind = str(rng.choice(['few', 'many', 'single', 'cancelling', 'gaussian', 'charged', 'identity-heavy', 'near-equal']))
    nops = int(rng.integers(1, 4))
    n = {'few': int(rng.integers(1, 6)), 'many': int(rng.integers(10, 41)), 'single': 1}.get(kind, int(rng.integers(2, 12)))
    exact = kind not in ('gaussian', 'near-equal')
    cbase = float(rng.uniform(0.3, 2.0))
    chains = []
    pool = gen.OID_POOLS[int(rng.integers(0, len(gen.OID_POOLS)))]
    oid_id0 = 0 if pool is None else pool[0]
    for _ in range(n):
        c = gen.rand_chain(rng, L, nops=nops, charges=(kind == 'charged'), allow_zero=(kind != 'single'), pool=pool)
        if kind == 'gaussian':
            c.coeff = float(rng.normal()) * float(rng.choice([1, 1e-6, 1e6, 1e-9, 1e-12, 1e-30]))
        if kind == 'single':
            c.coeff = float(rng.choice([2.5, -0.75, 1e-3, 7, 1]))
        if kind == 'near-equal':
            # coefficients agreeing to 6..12 digits without being equal (a tolerance-based comparison would merge them)
            c.coeff = float(rng.choice([-1, 1])) * cbase * float(rng.choice([1, 1, 2, 0.5])) * (1 + float(rng.choice([0, 1e-12, -1e-9, 1e-7, 1e-6, -3e-6, 3e-6, 8e-6])))
        if kind == 'identity-heavy':
            c.oids = [oid_id0 if rng.random() < 0.6 else o for o in c.oids]
        chains.append(c)
    if kind in ('cancelling', 'few', 'many') and rng.random() < 0.6:
        c = copy.deepcopy(chains[0])
        if kind == 'cancelling':
            c.coeff = -c.coeff if rng.random() < 0.7 else -0.5 * c.coeff
        chains.append(c)
    if rng.random() < 0.3:
        chains.append(copy.deepcopy(chains[int(rng.integers(0, len(chains)))]))      # duplicate
    perm = rng.permutation(len(chains))
    chains = [chains[i] for i in perm]
    if not any(c.coeff != 0 for c in chains):
        chains[0].coeff = 1.0
    # the documented Sequence / number forms: ids and quantum numbers as tuples or integer arrays, the chain container as a tuple, coefficients as numpy scalars / ints
    form = idx % 4
    if form == 1:
        chains = tuple(ptn.OpChain(tuple(c.oids), tuple(c.qnums), c.coeff, c.istart) for c in chains)
    elif form == 2:
        chains = [ptn.OpChain(np.array(c.oids, dtype=np.int64), np.array(c.qnums, dtype=np.int64), np.float64(c.coeff), int(c.istart)) for c in chains]
    elif form == 3:
        chains = [ptn.OpChain(c.oids, c.qnums, int(c.coeff) if float(c.coeff).is_integer() else c.coeff, np.int64(c.istart)) for c in chains]
    zero_sum = not refs.chains_poly(chains, L, oid_id0)
    ctx.case(('random', kind, f'L{min(L, 4) if L <= 8 else "long"}', f'ops{nops}', 'sum-zero' if zero_sum else 'sum-nonzero', 'ids-default' if pool is None else f'ids{pool}'), nontrivial=True,
             sample={'L': L, 'chains': [(c.oids, c.qnums, c.coeff, c.istart) for c in chains[:8]]},
             info={'L': L, 'chains': [(c.oids, c.qnums, c.coeff, c.istart) for c in chains]})
    g = check_chain_list(ctx, chains, L, oid_id0, exact=exact)
    if g is None:
        return
    if idx % 4 == 0:
        # history: the SAME chain objects with a coefficient / an operator changed in place, compiled again
        c0 = chains[int(rng.integers(0, len(chains)))]
        c0.coeff = c0.coeff * 2 + 0.5
        if len(c0.oids) > 0 and rng.random() < 0.5:
            c0.oids[0] = oid_id0 if c0.oids[0] != oid_id0 else (pool[1] if pool else 1)
        check_chain_list(ctx, chains, L, oid_id0, exact=exact)
    # padded(): POST condition
    for c in chains[:3]:
        p = c.padded(L, oid_id0)
        ok = (p.istart == 0 and len(p.oids) == L and p.coeff == c.coeff and p.oids[c.istart:c.istart + len(c.oids)] == list(c.oids)
              and all(o == oid_id0 for o in p.oids[:c.istart] + p.oids[c.istart + len(c.oids):]) and len(p.qnums) == L + 1
              and p.qnums[c.istart:c.istart + len(c.qnums)] == list(c.qnums))
        ctx.ok('padded.post', ok, f'padded({L}) of {(c.oids, c.qnums, c.coeff, c.istart)} gave {(p.oids, p.qnums, p.coeff, p.istart)}', None)
    # a non-zero identity id
    if rng.random() < 0.3:
        oid_id = 777
        ch2 = [ptn.OpChain([777 if o == oid_id0 else o for o in c.oids], c.qnums, c.coeff, c.istart) for c in chains]
        check_chain_list(ctx, ch2, L, oid_id, exact=exact)


def matching_stress_case(ctx, idx, rng):
    """Chain lists whose bipartite half-chain problem at one cut is adversarial for augmenting-path matchers (path blocks of pairwise different
    lengths in the order that makes the greedy phase leave one long augmenting path per block; gen.staircase_bipartite), embedded at a random cut of
    a chain of length 2..5 with optional identity padding. The compiled graph must denote the same sum; construction must not raise."""
    nu, nv, edges, nsizes, _ = gen.staircase_bipartite(rng, noise=False)
    L = int(rng.integers(2, 6))
    cut = int(rng.integers(1, L))            # the edge (u, v) becomes operator a_u on site cut-1 and b_v on site cut
    wide = rng.random() < 0.5                # wide: each half is a two-site word (same vertex structure, longer half-chains)
    chains = []
    for (u, v) in edges:
        left = [1 + u]
        right = [1001 + v]
        if wide and cut >= 2:
            left = [1 + (u % 3)] + left
        if wide and cut + 2 <= L:
            right = right + [1001 + (v % 2)]
        ist = cut - len(left)
        chains.append(ptn.OpChain(left + right, [0] * (len(left) + len(right) + 1), float(rng.choice(gen.DYADIC)), ist))
    if rng.random() < 0.3:
        chains.append(gen.rand_chain(rng, L, nops=2, charges=False))
    ctx.case(('matching-stress', f'L{L}', f'cut{cut}', f'sizes{min(nsizes, 6)}', 'wide' if wide else 'narrow'),
             sample={'L': L, 'cut': cut, 'distinct_block_sizes': nsizes, 'chains': [(c.oids, c.coeff, c.istart) for c in chains[:10]]},
             info={'L': L, 'chains': [(c.oids, c.qnums, c.coeff, c.istart) for c in chains]})
    check_chain_list(ctx, chains, L, 0, exact=True)


def mpo_case(ctx, idx, rng):
    """from_opgraph on graphs from chain lists and on random consistent graphs: dense meaning, bond charges, node map."""
    d = int(rng.choice([2, 2, 3]))
    L = int(rng.integers(1, 6))
    while d ** L > 256:
        L -= 1
    src = str(rng.choice(['chains', 'charged-chains', 'random-graph']))
    cplx = rng.random() < 0.5
    if src == 'charged-chains' and L >= 1:
        from .c02 import random_spin_chains, SPIN_OPMAP
        d = 2
        chains = random_spin_chains(rng, L) if L >= 1 else []
        g = ptn.OpGraph.from_opchains(chains, L, 0)
        if rng.random() < 0.6:
            # a consistent graph whose START node carries a non-zero quantum number: all node labels shifted by a constant (only differences enter the
            # sparsity rule); the MPO must take the labels as they are
            shift = int(rng.choice([1, -2, 5, -1]))
            for nd in g.nodes.values():
                nd.qnum = nd.qnum + shift
            src = 'charged-chains-shifted-labels'
        opmap = SPIN_OPMAP
        qd = np.array([1, -1])
        want = sum(c.coeff * refs.kron_all([opmap[o] for o in ([0] * c.istart + list(c.oids) + [0] * (L - c.istart - len(c.oids)))]) for c in chains)
    else:
        opmap = {k: (rng.normal(size=(d, d)) + (1j * rng.normal(size=(d, d)) if cplx else 0)) for k in range(1, 4)}
        opmap[0] = np.identity(d)
        qd = np.zeros(d, dtype=int)
        if src == 'chains':
            chains = [gen.rand_chain(rng, L, nops=3, charges=False) for _ in range(int(rng.integers(1, 10)))]
            g = ptn.OpGraph.from_opchains(chains, L, 0)
        else:
            g = gen.rand_graph(rng, L, idbase=int(rng.integers(0, 5)), maxw=3, nops=4, charges=False)
        poly, _ = refs.graph_poly(g)
        want = refs.poly_dense(poly, L, opmap, d)
    with_map = bool(idx % 2)
    ctx.case(('from_opgraph', src, f'L{L}', f'd{d}', 'nid_map' if with_map else 'no-map'), sample={'L': L, 'd': d, 'src': src, 'nodes': len(g.nodes), 'edges': len(g.edges)})
    detail = {'L': L, 'd': d, 'src': src, 'nodes': {k: (n.eids, n.qnum) for k, n in g.nodes.items()}, 'edges': {k: (e.nids, e.opics) for k, e in g.edges.items()},
              'terminal': g.nid_terminal}
    dg = monitor.digest(g)
    dm = monitor.digest(opmap)
    op = ptn.MPO.from_opgraph(qd, g, opmap, compute_nid_map=(with_map, np.bool_(with_map), int(with_map))[(idx // 2) % 3])
    ctx.ok('from_opgraph.graph-untouched', monitor.digest(g) == dg and monitor.digest(opmap) == dm, 'from_opgraph modified the graph or operator map', detail)
    inv = refs.mpo_invariant(op)
    if not ctx.ok('from_opgraph.block-sparse', inv is None, str(inv), detail):
        return
    M = refs.dense_operator(op.A)
    ctx.close('from_opgraph.dense==polynomial', np.linalg.norm(M - want), 1e-11 * max(np.linalg.norm(want), 1.0), 'MPO does not denote the graph operator', detail)
    layers = refs.graph_layers(g)
    ctx.ok('from_opgraph.nsites', op.nsites == L and len(layers) == L + 1, f'nsites {op.nsites}, L {L}', detail)
    if len(layers) == L + 1:
        ok = all(sorted(int(x) for x in op.qD[l]) == sorted(int(g.nodes[n].qnum) for n in layers[l]) for l in range(L + 1))
        ctx.ok('from_opgraph.bond-charges-from-nodes', ok, 'qD[l] is not the multiset of node charges of layer l', detail)
    if with_map:
        nm = getattr(op, 'nid_map', None)
        if not ctx.ok('from_opgraph.nid_map-present', isinstance(nm, dict), 'nid_map missing', detail):
            return
        ok = set(nm.keys()) == set(g.nodes.keys())
        ok = ok and len(set(nm.values())) == len(nm)
        ok = ok and all(0 <= l <= L and 0 <= j < len(op.qD[l]) for (l, j) in nm.values())
        ctx.ok('from_opgraph.nid_map-bijection', ok, 'nid_map is not a bijection node <-> (bond, index)', detail)
        if ok:
            ok2 = all(int(op.qD[l][j]) == int(g.nodes[n].qnum) for n, (l, j) in nm.items())
            ctx.ok('from_opgraph.nid_map-charges', ok2, 'qD at the mapped position differs from the node charge', detail)
            # every tensor slice is the sum of the edges between the two mapped nodes
            worst = 0.0
            for l in range(L):
                T = np.zeros_like(op.A[l])
                for e in g.edges.values():
                    (l0, i), (l1, j) = nm[e.nids[0]], nm[e.nids[1]]
                    if l0 == l:
                        if l1 != l + 1:
                            worst = np.inf
                            continue
                        T[:, :, i, j] += sum(c * np.asarray(opmap[o]) for o, c in e.opics)
                worst = max(worst, float(np.linalg.norm(T - op.A[l])))
            ctx.close('from_opgraph.slices-are-edge-sums', worst, 1e-12 * max(1.0, np.linalg.norm(want)), 'tensor slices are not the edge sums at the mapped indices', detail)


def _n(key):
    return EX[key].count


SPEC = {
    'id': 'C05',
    'rule': ('exhaustive: every multiset of <=2 chains over the alphabet {identity,a,b} with every start and length and coefficients {-1,1/2,1,2} at '
             'L<=3 (quick: 25 662 lists), thorough adds every multiset of 3 chains at L<=3 (1.7e6 lists) and of 2 chains at L=4 (242 556); random lists: '
             '1..40 chains, L 1..8, duplicates, cancelling / partially cancelling pairs, identities inside chains, interleaved charges, single chain with '
             'arbitrary coefficient, Gaussian coefficients (1e-12), non-zero identity id; from_opgraph on chain graphs, charged spin chains and random '
             'consistent graphs with random operator maps, with and without nid_map. The polynomial comparison is exact (dyadic coefficients). '
             'distinct = (family, kind, L, #ops, zero/non-zero sum).'),
    'deciding': ['graph.polynomial==sum-of-padded-chains', 'graph.is_consistent', 'graph.structure', 'graph.length', 'from_opgraph.dense==polynomial',
                 'from_opgraph.bond-charges-from-nodes', 'from_opgraph.nid_map-bijection', 'from_opgraph.slices-are-edge-sums', 'padded.post'],
    'workloads': [
        Workload('ex-L1-1', EX[(1, 1)], quick=_n((1, 1)), thorough=_n((1, 1)), exhaustive={'space': 'all single chains, L=1'}),
        Workload('ex-L1-2', EX[(1, 2)], quick=_n((1, 2)), thorough=_n((1, 2)), exhaustive={'space': 'all multisets of 2 chains, L=1'}),
        Workload('ex-L2-1', EX[(2, 1)], quick=_n((2, 1)), thorough=_n((2, 1)), exhaustive={'space': 'all single chains, L=2'}),
        Workload('ex-L2-2', EX[(2, 2)], quick=_n((2, 2)), thorough=_n((2, 2)), exhaustive={'space': 'all multisets of 2 chains, L=2'}),
        Workload('ex-L3-1', EX[(3, 1)], quick=_n((3, 1)), thorough=_n((3, 1)), exhaustive={'space': 'all single chains, L=3'}),
        Workload('ex-L3-2', EX[(3, 2)], quick=_n((3, 2)), thorough=_n((3, 2)), exhaustive={'space': 'all multisets of 2 chains, L=3 (23 436 lists)'}),
        Workload('ex-L1-3', EX[(1, 3)], quick=0, thorough=_n((1, 3)), exhaustive={'space': 'all multisets of 3 chains, L=1'}),
        Workload('ex-L2-3', EX[(2, 3)], quick=0, thorough=_n((2, 3)), exhaustive={'space': 'all multisets of 3 chains, L=2'}),
        Workload('ex-L3-3', EX[(3, 3)], quick=0, thorough=_n((3, 3)), exhaustive={'space': 'all multisets of 3 chains, L=3 (1.72e6 lists)'}),
        Workload('ex-L4-2', EX[(4, 2)], quick=0, thorough=_n((4, 2)), exhaustive={'space': 'all multisets of 2 chains, L=4 (242 556 lists)'}),
        Workload('random', random_case, quick=2500, thorough=320000),
        Workload('matching-stress', matching_stress_case, quick=300, thorough=40000),
        Workload('mpo', mpo_case, quick=500, thorough=75000),
    ],
    'shards': {'quick': 4, 'thorough': 16},
    'watchdog_s': {'quick': 900, 'thorough': 7200},
    'assumptions': ['free-algebra polynomial (pvm/refs.py graph_poly) is the meaning of a graph: equality of polynomials <=> equality of operators for '
                    'every operator map with linearly independent local operators'],
}
