"""C19 — operands are never modified and results share no state with them (GUARD monitors)."""
import collections
import copy

import numpy as np

from .. import gen, monitor, refs
from ..core import Workload
from ..env import ptn
from .c01 import _qd

OBJ = (ptn.MPS, ptn.MPO, ptn.OpGraph)


def mutate(obj, rng):
    """Aggressive in-place changes of a returned object; returns a label."""
    if isinstance(obj, ptn.OpGraph):
        how = int(rng.integers(0, 3))
        if how == 0:
            for e in obj.edges.values():
                e.opics.append((99, 1.0))
                e.nids[0] = -12345
            for n in obj.nodes.values():
                n.eids[0].clear()
                n.eids[1].append(-777)
                n.qnum = 55
            obj.nid_terminal[0] = -1
            return 'graph-scramble'
        if how == 1:
            obj.flip()
            return 'graph-flip'
        k = list(obj.nodes.keys())[0]
        obj.rename_node_id(k, max(obj.nodes.keys()) + 100)
        return 'graph-rename'
    how = str(rng.choice(['fill-nan', 'zero_qnumbers', 'orthonormalize', 'compress', 'scale-inplace']))
    is_mps = isinstance(obj, ptn.MPS)
    if how == 'compress' and not is_mps:
        how = 'orthonormalize'
    if how in ('orthonormalize', 'compress') and (obj.nsites == 0 or len(obj.qD[0]) != 1 or len(obj.qD[-1]) != 1):
        how = 'fill-nan'
    if how == 'compress' and np.linalg.norm(refs.dense_state(obj.A)) == 0:
        how = 'fill-nan'
    if how == 'fill-nan':
        arrs, conts = monitor.reach(obj)
        for a in arrs:
            if a.flags.writeable and a.size and a.dtype.kind in 'fc':
                a.fill(np.nan)
            elif a.flags.writeable and a.size and a.dtype.kind in 'iu':
                a.fill(-99)
        if hasattr(obj, 'A') and isinstance(obj.A, list) and obj.A:
            obj.A[0] = None
        if hasattr(obj, 'qD') and isinstance(obj.qD, list):
            obj.qD.append('junk')
    elif how == 'zero_qnumbers':
        obj.zero_qnumbers()
        obj.qd += 3
        for q in obj.qD:
            q -= 7
    elif how == 'orthonormalize':
        obj.orthonormalize(str(rng.choice(['left', 'right'])))
    elif how == 'compress':
        obj.compress(0.05, str(rng.choice(['left', 'right'])))
    else:
        for a in obj.A:
            a *= 2.5
    return how


_GUARD_CALLS = [0]


def guard(ctx, name, f, operands, rng, protect=True):
    """Runs f() with digests / write traps on `operands`, alias scan and mutate-result probe on a returned object."""
    detail = {'operation': name}
    d0 = [monitor.digest(o) for o in operands]
    _GUARD_CALLS[0] += 1
    if _GUARD_CALLS[0] % 3 == 0:
        # every third call WITHOUT write traps: a read-only operand can steer the code away from an in-place branch that a writeable array owning
        # its memory would take; the digests before / after decide alone there
        protect = False
    try:
        if protect:
            with monitor.write_protected(*operands):
                r = f()
        else:
            r = f()
    except ValueError as e:
        if 'read-only' in str(e):
            import traceback
            ctx.fail(f'{name}.write-trap', f'in-place write to an operand: {e}', {'operation': name, 'traceback': traceback.format_exc(limit=8)})
            return None
        raise
    ctx.count(f'{name}.write-trap')
    d1 = [monitor.digest(o) for o in operands]
    changed = [k for k in range(len(operands)) if d0[k] != d1[k]]
    ctx.ok(f'{name}.operands-bit-identical', not changed, f'operand(s) {changed} modified by {name}', detail)
    objs = [r] if isinstance(r, OBJ) else [x for x in r if isinstance(x, OBJ)] if isinstance(r, (tuple, list)) else []
    for o in objs:
        al = monitor.aliases(o, operands)
        ctx.ok(f'{name}.result-shares-no-state', not al, f'result of {name} shares state with an operand: {al[:4]}', detail)
        how = mutate(o, rng)
        d2 = [monitor.digest(x) for x in operands]
        changed = [k for k in range(len(operands)) if d0[k] != d2[k]]
        ctx.ok(f'{name}.operands-survive-result-mutation', not changed, f'mutating the result ({how}) altered operand(s) {changed}', dict(detail, mutation=how))
    return r


def _state(rng, qd, L, qL=None, q0=0):
    for _ in range(30):
        psi = gen.rand_mps(rng, qd, L, str(rng.choice(['random', 'max'])), Dmax=3, q0=q0, qL=qL)
        if np.linalg.norm(refs.dense_state(psi.A)) > 1e-8:
            return psi
    return gen.rand_mps(rng, qd, L, 'max', Dmax=3, q0=q0, qL=qL)


def arithmetic_case(ctx, idx, rng):
    L = int(rng.choice([1, 2, 3, 4]))
    d = int(rng.choice([2, 3]))
    qd = _qd(rng, d, str(rng.choice(['zero', 'unsorted', 'pairs', 'huge'])))
    a = _state(rng, qd, L)
    b = _state(rng, qd, L, qL=int(a.qD[-1][0]))
    A = gen.rand_mpo(rng, qd, L, Dmax=2)
    B = gen.rand_mpo(rng, qd, L, Dmax=2, boundary=(int(A.qD[0][0]), int(A.qD[-1][0])))
    # a LOCAL operator: identity tensors with 1x1 bonds on every site but one (the form single-site observables and MPO.identity have)
    Iloc = ptn.MPO.identity(qd, L, dtype=(complex, float)[idx % 2])
    if idx % 3:
        j = int(rng.integers(0, L))
        Iloc.A[j] = Iloc.A[j] * np.arange(1, d + 1).reshape(d, 1, 1, 1)          # a charge-neutral diagonal operator on site j
    ac = _state(rng, qd, L)
    ac.A = [np.asarray(t, dtype=complex) for t in ac.A]
    # nearly cancelling differences (a - a', a' = a with every tensor perturbed at 1e-9 .. 1e-12): the contracted <d|d> is rounding noise of either sign;
    # scalar functions must leave even such an operand untouched
    near = []
    for _k in range(4):
        a2 = copy.deepcopy(a)
        eps = float(rng.choice([1e-9, 1e-10, 1e-12]))
        a2.A = [np.asarray(t, dtype=complex) * (1 + eps * complex(rng.normal(), rng.normal())) for t in a2.A]
        near.append(a - a2)
    ops = {
        'norm-of-near-cancelling-difference': (lambda: [ptn.norm(dn) for dn in near], near),
        'vdot-of-near-cancelling-difference': (lambda: [ptn.vdot(dn, dn) for dn in near], near),
        'mps-add': (lambda: a + b, [a, b]), 'mps-sub': (lambda: a - b, [a, b]), 'mps-add-self': (lambda: a + a, [a]),
        'mpo-add': (lambda: A + B, [A, B]), 'mpo-sub': (lambda: A - B, [A, B]), 'mpo-matmul': (lambda: A @ B, [A, B]), 'mpo-matmul-self': (lambda: A @ A, [A]),
        'apply_operator': (lambda: ptn.apply_operator(A, a), [A, a]),
        'apply_operator-local': (lambda: ptn.apply_operator(Iloc, ac), [Iloc, ac]),
        'mpo-matmul-local': (lambda: Iloc @ A, [Iloc, A]), 'mpo-add-local': (lambda: Iloc + Iloc, [Iloc]),
        'vdot': (lambda: ptn.vdot(a, b), [a, b]), 'norm': (lambda: ptn.norm(a), [a]),
        'operator_average': (lambda: ptn.operator_average(a, A), [a, A]),
        'operator_inner_product': (lambda: ptn.operator_inner_product(b, A, a), [a, b, A]),
        'operator_density_average': (lambda: ptn.operator_density_average(A, B), [A, B]),
        'as_vector': (lambda: a.as_vector(), [a]), 'as_matrix': (lambda: A.as_matrix(), [A]), 'as_matrix-sparse': (lambda: A.as_matrix(sparse_format=True), [A]),
        'compute_right_operator_blocks': (lambda: ptn.compute_right_operator_blocks(a, A), [a, A]),
        'MPS-constructor': (lambda: ptn.MPS(a.qd, a.qD, fill='random', rng=rng), [a]),
        'MPS-constructor-fill': (lambda: ptn.MPS(a.qd, a.qD, fill=1.0), [a]),
        'MPO-constructor': (lambda: ptn.MPO(A.qd, A.qD, fill='random', rng=rng), [A]),
        'MPO-identity': (lambda: ptn.MPO.identity(qd, L), [qd]),
        'bond_dims': (lambda: (a.bond_dims, A.bond_dims), [a, A]),
    }
    names = sorted(ops)
    pick = [names[(idx + k * 7) % len(names)] for k in range(4)]
    ctx.case(('arithmetic', f'L{L}', f'd{d}') + tuple(sorted(set(pick))), sample={'ops': pick, 'L': L, 'd': d})
    for nm in pick:
        f, operands = ops[nm]
        ctx.cur_info = {'operation': nm, 'L': L, 'qd': qd}
        r = guard(ctx, nm, f, operands, rng)
        # returned raw arrays (as_vector for L=1 returns a view of the single tensor) are not required to be independent:
        # C19 demands that only of returned MPS / MPO / OpGraph objects


def decomposition_case(ctx, idx, rng):
    m, n = int(rng.integers(1, 9)), int(rng.integers(1, 9))
    lay = str(rng.choice(['zero', 'unsorted', 'sorted', 'disjoint']))
    if lay == 'disjoint':
        q0 = rng.integers(0, 2, size=m); q1 = rng.integers(5, 7, size=n)
    else:
        q0 = gen.qvec(rng, m, lay, 1); q1 = gen.qvec(rng, n, lay, 1)
    Amat = gen.block_matrix(rng, q0, q1, str(rng.choice(['complex', 'real'])))
    s = np.abs(rng.normal(size=int(rng.integers(1, 9))))
    d0, d1, D0, D2 = (int(x) for x in rng.integers(1, 4, size=4))
    z = lambda k: np.zeros(k, dtype=int)
    T = gen.entries(rng, (d0 * d1, D0, D2), 'complex')
    qd0, qd1, qDa, qDb = z(d0), z(d1), z(D0), z(D2)
    X0 = gen.entries(rng, (d0, D0, 3), 'complex'); X1 = gen.entries(rng, (d1, 3, D2), 'complex')
    W0 = gen.entries(rng, (d0, d0, D0, 3), 'complex'); W1 = gen.entries(rng, (d1, d1, 3, D2), 'complex')
    tol = float(rng.choice([0, 0.1]))
    v = rng.normal(size=2 ** 4) + 1j * rng.normal(size=2 ** 4)
    ops = {
        'qr': (lambda: ptn.qr(Amat, q0, q1), [Amat, q0, q1]),
        'split_matrix_svd': (lambda: ptn.split_matrix_svd(Amat, q0, q1, tol), [Amat, q0, q1]),
        'retained_bond_indices': (lambda: ptn.retained_bond_indices(s, tol), [s]),
        'split_mps_tensor': (lambda: ptn.split_mps_tensor(T, qd0, qd1, [qDa, qDb], str(rng.choice(['left', 'right', 'sqrt'])), tol), [T, qd0, qd1, qDa, qDb]),
        'merge_mps_tensor_pair': (lambda: ptn.merge_mps_tensor_pair(X0, X1), [X0, X1]),
        'merge_mpo_tensor_pair': (lambda: ptn.merge_mpo_tensor_pair(W0, W1), [W0, W1]),
        'from_vector': (lambda: ptn.MPS.from_vector(2, 4, v, tol), [v]),
        'is_qsparse': (lambda: ptn.is_qsparse(Amat, [q0, -q1]), [Amat, q0, q1]),
        'qnumber_flatten': (lambda: ptn.qnumber_flatten([q0, q1]), [q0, q1]),
    }
    names = sorted(ops)
    pick = [names[(idx + k * 4) % len(names)] for k in range(4)]
    ctx.case(('decomposition', lay) + tuple(sorted(set(pick))), sample={'ops': pick, 'shape': [m, n]})
    for nm in pick:
        f, operands = ops[nm]
        ctx.cur_info = {'operation': nm, 'A': Amat, 'q0': q0, 'q1': q1, 'tol': tol}
        guard(ctx, nm, f, operands, rng)


def symbolic_case(ctx, idx, rng):
    L = int(rng.integers(1, 6))
    chains = [gen.rand_chain(rng, L, nops=3, charges=False) for _ in range(int(rng.integers(1, 8)))]
    g = ptn.OpGraph.from_opchains(chains, L, 0)
    g2 = gen.rand_graph(rng, L, idbase=int(rng.integers(0, 3)), charges=False)
    # the graph handed to from_opgraph / as_matrix: compiled from chains, hand-built with ids and edge lists in arbitrary order, grown by two additions, or flipped
    src = ('compiled', 'hand-built', 'two-additions', 'flipped')[(idx // 3) % 4]
    if src == 'compiled':
        gx = g
    elif src == 'hand-built':
        gx = g2
    elif src == 'two-additions':
        gx = copy.deepcopy(g)
        gx.add(gen.rand_graph(rng, L, idbase=int(rng.integers(0, 3)), charges=False))
        gx.add(gen.rand_graph(rng, L, idbase=int(rng.integers(0, 3)), charges=False))
    else:
        gx = copy.deepcopy(g2)
        gx.flip()
    d = 2
    opmap = {k: rng.normal(size=(d, d)) for k in range(0, 4)}
    qd = np.zeros(d, dtype=int)
    root, _ = gen.rand_tree(rng, L, nops=3)
    trees = [ptn.OpTree(root, 0)]
    nodes = [ptn.AutOpNode(i, [], [], 0) for i in range(3)]
    au = ptn.AutOp(nodes, [], [0, 1])
    au.add_connect_edge(ptn.AutOpEdge(0, [0, 0], [(0, 1.0)]))
    au.add_connect_edge(ptn.AutOpEdge(1, [0, 1], [(1, 0.5), (2, 2.0)]))
    au.add_connect_edge(ptn.AutOpEdge(2, [1, 1], [(0, 1.0)]))
    au.add_connect_edge(ptn.AutOpEdge(3, [0, 2], [(1, 1.0)]))
    au.add_connect_edge(ptn.AutOpEdge(4, [2, 1], [(2, -1.0)]))
    coeff = rng.normal(size=L) + 1j * rng.normal(size=L)
    Lm = max(L, 1)
    t = rng.normal(size=(Lm, Lm)); v = rng.normal(size=(Lm, Lm, Lm, Lm))
    c0 = chains[0]
    ops = {
        'from_opchains': (lambda: ptn.OpGraph.from_opchains(chains, L, 0), [chains]),
        'from_optrees': (lambda: ptn.OpGraph.from_optrees(trees, L, 0), [trees]),
        'from_automaton': (lambda: ptn.OpGraph.from_automaton(au, L), [au]),
        'from_opgraph': (lambda: ptn.MPO.from_opgraph(qd, gx, opmap, compute_nid_map=True), [qd, gx, opmap]),
        'graph-add': (lambda: copy.deepcopy(g).add(g2), [g2]),
        'graph-as_matrix': (lambda: gx.as_matrix(opmap), [gx, opmap]),
        'chain-padded': (lambda: c0.padded(L, 0), [c0]),
        'chain-as_matrix': (lambda: c0.as_matrix(opmap), [c0, opmap]),
        'tree-as_matrix': (lambda: trees[0].as_matrix(opmap), [trees, opmap]),
        'linear_fermionic_mpo': (lambda: ptn.linear_fermionic_mpo(coeff, 'c'), [coeff]),
        'molecular_hamiltonian_mpo': (lambda: ptn.molecular_hamiltonian_mpo(t, v, optimize=(Lm < 4 or rng.random() < 0.5)), [t, v]),
        'spin_molecular_hamiltonian_mpo': (lambda: ptn.spin_molecular_hamiltonian_mpo(t[:2, :2], v[:2, :2, :2, :2], optimize=bool(Lm < 2 or rng.random() < 0.5)), [t, v]),
    }
    names = sorted(ops)
    pick = [names[(idx + k * 5) % len(names)] for k in range(4)]
    ctx.case(('symbolic', f'L{L}', 'graph-' + src) + tuple(sorted(set(pick))), sample={'ops': pick, 'L': L, 'graph_source': src})
    for nm in pick:
        f, operands = ops[nm]
        ctx.cur_info = {'operation': nm, 'L': L}
        r = guard(ctx, nm, f, operands, rng, protect=True)
        if nm == 'chain-padded' and r is not None:
            r.oids.append(5); r.qnums.clear()
            ctx.ok('chain-padded.independent', len(c0.qnums) == len(c0.oids) + 1, 'padded chain shares lists with the original', None)


def edge_accumulation_case(ctx, idx, rng):
    """History on the edge level: an accumulator edge (created EMPTY, or with a few operators) receives 2..5 other edges through OpGraphEdge.add. After EVERY
    addition all earlier operands must still be bit-identical to their snapshots (an operand adopted by reference would be edited by a LATER call, in which it
    is not even an argument), the accumulator must denote the running sum (zero coefficients may stay listed), and editing the accumulator's list afterwards
    must not reach any operand."""
    nids = [int(rng.integers(0, 5)), int(rng.integers(5, 9))]
    pool = [int(x) for x in rng.choice(np.arange(-3, 12), size=int(rng.integers(1, 6)), replace=False)]
    def rand_opics(kmax):
        k = int(rng.integers(1, kmax + 1))
        ids = [int(x) for x in rng.choice(pool, size=min(k, len(pool)), replace=False)]
        return [(i, float(rng.choice([-2, -1, -.5, .5, 1, 2]))) for i in ids]
    start = ('empty', 'empty', 'one', 'several')[idx % 4]
    acc = ptn.OpGraphEdge(int(rng.integers(0, 50)), nids, [] if start == 'empty' else rand_opics(1 if start == 'one' else 4))
    want = collections.defaultdict(float)
    for i, c in acc.opics:
        want[i] += c
    n = int(rng.integers(2, 6))
    ctx.case(('edge-accumulation', 'start-' + start, f'adds{n}', f'pool{len(pool)}'), sample={'start': list(acc.opics), 'adds': n})
    operands, snaps = [], []
    for step in range(n):
        other = ptn.OpGraphEdge(int(rng.integers(50, 99)), list(nids), rand_opics(3))
        operands.append(other)
        snaps.append((other.eid, list(other.nids), [tuple(t) for t in other.opics]))
        for i, c in other.opics:
            want[i] += c
        acc.add(other)
        detail = {'step': step, 'accumulator': list(acc.opics), 'operands': snaps}
        ok = all((o.eid, list(o.nids), [tuple(t) for t in o.opics]) == sn for o, sn in zip(operands, snaps))
        if not ctx.ok('edge-add.earlier-operands-unchanged', ok, f'after addition {step + 1} an operand of this or of an EARLIER addition has changed', detail):
            return
        got = collections.defaultdict(float)
        for i, c in acc.opics:
            got[i] += c
        ctx.ok('edge-add.running-sum', {k: v for k, v in got.items() if v != 0} == {k: v for k, v in want.items() if v != 0}
               and len({i for i, _ in acc.opics}) == len(acc.opics) and list(acc.opics) == sorted(acc.opics),
               f'accumulator {list(acc.opics)} != running sum {dict(want)} (unique ids, sorted)', detail)
        ctx.ok('edge-add.no-shared-list', all(acc.opics is not o.opics for o in operands), 'the accumulator shares its operator list object with an operand', detail)
    # mutate-result probe
    acc.opics.append((99, 1.0))
    if acc.opics:
        acc.opics[0] = (acc.opics[0][0], 123.0)
    ok = all((o.eid, list(o.nids), [tuple(t) for t in o.opics]) == sn for o, sn in zip(operands, snaps))
    ctx.ok('edge-add.result-edit-does-not-reach-operands', ok, 'editing the accumulator changed an operand', {'operands': snaps})


def inplace_case(ctx, idx, rng):
    """In-place algorithms modify only the documented target."""
    name, L, p, H = gen.pick_model(rng, maxdim=256, Lmin=2, Lmax=5)
    psi = _state(rng, H.qd, L)
    other = _state(rng, H.qd, L, qL=int(psi.qD[-1][0]))
    # `other` shares nothing with psi but was built from the same qd array object: in-place changes of psi must not leak
    op = ('orthonormalize', 'compress', 'tdvp1', 'tdvp2', 'dmrg1', 'dmrg2', 'zero_qnumbers', 'mpo-orthonormalize')[idx % 8]
    ctx.case(('inplace', name, f'L{L}', op), sample={'model': name, 'L': L, 'op': op})
    ctx.cur_info = {'operation': op, 'model': name, 'L': L, 'params': p}
    detail = ctx.cur_info
    sumstate = psi + other          # built from psi before the in-place step; must not change afterwards
    bystanders = [H, other, sumstate]
    d0 = [monitor.digest(o) for o in bystanders]
    try:
        with monitor.write_protected(*bystanders):
            if op == 'orthonormalize':
                psi.orthonormalize(str(rng.choice(['left', 'right'])))
            elif op == 'compress':
                psi.compress(float(rng.choice([0, 0.01])), str(rng.choice(['left', 'right'])))
            elif op == 'tdvp1':
                ptn.integrate_local_singlesite(H, psi, 0.1j, 1, numiter_lanczos=5)
            elif op == 'tdvp2':
                ptn.integrate_local_twosite(H, psi, 0.1j, 1, numiter_lanczos=5)
            elif op == 'dmrg1':
                ptn.calculate_ground_state_local_singlesite(H, psi, 1, numiter_lanczos=5)
            elif op == 'dmrg2':
                ptn.calculate_ground_state_local_twosite(H, psi, 1, numiter_lanczos=5)
            elif op == 'zero_qnumbers':
                psi.zero_qnumbers()
            else:
                H2 = copy.deepcopy(H)
                bystanders.append(H)
                H2.orthonormalize(str(rng.choice(['left', 'right'])))
    except ValueError as e:
        if 'read-only' in str(e):
            import traceback
            ctx.fail(f'{op}.write-trap', f'in-place algorithm wrote to an object it must not modify: {e}', dict(detail, traceback=traceback.format_exc(limit=8)))
            return
        raise
    ctx.count(f'{op}.write-trap')
    d1 = [monitor.digest(o) for o in bystanders[:3]]
    changed = [('H', 'other-state', 'earlier-result')[k] for k in range(3) if d0[k] != d1[k]]
    ctx.ok(f'{op}.only-target-modified', not changed, f'{op} modified {changed}', detail)


SOAK_FUNCS = ['pytenet.mps.add_mps', 'pytenet.mpo.add_mpo', 'pytenet.mpo.multiply_mpo', 'pytenet.operation.apply_operator', 'pytenet.operation.vdot',
              'pytenet.operation.norm', 'pytenet.operation.operator_average', 'pytenet.operation.operator_inner_product',
              'pytenet.operation.operator_density_average', 'pytenet.operation.compute_right_operator_blocks', 'pytenet.bond_ops.qr',
              'pytenet.bond_ops.split_matrix_svd', 'pytenet.bond_ops.retained_bond_indices', 'pytenet.mps.split_mps_tensor',
              'pytenet.mps.merge_mps_tensor_pair', 'pytenet.mpo.merge_mpo_tensor_pair', 'pytenet.mpo.MPO.from_opgraph',
              'pytenet.opgraph.OpGraph.from_opchains', 'pytenet.opgraph.OpGraph.from_optrees', 'pytenet.opgraph.OpGraph.from_automaton',
              'pytenet.mpo.MPO.as_matrix', 'pytenet.mps.MPS.as_vector', 'pytenet.krylov.lanczos_iteration', 'pytenet.krylov.arnoldi_iteration']


def soak_case(ctx, idx, rng):
    """The repository's own tests under digest guards: every call of the listed public functions must leave its arguments bit-identical."""
    from .. import soak

    def make(name):
        short = name.split('.')[-1]

        def around(orig, *a, **k):
            ops = [x for x in list(a) + list(k.values()) if not callable(x) or isinstance(x, OBJ)]
            d0 = [monitor.digest(o) for o in ops]
            r = orig(*a, **k)
            d1 = [monitor.digest(o) for o in ops]
            ctx.ok(f'soak.{short}.arguments-bit-identical', d0 == d1, f'{name} modified an argument when called from the test-suite', {'function': name}, in_situ=True)
            if isinstance(r, OBJ):
                al = monitor.aliases(r, ops)
                ctx.ok(f'soak.{short}.result-shares-no-state', not al, f'result of {name} shares state with an argument: {al[:3]}', {'function': name}, in_situ=True)
            return r
        return around
    ctx.case(('soak', 'repository-test-suite'), nontrivial=True, sample={'functions_guarded': SOAK_FUNCS})
    soak.run_suite(ctx, [(f, make(f)) for f in SOAK_FUNCS])
    soak.run_notebooks(ctx, [(f, make(f)) for f in SOAK_FUNCS])


SPEC = {
    'id': 'C19',
    'rule': ('every public operation that returns a new object or a number is run under (1) deep digests of all operands before/after, (2) write-protection '
             'of every operand array (a write raises at the offending line), (3) for returned MPS / MPO / OpGraph objects an alias scan (np.shares_memory on '
             'all reachable arrays, identity of mutable containers) and (4) a mutate-the-result probe (fill with NaN / -99, zero_qnumbers + in-place edits, '
             'orthonormalize, compress, graph scramble / flip / rename) followed by the digests again. Operations: sums, differences, products, '
             'apply_operator, inner products and averages, dense conversions, qr, split_matrix_svd, retained_bond_indices, tensor split/merge, '
             'from_vector, constructors, graph / MPO construction from chains, trees, automata, graphs, Hamiltonian constructors with coefficient arrays; '
             'in-place algorithms (orthonormalize, compress, TDVP, DMRG, zero_qnumbers, MPO orthonormalize) with bystanders (Hamiltonian, another state, an '
             'earlier sum). distinct = (family, operation set, L, d / layout).'),
    'deciding': ['mps-add.operands-bit-identical', 'mps-add.result-shares-no-state', 'mps-add.operands-survive-result-mutation', 'mpo-add.result-shares-no-state',
                 'qr.operands-bit-identical', 'split_matrix_svd.operands-bit-identical', 'retained_bond_indices.operands-bit-identical',
                 'graph-add.operands-bit-identical', 'tdvp1.only-target-modified', 'dmrg1.only-target-modified', 'from_opgraph.result-shares-no-state'],
    'workloads': [
        Workload('arithmetic', arithmetic_case, quick=800, thorough=120000),
        Workload('decomposition', decomposition_case, quick=600, thorough=80000),
        Workload('symbolic', symbolic_case, quick=500, thorough=48000),
        Workload('edge-accumulation', edge_accumulation_case, quick=400, thorough=40000),
        Workload('inplace', inplace_case, quick=320, thorough=40000),
        Workload('suite-soak', soak_case, quick=0, thorough=1, shardable=False),
    ],
    'shards': {'quick': 4, 'thorough': 16},
    'assumptions': ['the alias scanner walks __dict__, lists, tuples, dicts, sets and ndarrays (object arrays included)'],
}
