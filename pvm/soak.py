"""
Soak: the repository's own test-suite executed in-process while monitors are attached to the public functions, so
that real call sites with the tests' own data are observed (`in_situ` evaluations). Test failures themselves are not
verdicts (one of the tests is flaky on the unchanged tree); only what the monitors see counts.
"""
import contextlib
import io
import os

from . import env, monitor


def run_suite(ctx, attachments, select=None):
    """attachments: list of (dotted path, around function). Returns pytest's exit code."""
    import pytest
    handles = []
    try:
        for path, around in attachments:
            try:
                handles.append(monitor.attach(path, around))
            except LookupError:
                ctx.mark_inconclusive(f'soak: no binding found for {path}')
        args = ['-q', '-p', 'no:cacheprovider', '-x' if False else '-q', '--no-header', '-W', 'ignore']
        tests = os.path.join(env.REPO, 'test')
        args += [os.path.join(tests, t) for t in select] if select else [tests]
        buf = io.StringIO()
        cwd = os.getcwd()
        os.chdir(env.REPO)
        try:
            with contextlib.redirect_stdout(buf), contextlib.redirect_stderr(buf):
                rc = pytest.main(args)
        finally:
            os.chdir(cwd)
        ctx.event('soak_pytest_exit_code_' + str(int(rc)))
        return int(rc)
    finally:
        for h in handles:
            h.detach()


def run_notebooks(ctx, attachments):
    """The documentation notebooks (doc/*.ipynb) executed cell by cell while the monitors are attached: the library as its authors show it to users.
    Errors of the notebook code itself are recorded as events, not verdicts."""
    import json
    import glob
    handles = []
    try:
        for path, around in attachments:
            try:
                handles.append(monitor.attach(path, around))
            except LookupError:
                ctx.mark_inconclusive(f'soak: no binding found for {path}')
        for nb in sorted(glob.glob(os.path.join(env.REPO, 'doc', '*.ipynb'))):
            try:
                cells = [''.join(c['source']) for c in json.load(open(nb))['cells'] if c['cell_type'] == 'code']
            except Exception:
                ctx.event('notebook_unreadable')
                continue
            ns = {'__name__': '__notebook__'}
            buf = io.StringIO()
            ok = 0
            for src in cells:
                src = '\n'.join(l for l in src.splitlines() if not l.lstrip().startswith(('%', '!')))
                try:
                    with contextlib.redirect_stdout(buf), contextlib.redirect_stderr(buf):
                        exec(compile(src, os.path.basename(nb), 'exec'), ns)
                    ok += 1
                except Exception:
                    ctx.event('notebook_cell_errors')
            ctx.event('notebook_cells_executed', ok)
    finally:
        for h in handles:
            h.detach()
