"""
Line coverage of the property's anchored files while the monitors run (sys.monitoring LINE events; every location is
disabled after its first hit, so the cost is ~0 after warm-up). Reported in the evidence as `anchor_coverage`.
"""
import json
import os
import sys
import types

from . import env

_PROPS = None


def anchored_files(pid):
    global _PROPS
    if _PROPS is None:
        _PROPS = {}
        try:
            with open(os.path.join(env.VERIF_DIR, 'properties.jsonl')) as f:
                for line in f:
                    p = json.loads(line)
                    _PROPS[p['id']] = [os.path.realpath(os.path.join(env.REPO, x)) for x in p['anchors']['files']]
        except OSError:
            pass
    return _PROPS.get(pid, [])


class LineCoverage:
    def __init__(self, files):
        self.files = set(files)
        self.hits = set()          # (file, line)
        self.mon = sys.monitoring
        self.tool = self.mon.COVERAGE_ID
        self.on = False

    def _cb(self, code, line):
        fn = code.co_filename
        if fn in self.files:
            self.hits.add((fn, line))
        return self.mon.DISABLE

    def start(self):
        if not self.files:
            return
        try:
            self.mon.use_tool_id(self.tool, 'pvm-cover')
        except ValueError:
            return
        self.mon.register_callback(self.tool, self.mon.events.LINE, self._cb)
        self.mon.set_events(self.tool, self.mon.events.LINE)
        self.on = True

    def stop(self):
        if self.on:
            self.mon.set_events(self.tool, 0)
            self.mon.register_callback(self.tool, self.mon.events.LINE, None)
            self.mon.free_tool_id(self.tool)
            self.on = False

    def result(self):
        out = {}
        for fn, ln in self.hits:
            out.setdefault(os.path.relpath(fn, env.REPO), []).append(ln)
        return {k: sorted(v) for k, v in out.items()}


def executable_lines(path):
    """Line numbers that carry code in any function/class body of the file (from the compiled code objects)."""
    try:
        with open(path) as f:
            code = compile(f.read(), path, 'exec')
    except (OSError, SyntaxError):
        return {}, set()
    funcs = {}
    lines = set()

    def walk(c, qual):
        mine = set(l for (_, _, l) in c.co_lines() if l is not None)
        sub = set()
        for k in c.co_consts:
            if isinstance(k, types.CodeType):
                q = (qual + '.' if qual else '') + k.co_name
                walk(k, q)
        if qual:
            if c.co_flags & 0x1:          # CO_OPTIMIZED: a function body (class bodies run at import time)
                funcs[qual] = mine
            lines.update(mine)
    walk(code, '')
    return funcs, lines


def summarise(hit_by_file):
    """{file: {'lines_hit', 'lines_total', 'functions_never_entered'}} for the evidence file."""
    out = {}
    for rel, hit in hit_by_file.items():
        funcs, lines = executable_lines(os.path.join(env.REPO, rel))
        hs = set(hit)
        never = sorted(q for q, ls in funcs.items() if ls and not (ls & hs) and '<' not in q)
        out[rel] = {'lines_hit': len(hs & lines) if lines else len(hs), 'lines_total': len(lines), 'functions_never_entered': never[:40]}
    return out
