"""./check <ID> [--tier quick|thorough] [--replay PATH] [--shard i/n --out FILE] [--nshards N]"""
import argparse
import sys

from . import env


def main(argv=None):
    ap = argparse.ArgumentParser()
    ap.add_argument('pid')
    ap.add_argument('--tier', default=None)
    ap.add_argument('--replay', default=None)
    ap.add_argument('--shard', default=None)
    ap.add_argument('--out', default=None)
    ap.add_argument('--nshards', type=int, default=None)
    a = ap.parse_args(argv)
    tier = a.tier if a.tier in ('quick', 'thorough') else env.tier()
    from . import core, props
    spec = props.load(a.pid.upper())
    shard = None
    if a.shard:
        i, n = a.shard.split('/')
        shard = (int(i), int(n))
    code = core.run_property(spec, tier, env.seed(), shard=shard, out=a.out, replay=a.replay, nshards=a.nshards)
    return code


if __name__ == '__main__':
    sys.exit(main())
