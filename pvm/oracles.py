"""
Post-condition oracles shared by direct workloads and in-situ monitors.
Each takes the run context, the OLD snapshot of the operands and the result.
"""
import numpy as np

from . import refs


def _fro(x):
    return float(np.linalg.norm(np.asarray(x).reshape(-1)))


def snapshot_arrays(*arrs):
    return [np.array(a, copy=True) for a in arrs]


def pow2_exponent(x):
    """Binary exponent e of the largest magnitude in x (0 for an all-zero / empty array): ldexp(x, -e) has its largest entry in [0.5, 1)."""
    x = np.asarray(x)
    m = float(np.max(np.abs(x), initial=0)) if x.size else 0.0
    return int(np.frexp(m)[1]) if m > 0 and np.isfinite(m) else 0


def ldexp(x, k):
    """Exact scaling by 2**k of a real or complex array."""
    x = np.asarray(x)
    if k == 0:
        return x
    if np.iscomplexobj(x):
        return np.ldexp(x.real, k) + 1j * np.ldexp(x.imag, k)
    return np.ldexp(x.astype(float) if not np.issubdtype(x.dtype, np.floating) else x, k)


def is_single(a):
    """Single-precision floating point data (any byte order)."""
    a = np.asarray(a)
    return a.dtype.kind in 'fc' and float(np.finfo(a.dtype).eps) > 1e-10


def same_bits(a, b):
    a = np.asarray(a)
    b = np.asarray(b)
    return a.shape == b.shape and a.dtype == b.dtype and a.tobytes() == b.tobytes()


# ---------------------------------------------------------------------------------------------------
# C11: block QR
# ---------------------------------------------------------------------------------------------------

def check_qr(ctx, A0, q0_0, q1_0, args_after, result, in_situ=False, tag='qr'):
    """A0, q0_0, q1_0: copies taken before the call; args_after: the live operand objects after the call."""
    s = in_situ
    detail = {'A': A0, 'q0': q0_0, 'q1': q1_0}
    ok = ctx.ok(f'{tag}.returns-triple', isinstance(result, tuple) and len(result) == 3, 'qr must return (Q, R, qinterm)', detail, s)
    if not ok:
        return
    Q, R, qi = result
    m, n = A0.shape
    Q = np.asarray(Q)
    R = np.asarray(R)
    A_live = A0
    e = pow2_exponent(A0)
    if abs(e) > 300:
        # very small / large entries: compare after an exact rescaling by a power of two (the oracle's own norms would under/overflow)
        A0 = ldexp(A0, -e)
        R = ldexp(R, -e)
        ctx.event('oracle_rescaled_by_power_of_two')
    qi_arr = np.asarray(qi)
    k = Q.shape[1] if Q.ndim == 2 else -1
    shapes_ok = (Q.ndim == 2 and R.ndim == 2 and Q.shape == (m, k) and R.shape == (k, n) and qi_arr.ndim == 1
                 and len(qi_arr) == k and 1 <= k <= min(m, n))
    if not ctx.ok(f'{tag}.shapes', shapes_ok,
                  f'shapes Q{Q.shape} R{R.shape} len(q)={qi_arr.shape} for A{A0.shape}; need 1<=k<=min(m,n)', detail, s):
        return
    ctx.ok(f'{tag}.qinterm-integer', np.issubdtype(qi_arr.dtype, np.integer), f'qinterm dtype {qi_arr.dtype}', detail, s)
    ctx.ok(f'{tag}.finite', bool(np.all(np.isfinite(Q)) and np.all(np.isfinite(R))), 'non-finite factor', detail, s)
    nA = _fro(A0)
    eps_scale = 1e-11 if not is_single(A_live) else 1e-4
    ctx.close(f'{tag}.product', _fro(Q @ R - A0), eps_scale * nA, 'Q@R != A', detail, s)
    ctx.close(f'{tag}.isometry', _fro(Q.conj().T @ Q - np.identity(k)), eps_scale * max(1, np.sqrt(k)), 'Q^H Q != I', detail, s)
    ctx.ok(f'{tag}.sector-Q', refs.sector_ok(Q, [q0_0, qi_arr], [1, -1]), 'Q not block sparse under (q0, qinterm)', detail, s)
    ctx.ok(f'{tag}.sector-R', refs.sector_ok(R, [qi_arr, q1_0], [1, -1]), 'R not block sparse under (qinterm, q1)', detail, s)
    if len(np.intersect1d(q0_0, q1_0)) == 0:
        ctx.ok(f'{tag}.disjoint', k == 1 and not np.any(R), f'disjoint charges: k={k}, R nonzero={bool(np.any(R))}', detail, s)
    if args_after is not None:
        A1, q0_1, q1_1 = args_after
        ctx.ok(f'{tag}.operands-unchanged',
               same_bits(A1, A_live) and np.array_equal(np.asarray(q0_1), q0_0) and np.array_equal(np.asarray(q1_1), q1_0),
               'qr modified an argument', detail, s)


# ---------------------------------------------------------------------------------------------------
# C12: truncated SVD split
# ---------------------------------------------------------------------------------------------------

SLACK = 1e-12


def slack(tol):
    """Two-sided rounding allowance on the threshold decision 'discarded weight <= tol': 1e-12 absolute in the ordinary range; for tolerances below 1e-9
    (where an absolute 1e-12 would make the rule vacuous) 0.1 % of the tolerance, with a floor of 1e-26 (weights of singular values at 1e-13 of the largest
    are known to ~1e-3 relative only)."""
    return SLACK if tol >= 1e-9 else max(1e-3 * tol, 1e-26)


def expected_kept_range(sig, tol, slack=None):
    slack = globals()['slack'](tol) if slack is None else slack
    """
    Number of kept singular values prescribed by the rule 'discard the smallest values while the discarded
    relative weight stays <= tol' for the independent spectrum `sig` (descending), as an interval
    [kmin, kmax] that accounts for rounding: counts obtained with tol -/+ slack.
    """
    w = sig.astype(float) ** 2
    tot = w.sum()
    if tot == 0:
        return 0, 0
    w = w / tot
    # cumulative discarded weight when keeping k values: sum w[k:]
    tail = np.concatenate([np.cumsum(w[::-1])[::-1], [0.0]])      # tail[k] = sum_{i>=k} w[i]

    def kept(t):
        # smallest k such that tail[k] <= t  (k values kept); rule keeps index i iff tail[i] > t
        return int(np.sum(tail[:len(w)] > t))
    return kept(tol + slack), kept(tol - slack)


def check_svd(ctx, A0, q0_0, q1_0, tol, args_after, result, in_situ=False, tag='svd', exact_expected=None):
    s = in_situ
    detail = {'A': A0, 'q0': q0_0, 'q1': q1_0, 'tol': tol}
    if not ctx.ok(f'{tag}.returns-4', isinstance(result, tuple) and len(result) == 4, 'must return (u, s, v, q)', detail, s):
        return
    u, sv, v, q = (np.asarray(x) for x in result)
    m, n = A0.shape
    A_live = A0
    e = pow2_exponent(A0)
    if abs(e) > 300:
        # very small / large entries: compare after an exact rescaling by a power of two (the oracle's own norms would under/overflow)
        A0 = ldexp(A0, -e)
        sv = ldexp(sv, -e) if sv.ndim == 1 and np.issubdtype(sv.dtype, np.floating) else sv
        ctx.event('oracle_rescaled_by_power_of_two')
    nA = _fro(A0)
    if args_after is not None:
        ctx.ok(f'{tag}.input-unchanged', same_bits(args_after[0], A_live)
               and np.array_equal(np.asarray(args_after[1]), q0_0) and np.array_equal(np.asarray(args_after[2]), q1_0),
               'split_matrix_svd modified an argument', detail, s)
    if nA == 0:
        # only required: product equal to zero, no exception
        ok_shape = u.ndim == 2 and v.ndim == 2 and sv.ndim == 1 and u.shape[0] == m and v.shape[1] == n \
            and u.shape[1] == len(sv) == v.shape[0]
        if ctx.ok(f'{tag}.zero-shapes', ok_shape, f'zero matrix: shapes u{u.shape} s{sv.shape} v{v.shape}', detail, s):
            ctx.ok(f'{tag}.zero-product', not np.any((u * sv) @ v), 'zero matrix must give a zero product', detail, s)
        return
    k = len(sv)
    if k == 0 and tol + slack(tol) >= 1:
        # tolerance within rounding of 1: discarding everything is inside the slack of the threshold rule
        ctx.skip(f'{tag}.shapes')
        return
    shapes_ok = (u.ndim == 2 and v.ndim == 2 and sv.ndim == 1 and q.ndim == 1 and u.shape == (m, k) and v.shape == (k, n)
                 and len(q) == k and 1 <= k <= min(m, n))
    if not ctx.ok(f'{tag}.shapes', shapes_ok, f'shapes u{u.shape} s{sv.shape} v{v.shape} q{q.shape} for A{A0.shape}', detail, s):
        return
    eps = 1e-11
    ctx.ok(f'{tag}.finite', bool(np.all(np.isfinite(u)) and np.all(np.isfinite(v)) and np.all(np.isfinite(sv))), 'non-finite', detail, s)
    ctx.ok(f'{tag}.s-positive', bool(np.all(sv > 0)) and not np.iscomplexobj(sv), f'singular values not all positive reals: min {sv.min() if k else None}', detail, s)
    ctx.close(f'{tag}.u-isometry', _fro(u.conj().T @ u - np.identity(k)), eps * max(1, np.sqrt(k)), 'u^H u != I', detail, s)
    ctx.close(f'{tag}.v-isometry', _fro(v @ v.conj().T - np.identity(k)), eps * max(1, np.sqrt(k)), 'v v^H != I', detail, s)
    ctx.ok(f'{tag}.sector-u', refs.sector_ok(u, [q0_0, q], [1, -1]), 'u not block sparse under (q0, q)', detail, s)
    ctx.ok(f'{tag}.sector-v', refs.sector_ok(v, [q, q1_0], [1, -1]), 'v not block sparse under (q, q1)', detail, s)
    ctx.ok(f'{tag}.q-integer', np.issubdtype(q.dtype, np.integer), f'q dtype {q.dtype}', detail, s)
    # independent spectrum
    sig = np.linalg.svd(A0, compute_uv=False)
    sig = np.sort(sig)[::-1]
    kept = np.sort(sv)[::-1]
    ctx.close(f'{tag}.kept-are-top-k', np.abs(kept - sig[:k]).max() / sig[0], 1e-10, 'kept values are not the k largest singular values', detail, s)
    err2 = _fro((u * sv) @ v - A0) ** 2
    disc2 = float((sig[k:] ** 2).sum())
    ctx.close(f'{tag}.error-identity', abs(err2 - disc2) / nA ** 2, 1e-11, '|usv-A|^2 != sum of discarded sigma^2', detail, s)
    wdisc = disc2 / nA ** 2
    ctx.ok(f'{tag}.discarded<=tol', wdisc <= tol + slack(tol), f'discarded weight {wdisc:.3e} > tol {tol:.3e}', detail, s)
    if k < len(sig):
        ctx.ok(f'{tag}.kept>=discarded', kept[-1] >= sig[k] * (1 - 1e-10) - 1e-14 * sig[0],
               f'kept min {kept[-1]:.6e} < discarded max {sig[k]:.6e}', detail, s)
    # discarding one more would exceed tol
    ctx.ok(f'{tag}.maximal-truncation', wdisc + kept[-1] ** 2 / nA ** 2 > tol - slack(tol),
           f'one more value (weight {kept[-1] ** 2 / nA ** 2:.3e}) could be discarded: {wdisc:.3e} + w <= tol {tol:.3e}', detail, s)
    kmin, kmax = expected_kept_range(sig, tol)
    ctx.ok(f'{tag}.kept-count', kmin <= k <= kmax,
           f'kept {k} values, rule prescribes [{kmin},{kmax}]', detail, s)
    if exact_expected is not None:
        ctx.ok(f'{tag}.kept-count-exact', k == exact_expected, f'exact arithmetic: kept {k}, rule prescribes {exact_expected}', detail, s)
    if tol == 0:
        ctx.close(f'{tag}.tol0-exact', _fro((u * sv) @ v - A0), 1e-11 * nA, 'tol=0 must reproduce the matrix', detail, s)


def check_retained(ctx, s0, tol, s_after, idx, in_situ=False, tag='retained', exact_expected=None):
    """retained_bond_indices(s, tol): index set of kept values."""
    si = in_situ
    detail = {'s': s0, 'tol': tol}
    idx = np.asarray(idx)
    if s_after is not None:
        ctx.ok(f'{tag}.input-unchanged', same_bits(s_after, s0), 'retained_bond_indices modified its argument', detail, si)
    e = pow2_exponent(s0)
    if abs(e) > 300:
        s0 = ldexp(np.asarray(s0, dtype=float), -e)
        ctx.event('oracle_rescaled_by_power_of_two')
    w = float(np.linalg.norm(s0))
    if w == 0:
        ctx.ok(f'{tag}.zero', idx.size == 0, 'zero spectrum must retain nothing', detail, si)
        return
    ok = idx.ndim == 1 and (idx.size == 0 or (np.issubdtype(idx.dtype, np.integer) and idx.min() >= 0 and idx.max() < len(s0)
                                              and len(np.unique(idx)) == len(idx)))
    if not ctx.ok(f'{tag}.indices-valid', ok, f'invalid index set {idx}', detail, si):
        return
    wts = (np.asarray(s0, dtype=float) / w) ** 2
    keep = np.zeros(len(s0), dtype=bool)
    keep[idx] = True
    disc = float(wts[~keep].sum())
    ctx.ok(f'{tag}.discarded<=tol', disc <= tol + slack(tol), f'discarded weight {disc:.3e} > tol {tol:.3e}', detail, si)
    if keep.any() and (~keep).any():
        ctx.ok(f'{tag}.kept>=discarded', wts[keep].min() >= wts[~keep].max() * (1 - 1e-12) - 1e-30,
               'a kept value is smaller than a discarded one', detail, si)
    if keep.any():
        ctx.ok(f'{tag}.maximal', disc + wts[keep].min() > tol - slack(tol), 'one more value could be discarded', detail, si)
    elif tol < 1 - slack(tol):
        ctx.ok(f'{tag}.nonempty', False, f'everything discarded although tol={tol} < 1', detail, si)
    if exact_expected is not None:
        ctx.ok(f'{tag}.exact-count', int(keep.sum()) == exact_expected,
               f'exact arithmetic: kept {int(keep.sum())}, expected {exact_expected}', detail, si)
