"""Reference tools for the Krylov properties (C14, C15): fully re-orthogonalised Krylov basis, conditioning indicator."""
import numpy as np


def krylov_residuals(A, v, maxdim, basis=False):
    """
    Fully re-orthogonalised (twice-MGS) Arnoldi: returns list r with r[j] = norm of the (j+1)-th new direction relative
    to ||A||_2, j = 0.. ; r[j] ~ 0 means the Krylov space has dimension j+1. Stops at the first r[j] < 1e-13.
    """
    n = len(v)
    nA = max(np.linalg.norm(A, 2), 1e-300)
    Q = np.zeros((n, 0), dtype=complex)
    q = v / np.linalg.norm(v)
    res = []
    for j in range(min(maxdim, n)):
        Q = np.concatenate([Q, q.reshape(-1, 1)], axis=1)
        w = A @ q
        for _ in range(2):
            w = w - Q @ (Q.conj().T @ w)
        r = np.linalg.norm(w) / nA
        res.append(r)
        if r < 1e-13:
            break
        q = w / np.linalg.norm(w)
    return (res, Q) if basis else res


def basis_condition(A, v, Q, kk):
    """
    cond([v/|v|, A Q_{kk-1} / ||A||]) with Q the independent re-orthogonalised basis: the quantity that bounds the loss of
    orthogonality of modified-Gram-Schmidt Arnoldi (Paige, Rozloznik, Strakos 2006: loss <= c * eps * cond).
    """
    if kk <= 1:
        return 1.0
    nA = max(np.linalg.norm(A, 2), 1e-300)
    K = np.column_stack([v / np.linalg.norm(v), (A @ Q[:, :kk - 1]) / nA])
    sv = np.linalg.svd(K, compute_uv=False)
    return float(sv[0] / max(sv[-1], 1e-300))


def krylov_dim(res, thresh=1e-8):
    for j, r in enumerate(res):
        if r < thresh:
            return j + 1
    return len(res) + 1 if res else 1     # not exhausted within the explored range


def paige_indicator(alpha, beta):
    """min over leading blocks j and Ritz pairs i of beta_j |s_ji| / ||T||: small <=> some Ritz pair has converged."""
    k = len(alpha)
    if k <= 1:
        return np.inf
    T = np.diag(alpha) + np.diag(beta, 1) + np.diag(beta, -1)
    nT = max(np.abs(np.linalg.eigvalsh(T)).max(), 1e-300)
    worst = np.inf
    for j in range(1, k):
        w, s = np.linalg.eigh(T[:j, :j])
        worst = min(worst, float((beta[j - 1] * np.abs(s[-1, :])).min() / nT))
    return worst


def hermitian_with_spectrum(rng, lam, cplx=True, rotate=True):
    n = len(lam)
    if not rotate:
        return np.diag(np.asarray(lam, dtype=float)).astype(complex if cplx else float), np.identity(n)
    X = rng.normal(size=(n, n)) + (1j * rng.normal(size=(n, n)) if cplx else 0)
    U = np.linalg.qr(X)[0]
    return (U * lam) @ U.conj().T, U


def make_case(rng, n, cplx, spectrum, start):
    """
    Hermitian A with the chosen spectrum class and a start vector of the chosen class.
    Returns A, v, labels. start: generic | real | invariant-structural | invariant-rotated | eigenvector
    """
    if spectrum == 'separated':
        lam = np.sort(rng.permutation(np.arange(n)) * 1.0 + rng.uniform(-0.3, 0.3, size=n))
    elif spectrum == 'degenerate':
        k = max(1, n // 2)
        lam = np.sort(rng.choice(np.arange(k) * 1.0, size=n))
    elif spectrum == 'clustered':
        lam = np.sort(np.concatenate([rng.normal(size=n - n // 2) * 1e-3, 1 + rng.normal(size=n // 2)]))
    else:
        lam = np.sort(rng.normal(size=n))
    A, U = hermitian_with_spectrum(rng, lam, cplx)
    if not cplx:
        A = A.real
    if start == 'generic':
        v = rng.normal(size=n) + 1j * rng.normal(size=n)
    elif start == 'real':
        v = rng.normal(size=n)
    elif start == 'eigenvector':
        v = U[:, int(rng.integers(0, n))] * (rng.normal() + 1j * rng.normal() + 2)
    else:
        # confined to an invariant subspace of dimension r spanned by r eigenvectors
        r = int(rng.integers(1, max(2, n)))
        idx = rng.choice(n, size=min(r, n), replace=False)
        c = rng.normal(size=len(idx)) + 1j * rng.normal(size=len(idx))
        if start == 'invariant-structural':
            # structural: A block diagonal in the computational basis, v supported on one block
            A = np.diag(lam).astype(complex if cplx else float)
            B = rng.normal(size=(len(idx), len(idx))) + (1j * rng.normal(size=(len(idx), len(idx))) if cplx else 0)
            B = (B + B.conj().T) / 2
            A[np.ix_(idx, idx)] = B
            v = np.zeros(n, dtype=complex)
            v[idx] = c
        else:
            v = U[:, idx] @ c
    if not cplx:
        v = np.real(v) if np.linalg.norm(np.real(v)) > 0 else np.abs(v)
    v = v * float(rng.choice([1.0, 1e-3, 1e3]))
    return A, v


CALLABLE_STYLES = ['fresh', 'fresh', 'shared-buffer', 'readonly', 'strided', 'argument-when-identity']


def make_callable(rng, A, style=None):
    """
    Matrix-free map for the matrix A in one of the ways user code hands maps over: a fresh array per call, one preallocated output buffer reused
    for every call, a read-only result, a non-contiguous (strided) result, and -- for identity blocks -- the argument itself / a view of it
    (`lambda x: x`). The iteration must not depend on owning the returned array. Returns (callable, style, call counter list).
    """
    n = A.shape[0]
    style = style or str(rng.choice(CALLABLE_STYLES))
    calls = [0]
    if style == 'argument-when-identity' and not np.array_equal(A, np.identity(n)):
        style = 'fresh'
    if style == 'fresh':
        def f(x):
            calls[0] += 1
            return A @ x
    elif style == 'shared-buffer':
        buf = np.zeros(n, dtype=complex)

        def f(x):
            calls[0] += 1
            buf[:] = A @ x
            return buf
    elif style == 'readonly':
        def f(x):
            calls[0] += 1
            y = A @ x
            y.flags.writeable = False
            return y
    elif style == 'strided':
        big = np.zeros(2 * n, dtype=complex)

        def f(x):
            calls[0] += 1
            big[::2] = A @ x
            return big[::2]
    else:
        view = bool(rng.random() < 0.5)

        def f(x):
            calls[0] += 1
            return x[:] if view else x
    return f, style, calls


def coefficient_zero(rng, A, v, k=None, tries=6):
    """
    A complex time argument z at which the k-th Krylov coefficient of exp(z A) v vanishes: c_k(z) = q_k^H exp(z A) q_0 with q_j the (independent,
    re-orthogonalised) Krylov basis; c_k is an entire function with isolated zeros at |z| * spread(A) ~ 3..6. Found by Newton iteration from random
    starts. Returns (z, k) or None. At such a z the exact result has a vanishing component along q_k while later components are of order one --
    hostile for any code that truncates the Krylov expansion at the first negligible coefficient.
    """
    n = len(v)
    res, Q = krylov_residuals(A, v, n + 1, basis=True)
    kd = Q.shape[1]
    if kd < 3:
        return None
    if np.linalg.norm(A - A.conj().T) > 1e-13 * max(np.linalg.norm(A), 1e-300):
        return None
    lam, U = np.linalg.eigh((A + A.conj().T) / 2)
    spread = max(lam[-1] - lam[0], 1e-300)
    a0 = U.conj().T @ Q[:, 0]
    for _ in range(tries):
        kk = int(rng.integers(1, kd - 1)) if k is None else k          # a later coefficient (kk+1 .. kd-1) remains
        ak = U.conj().T @ Q[:, kk]
        w = np.conj(ak) * a0                                            # c_k(z) = sum_j w_j exp(z lam_j)
        z = complex(rng.normal(), rng.normal())
        z = z / abs(z) * float(rng.uniform(3.0, 6.0)) / spread
        ok = False
        for _ in range(60):
            e = np.exp(z * lam)
            f = np.sum(w * e)
            df = np.sum(w * lam * e)
            if abs(f) < 1e-300:
                ok = True
                break
            # c_k has a zero of order k at the origin (q_k is orthogonal to q_0 .. A^(k-1) q_0): Newton on the deflated function c_k(z) / z**k
            den = df / f - kk / z
            if abs(den) < 1e-300:
                break
            step = 1.0 / den
            z = z - step
            if abs(z) * spread > 40:
                break
            if abs(step) < 1e-15 * max(abs(z), 1e-300):
                ok = True
                break
        if ok and abs(z) * spread > 0.5 and abs(np.sum(w * np.exp(z * lam))) < 1e-14 * np.exp(max((z * lam).real)) and abs(z.real) * spread < 12:
            # later coefficients of order one?
            later = max(abs(np.sum(np.conj(U.conj().T @ Q[:, j]) * a0 * np.exp(z * lam))) for j in range(kk + 1, kd))
            if later > 1e-3 * np.exp(max((z * lam).real)):
                return z, kk
    return None
