#!/venv/bin/python
"""keep_seed.py <name> <srcdir> <property> <caught_by csv> <silent csv or -> <needs...>  -- stores a confirmed seeded change under seeded/<name>/"""
import json, os, shutil, sys
name, src, prop, caught, silent = sys.argv[1:6]
needs = ' '.join(sys.argv[6:])
dst = os.path.join(os.path.dirname(os.path.dirname(os.path.abspath(__file__))), 'seeded', name)
os.makedirs(dst, exist_ok=True)
for f in ('patch.diff', 'demo.py', 'notes.md'):
    if os.path.exists(os.path.join(src, f)):
        shutil.copy(os.path.join(src, f), os.path.join(dst, f))
meta = {
    'breaks_property': prop,
    'origin': 'independent sub-agent given only the property text and a scratch worktree of /repo (no access to /verif)',
    'needs_to_manifest': needs,
    'confirmed_by_me': [
        'tools/try_seed.sh: patch applies to a scratch export of /repo HEAD; demo.py exits 0 on the clean export and non-zero on the patched export',
        'repository test-suite on the patched tree: 53 passed (run by the sub-agent twice; see notes.md)',
    ],
    'checks_run_against_it': {'caught_by (quick tier, exit 1 with VIOLATION)': [c for c in caught.split(',') if c and c != '-'],
                              'silent (property still holds for them)': [c for c in silent.split(',') if c and c != '-']},
}
json.dump(meta, open(os.path.join(dst, 'meta.json'), 'w'), indent=1)
print('kept', dst)
