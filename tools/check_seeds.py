#!/venv/bin/python
"""Runs every seeded change under seeded/ against the checks listed in its meta.json (quick tier, scratch export of /repo HEAD) and
prints a table: which checks fire, which stay silent. Development tool, not a registered check."""
import concurrent.futures, json, os, shutil, subprocess, sys, tempfile

HERE = os.path.dirname(os.path.dirname(os.path.abspath(__file__)))


def run(name):
    d = os.path.join(HERE, 'seeded', name)
    meta = json.load(open(os.path.join(d, 'meta.json')))
    if meta.get('superseded_by_fix'):
        return name, {'superseded': meta['superseded_by_fix']}
    want = meta['checks_run_against_it']['caught_by (quick tier, exit 1 with VIOLATION)']
    silent = meta['checks_run_against_it']['silent (property still holds for them)']
    s = tempfile.mkdtemp(prefix='pvm-seedchk-', dir='/tmp')
    try:
        p = os.path.join(s, 'repo')
        os.makedirs(p)
        subprocess.run('git -C /repo archive HEAD | tar -x -C ' + p, shell=True, check=True)
        r = subprocess.run(['patch', '-p1', '-s', '-i', os.path.join(d, 'patch.diff')], cwd=p, capture_output=True, text=True)
        if r.returncode != 0:
            return name, {'error': 'patch failed'}
        out = {}
        env = dict(os.environ, PYTENET_REPO=p, PVM_EVID_DIR=os.path.join(s, 'e'), PVM_REPLAY_DIR=os.path.join(s, 'r'), OMP_NUM_THREADS='1', OPENBLAS_NUM_THREADS='1')
        for c in want + silent:
            rr = subprocess.run([os.path.join(HERE, 'check'), c, '--tier', 'quick'], env=env, capture_output=True, text=True)
            out[c] = rr.returncode
        return name, {'want': want, 'silent': silent, 'exit': out}
    finally:
        shutil.rmtree(s, ignore_errors=True)


def main():
    names = sorted(os.listdir(os.path.join(HERE, 'seeded')))
    if len(sys.argv) > 1:
        names = [n for n in names if any(n.startswith(a) for a in sys.argv[1:])]
    bad = 0
    with concurrent.futures.ThreadPoolExecutor(5) as ex:
        for name, res in ex.map(run, names):
            if 'superseded' in res:
                print(f'SUPERSEDED {name}: the repository fix {res["superseded"]} removed the code this patch changes'); continue
            if 'error' in res:
                print(f'ERROR   {name}: {res["error"]}'); bad += 1; continue
            ok = all(res['exit'][c] == 1 for c in res['want']) and all(res['exit'][c] == 0 for c in res['silent'])
            bad += not ok
            print(f'{"OK     " if ok else "PROBLEM"} {name:55s} fired={[c for c, e in res["exit"].items() if e == 1]} silent={[c for c, e in res["exit"].items() if e == 0]}'
                  + ('' if ok else f' other={ {c: e for c, e in res["exit"].items() if e not in (0, 1)} }'))
            sys.stdout.flush()
    return 1 if bad else 0


if __name__ == '__main__':
    sys.exit(main())
