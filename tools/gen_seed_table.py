#!/venv/bin/python
"""Regenerates DESIGN.md section 8.7 from seeded/*/meta.json."""
import json, glob, os
rows = []
for d in sorted(glob.glob('/verif/seeded/*')):
    m = json.load(open(d + '/meta.json')); name = os.path.basename(d)
    need = m['needs_to_manifest']
    missed = 'MISSED' in need
    c = m['checks_run_against_it']
    how = ('missed at first; ' + need.split('MISSED by')[1].split(';', 1)[1].strip()) if missed else ('not caught on purpose: ' + need.split('NOT CAUGHT ON PURPOSE:')[1].strip() if 'NOT CAUGHT ON PURPOSE' in need else 'caught at first try')
    rows.append((name, m['breaks_property'], ', '.join(c['caught_by (quick tier, exit 1 with VIOLATION)']), ', '.join(c['silent (property still holds for them)']) or '—', how))
nm = sum(1 for r in rows if r[4].startswith('missed at first'))
np_ = sum(1 for r in rows if r[4].startswith('not caught on purpose'))
txt = "\n### 8.7 Independent seeded changes (`seeded/<name>/`: patch.diff, demo.py, notes.md, meta.json)\n\n"
txt += ("Written by fresh sub-agents that were given only the property text and a scratch worktree of `/repo` (round 1), and in later rounds additionally a one-line\n"
        "description of the earlier changes for the same property with the instruction to find a different, subtler mechanism. Every change was confirmed by me on a\n"
        "scratch export of `/repo` HEAD (`tools/try_seed.sh`): the unedited repository suite passes with it (53 passed), its demonstration fails with it and passes\n"
        f"without it. `tools/check_seeds.py` re-runs all of them against the listed checks. {len(rows)} changes; {len(rows) - nm - np_} were caught by the check of their property at first try; {np_} is deliberately not caught (it needs an input outside the documented contract, see its row);\n"
        f"{nm} were missed and led to the strengthening named in the last column (after which they are caught). `silent` lists checks that were also run and correctly\n"
        "stayed silent because their property still holds under the change.\n\n")
txt += "| seeded change | property | caught by (quick tier) | silent | first try |\n|---|---|---|---|---|\n"
for r in rows:
    txt += f"| `{r[0]}` | {r[1]} | {r[2]} | {r[3]} | {r[4]} |\n"
txt += ("\nLessons that were turned into input classes everywhere they apply: independent dtypes per operand and per site (real / complex / integer / mixed), exact\n"
        "structural zeros and exact dependencies (dead bond indices, duplicated slices, 0/1 matrices, zero rows/columns before informative ones), exactly-zero and\n"
        "tiny (1e-13) next to large (1e7) coefficients with scale-covariant tolerances, exactly-zero states (unreachable sector, disjoint bond), duplicate edges whose\n"
        "count hits structural numbers, repeated calls on the same stateful object, hostile memory layouts (Fortran order, strided and negative-stride views,\n"
        "read-only), calls relying on documented default arguments, long Lanczos runs (m up to 96), id collisions of every kind in `OpGraph.add`; from round 3:\n"
        "histories that change an object IN PLACE between two uses of it (Hamiltonian quench under the same MPO object, edited tensors, edited coefficient arrays,\n"
        "edited chain objects, edited start vectors: stale caches keyed by object identity), results HELD while later calls are made and verified only afterwards\n"
        "(`Ctx.hold`: shared output buffers), hostile operator ids (negative ids -- `hash(-1) == hash(-2)` in CPython --, huge ids, non-zero identity id) and\n"
        "charges from -2..2, defective / highly non-normal matrices for the general Krylov branch, sequences of orthonormalisations with edits in between;\n"
        "from round 4 (15 of 20 missed at first -- the agents were told what the checks explore and asked for triggers outside it): magnitudes far outside the\n"
        "unit range but inside the floating-point range (tensors scaled by exact powers of two up to 2^+-830, matrices up to 1e+-280, chains of hundreds of sites whose\n"
        "norm drifts towards under/overflow; this also exposed defect F9), charges beyond 2^53, values that coincide with internal constants (parameters equal to operator\n"
        "ids, coefficients exactly 1.0, integer parameter grids, round parameter points), exact or approximate symmetry of the DATA (exactly antisymmetric integrals,\n"
        "nearly Hermitian charge blocks), spatial patterns of equal tensors (A-B-A site patterns, impurities), aliasing INSIDE one result (site tensors of a new object\n"
        "sharing one array: single-site edit probe), option values never used internally (non-zero scalar fill of the MPO constructor), counters (more than 100 time steps\n"
        "in one call, many sweeps), arguments beyond a branch cut (|Im dt| > pi), adversarial combinatorial structure (one augmenting path length per Hopcroft-Karp phase),\n"
        "and classes that had been excused too generously (the over-complete-bond class of C09 was split by a structure classifier);\n"
        "from round 5: values that agree to 6..12 digits without being equal (parameters, chain coefficients, edge coefficients, integrals, singular values: anything compared\n"
        "with a tolerance), the SAME object passed for two operands (psi - psi, A @ A, bra is ket), in-place LABEL mutation (zero_qnumbers on a result with charged boundary bonds),\n"
        "single-precision complex and byte-swapped data, labels in narrow integer types and label sequences whose neighbour differences overflow (sortedness tests by np.diff),\n"
        "work arrays above a size threshold (bonds 150..400 on short or saturated chains, matrices 300..700), time arguments tuned by Newton iteration to a ZERO of a Krylov\n"
        "coefficient, consistent graphs no constructor emits (parallel edges with one operator id, arbitrary id / edge-list order, twice-added and flipped graphs), option\n"
        "values in numpy-scalar forms (np.bool_(True), 1, np.str_, np.float64), a positive split tolerance whose last truncation happens to discard nothing, and maps handed to the\n"
        "Krylov routines as reused output buffers / read-only arrays / the argument itself (which exposed defect F10);\n"
        "from round 6 (16 of 20 missed at first): operands that SHARE some of their tensors by reference, tolerances far below machine epsilon with weak spectral tails\n"
        "(the absolute rounding slack of the truncation oracles became relative), 64+ charge sectors, complex-orthogonal data (M^T M = 1 without M^H M = 1: a forgotten\n"
        "conjugation), zero steps / zero time step, chains of 1000+ sites (recursion depth), molecular models at L = 9..15 (per-site caches of 128 entries, code paths for\n"
        "L > 12), graphs whose start node carries a non-zero label, tree nodes with quantum numbers and several trees on one start site, local operators (identity\n"
        "tensors with 1x1 bonds) as operands, charge-diagonal MPOs, empty interior bonds (which exposed defect F11), graded matrices for Arnoldi (the tolerance is now the\n"
        "MGS bound eps*cond itself), and complete manifolds in non-minimal labellings, for which an independent dense reference implementation of the documented integrator\n"
        "(pvm/tdvp_ref.py) decides whether the algorithm itself is exact;\n"
        "from round 7 (9 of 20 missed at first): an operator and a state labelled in DIFFERENT but equally valid gauges (physical labels of the MPO shifted by a constant, or\n"
        "all zero for a charge-diagonal operator: algorithms must take the labels of the state), vectors of 2^10..2^14 entries that are nearly of low rank across a cut\n"
        "(singular-value ratios 1e-8..1e-13 at zero tolerance), every coefficient kind of the build workloads also in the gauge-transform workload (an identically zero\n"
        "antisymmetrised interaction), Hamiltonians with long-range terms around SPECTATOR sites (which also widened known finding C10 to product-reducible Hamiltonians),\n"
        "a tolerance sitting exactly ON a cumulative Schmidt weight in exact arithmetic (ties decided without rounding slack), phase-structured Krylov data (i * real matrix\n"
        "with a real start vector: images alternate between exactly real and exactly imaginary), coefficient callables defined on the activity domain of an edge only,\n"
        "graphs whose augmenting paths / alternating trees are 600..3000 vertices deep (which exposed defect F12), and operator graphs with duplicated path\n"
        "prefixes through identical operator lists whose twin nodes carry equal or different labels;\n"
        "from round 8 (8 of 20 missed at first): MPO tensors assembled from STRUCTURED blocks (zero blocks, c*I + g*X, projectors, shifts: what hand-written automaton-form\n"
        "operators look like, and what random blocks never are), operator bonds that funnel by more than d^2 from one bond to the next and strongly unequal tensor\n"
        "dimensions in the single-step contractions, distinct charges that coincide modulo 2^32 / 2^16 / 2^53 and labels at the limits of their integer type, blocks\n"
        "of extreme aspect ratio (98 x 2) carrying a weak singular value in a generic gauge (local dimension 7..8 for compress), localised real start vectors on maps that\n"
        "are real only on the support of the start vector, accumulation HISTORIES on the edge level with all earlier operands re-verified after every step (an operand\n"
        "adopted by reference is damaged by a later call in which it is not an argument), bounded progress on graphs with deep branching dead ends (which turned a\n"
        "mutant classified as benign into a caught one), and the library's Ising automaton with site-dependent edge activity; re-running all seeds and mutants with\n"
        "VERIF_SEED=1 exposed three catches that depended on the seed (directed workloads: zero-state histories in C02, symmetric sectors / converging runs in C10,\n"
        "charge-diagonal MPOs in C01);\n"
        "from round 9 (13 of 20 missed at first): chain SEGMENTS (MPOs with outer bonds of dimension > 1) as operands, option values of different KINDS (integer dtype\n"
        "with a non-integer scale, real dtype with a complex scale), diagonal bond gauges with a dynamic range of 2^60 (exact powers of two: same object, badly scaled\n"
        "bond basis), calls WITHOUT the write trap next to calls with it (a read-only operand steers the code away from an in-place branch: the trap hid the defect\n"
        "it was meant to catch), label arrays that are monotone with repeats on matrices above a size threshold, spectra moved far from zero (H + c 1) with truncating\n"
        "converged DMRG runs, long-range models also under TDVP conservation, parameters next to a special CONSTANT (1 +- 1e-6) instead of next to each other, strongly\n"
        "decaying long real steps on semi-definite spectra, zero edges (empty operator lists) in operator graphs, subtree OBJECTS reused at different depths of one tree,\n"
        "and very unbalanced bipartite problems (a few vertices against 70000; index pairs coinciding modulo 2^16; lattices of 300..540 sites and the molecular model at\n"
        "L = 18 against structural references beyond the dense reach);\n"
        "from round 10 (11 of 19 missed at first): a real vector times ONE complex number with exactly related parts (1 - 1j: re = -im), operators with bonds of 64..130\n"
        "in every combination of real and complex operands, complex blocks whose entries SQUARED sum to zero (S^x + i S^z: invisible to a 'norm' without the conjugate),\n"
        "labels sitting exactly on the boundary of a narrower integer type with both signs (+-128, +-32768), classical / commuting-term models with few distinct local\n"
        "eigenvalues, product BASIS states embedded in a complete manifold (one-hot tensors: the support of a tensor is not its sector), strongly truncating two-site TDVP\n"
        "with long steps, dead-end nodes in operator graphs, callables that return one reused buffer, augmenting paths through more than 65536 vertices, and scalar\n"
        "functions applied to near-cancelling differences (which exposed defect F13: norm() returned NaN there);\n"
        "from round 11 (a reduced round of 10 properties, 1 missed at first): unrolled automaton graphs are simplified on a copy and compared again (C17); the nine\n"
        "other changes -- non-zero leading labels, empty slices in the sparse matrix form, uncrossed physical legs in the density step, masked initial blocks, a\n"
        "generalised single-input test, a shared adjacency list edited by the cover routine, children sorted in place, a lookup key with the left charge beyond 512\n"
        "tails -- were caught at the first try by classes added in earlier rounds;\n"
        "from round 12 (the other 10 properties, 4 missed at first): Bose-Hubbard with local dimensions 13..200 (occupancies in a narrow integer type), coefficient\n"
        "tensors with exactly vanishing REAL parts, an evolved state EDITED between two TDVP calls so that shape and norm of a tensor are kept but its canonical form is\n"
        "not, and Lanczos runs of 70..110 vectors on a real 160-dimensional problem with an isolated level;\n"
        "from round 13 (a last round in which the agents got ONLY the property text again, no hints about earlier changes; see the rows named `-r13-`): label arrays\n"
        "kept by reference in the constructors, a block-diagonal buffer typed by the first operand, conjugation decided by the dtype of the last site, a fast path\n"
        "for already right-canonical states that reports the norm without dividing it out, a merge condition dropped for the retained node, a unit-coefficient fast\n"
        "path that overwrites parallel edges, a greedy start hiding an off-by-one in the infinite distance, and the others listed in the table were caught at the\n"
        "first try by input classes added in earlier rounds, unless their row says otherwise (14 kept, 1 missed at first: the complete-manifold DMRG workload of C10 now\n"
        "also uses complex Hermitian operators -- a diagonal phase gauge of the built-in models, spectrum unchanged -- with start states of REAL dtype; a C19 candidate\n"
        "was discarded because the repository's own `test_add` fails with it).\n\n"
        "Note on the repository suite: `test_krylov.py::test_eigh_krylov` fails in about 2 % of runs on the unchanged tree (12 of 600 seeded replays of its body, the\n"
        "same number before and after fix `3c1fa1a`): its tolerance on the second Ritz value is statistical. It is unrelated to any change made here.\n")
d = open('/verif/DESIGN.md').read()
i = d.find('\n### 8.7 Independent seeded changes')
if i >= 0:
    d = d[:i]
open('/verif/DESIGN.md', 'w').write(d.rstrip('\n') + '\n' + txt)
print(len(rows), 'seeds,', nm, 'missed at first')
