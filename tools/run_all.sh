#!/bin/sh
# tools/run_all.sh [quick|thorough] [seed...]   -- runs every check, prints one line per check
TIER="${1:-quick}"; shift
SEEDS="${*:-0}"
cd "$(dirname "$0")/.." || exit 2
rc=0
for s in $SEEDS; do
  for p in C01 C02 C03 C04 C05 C06 C07 C08 C09 C10 C11 C12 C13 C14 C15 C16 C17 C18 C19 C20; do
    out=$(VERIF_SEED=$s ./check $p --tier "$TIER" 2>&1); code=$?
    echo "$out" | grep -E "^(VIOLATION|INCONCLUSIVE)" | head -3
    echo "$out" | tail -1
    [ $code -ne 0 ] && rc=1
  done
done
exit $rc
