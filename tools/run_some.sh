#!/bin/sh
# tools/run_some.sh <tier> <seed> <check ids...>   -- like run_all.sh for a subset of the checks
TIER="$1"; SEED="$2"; shift 2
cd "$(dirname "$0")/.." || exit 2
rc=0
for p in "$@"; do
  out=$(VERIF_SEED=$SEED ./check $p --tier "$TIER" 2>&1); code=$?
  echo "$out" | grep -E "^(VIOLATION|INCONCLUSIVE)" | head -3
  echo "$out" | tail -1
  [ $code -ne 0 ] && rc=1
done
exit $rc
