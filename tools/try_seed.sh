#!/bin/sh
# tools/try_seed.sh <dir with patch.diff and demo.py> [--tests] <check ids...>
# Applies the patch to a scratch copy of /repo (outside /repo and /verif), confirms the demonstration fails with it and passes without,
# optionally runs the repository test suite on the patched copy, then runs the given checks (quick tier) against the patched copy.
D="$1"; shift
TESTS=0; if [ "$1" = "--tests" ]; then TESTS=1; shift; fi
S=$(mktemp -d /tmp/pvm-seed-XXXXXX)
export OMP_NUM_THREADS=1 OPENBLAS_NUM_THREADS=1 MKL_NUM_THREADS=1
mkdir -p "$S/clean" "$S/patched"
(cd /repo && git archive HEAD) | tar -x -C "$S/clean"
(cd /repo && git archive HEAD) | tar -x -C "$S/patched"
(cd "$S/patched" && patch -p1 -s < "$D/patch.diff") || { echo "PATCH FAILED"; rm -rf "$S"; exit 3; }
(cd "$S/clean" && PYTHONPATH="$S/clean" /venv/bin/python -B "$D/demo.py" >/dev/null 2>&1); echo "demo on clean tree: exit $? (want 0)"
(cd "$S/patched" && PYTHONPATH="$S/patched" /venv/bin/python -B "$D/demo.py" >/dev/null 2>&1); echo "demo on patched tree: exit $? (want non-zero)"
if [ $TESTS = 1 ]; then
  (cd "$S/patched" && PYTHONPATH="$S/patched" /venv/bin/python -m pytest -q -p no:cacheprovider 2>&1 | tail -1)
fi
for c in "$@"; do
  out=$(PYTENET_REPO="$S/patched" PVM_EVID_DIR="$S/evid" PVM_REPLAY_DIR="$S/replays" /verif/check "$c" --tier quick 2>&1); code=$?
  echo "check $c on patched tree: exit $code"; echo "$out" | grep -m2 "^VIOLATION" | cut -c1-260
done
rm -rf "$S"
