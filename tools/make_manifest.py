#!/venv/bin/python
"""Regenerates MANIFEST.json from the table below (claimed = property modules that exist)."""
import json
import os

HERE = os.path.dirname(os.path.dirname(os.path.abspath(__file__)))

T = {
 'C01': ('POST+REF monitor on MPS/MPO.orthonormalize: dense before/after, isometry, norm factor', '4-C01'),
 'C02': ('HIST: class invariant + shadow dense model after every step of generated API histories', '4-C02'),
 'C03': ('REF monitor: dense linear algebra on independently contracted operands', '4-C03'),
 'C04': ('REF monitor: dense inner products, independent environment recursion, projection identity', '4-C04'),
 'C05': ('REF monitor: free-algebra polynomial of graph vs padded chains, exhaustive small scope', '4-C05'),
 'C06': ('REF monitor: dense textbook Hamiltonians incl. Fock-space reference and CAR oracle', '4-C06'),
 'C07': ('REF monitor: Fock-space reference for both build paths, gauge-transform oracle', '4-C07'),
 'C08': ('TRACE monitor on TDVP sub-steps: norm/energy conservation at every trace point', '4-C08'),
 'C09': ('REF monitor: dense expm reference by manifold class; reversibility', '4-C09'),
 'C10': ('TRACE monitor on local Ritz values + REF dense eigenvalues', '4-C10'),
 'C11': ('POST monitor on block QR, exhaustive charge vectors for small shapes, in situ', '4-C11'),
 'C12': ('POST+REF monitor on SVD split; exact-arithmetic threshold family', '4-C12'),
 'C13': ('POST+REF monitor on compress/from_vector: error identity and bounds', '4-C13'),
 'C14': ('POST monitor on Lanczos/Arnoldi relations with conditioning classifier', '4-C14'),
 'C15': ('POST+REF monitor on Ritz values / Krylov exponential vs dense eigh/expm', '4-C15'),
 'C16': ('REF monitor: polynomial invariance under rewrites, HIST over rewrite sequences, step budget', '4-C16'),
 'C17': ('REF monitor: polynomial of trees/automata by own DP; dense meanings', '4-C17'),
 'C18': ('POST+REF monitor: exhaustive small bipartite graphs vs brute force, Kuhn reference, step budget', '4-C18'),
 'C19': ('GUARD: deep digests, write-protection traps, alias scan, mutate-result probe', '4-C19'),
 'C20': ('REF monitor: bond dimensions vs numerical operator Schmidt ranks', '4-C20'),
}

LEVEL_TEXT = ('Runtime monitoring: the real functions are executed on seeded hostile workloads (plus complete enumeration of the small '
              'finite scopes named in the evidence) while monitors attached from /verif compare every call against an independent '
              'oracle. Held means: held on the executions counted in the evidence file, not proved.')


def main():
    checks = []
    na = []
    for pid, (tech, ref) in T.items():
        if os.path.exists(os.path.join(HERE, 'pvm', 'props', pid.lower() + '.py')):
            checks.append({
                'property_id': pid,
                'quick_cmd': f'./check {pid} --tier quick',
                'thorough_cmd': f'./check {pid} --tier thorough',
                'evidence_file': f'evidence/{pid}.json',
                'replay_cmd_template': f'./check {pid} --replay {{path}}',
                'engine': 'pvm',
                'level_claimed': {'category': 'exploration', 'text': LEVEL_TEXT, 'design_ref': 'DESIGN.md section ' + ref},
                'level_note': 'Trusted base: NumPy/SciPy dense linear algebra and the reference models in pvm/refs.py (self-tested by setup_cmd).',
                'technique': tech,
            })
        else:
            na.append({'property_id': pid, 'reason': 'check not built yet in this revision (planned, see DESIGN.md); not claimed'})
    man = {
        'version': 1,
        'setup_cmd': '/venv/bin/python -B -m pvm.selfcheck',
        'hooks': {
            'guard': 'PYTENET_VERIF',
            'enable': 'none needed: monitors are attached from /verif at run time by rebinding module/class attributes of the package imported from /repo\'s working tree; no source hooks exist in /repo',
            'baseline_off_cmd': 'cd /repo && /venv/bin/python -m pytest -ra -q -p no:cacheprovider --timeout=900 --continue-on-collection-errors',
            'source_commits': [],
            'add_only': True,
        },
        'engines': [{'name': 'pvm', 'path': 'pvm/', 'serves_properties': [c['property_id'] for c in checks],
                     'kind_free_text': 'runtime monitors (pre/post-conditions, reference models, trace and history checkers, guards) over seeded workloads'}],
        'checks': checks,
        'not_applicable': na,
        'notes': 'Exit codes: 0 held on everything monitored, 1 violation (VIOLATION line with replay file), 2 inconclusive. Known findings: known_findings.json.',
    }
    with open(os.path.join(HERE, 'MANIFEST.json'), 'w') as f:
        json.dump(man, f, indent=1)
    print(f'{len(checks)} claimed, {len(na)} not claimed')


if __name__ == '__main__':
    main()
