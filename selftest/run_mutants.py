#!/venv/bin/python
"""
Mutation self-test (not a registered check): for every mutant in selftest/mutants.json copy the repository
to a scratch directory outside /repo and /verif, apply the textual replacement, run the named checks' quick
tier against the copy (PYTENET_REPO) and report whether they fire; optionally run the repository tests that
touch the file to confirm the break is invisible to the suite. The scratch copy is removed afterwards.

usage: run_mutants.py [--only NAME[,NAME]] [--tests] [--checks C01,C02] [--jobs N]
"""
import argparse
import concurrent.futures
import json
import os
import shutil
import subprocess
import sys
import tempfile

HERE = os.path.dirname(os.path.abspath(__file__))
VERIF = os.path.dirname(HERE)
REPO = os.environ.get('PYTENET_REPO_SRC', '/repo')


def run_one(m, args):
    scratch = tempfile.mkdtemp(prefix='pvm-mut-', dir='/tmp')
    try:
        dst = os.path.join(scratch, 'repo')
        shutil.copytree(REPO, dst, ignore=shutil.ignore_patterns('.git', '__pycache__', 'paper', 'doc', 'experiments'))
        for ed in m['edits']:
            p = os.path.join(dst, ed['file'])
            s = open(p).read()
            if s.count(ed['old']) != 1:
                return m['name'], {'error': f"pattern occurs {s.count(ed['old'])}x in {ed['file']}"}
            open(p, 'w').write(s.replace(ed['old'], ed['new']))
        res = {}
        if args.tests:
            r = subprocess.run(['/venv/bin/python', '-m', 'pytest', '-q', '-x', '-p', 'no:cacheprovider'] + m.get('tests', []),
                               cwd=dst, capture_output=True, text=True, timeout=1800)
            res['tests_pass'] = (r.returncode == 0)
            res['tests_tail'] = r.stdout.strip().splitlines()[-1:] if r.stdout else []
        checks = args.checks.split(',') if args.checks else (m['expect'] or m.get('run', []))
        for c in checks:
            env = dict(os.environ, PYTENET_REPO=dst, PVM_EVID_DIR=os.path.join(scratch, 'evid'), PVM_REPLAY_DIR=os.path.join(scratch, 'replays'))
            r = subprocess.run([os.path.join(VERIF, 'check'), c, '--tier', 'quick'], capture_output=True, text=True, env=env, timeout=3600)
            first = [l for l in r.stdout.splitlines() if l.startswith('VIOLATION')][:1]
            res[c] = {'exit': r.returncode, 'first': first[0][:230] if first else (r.stdout.strip().splitlines()[-1:] + r.stderr.strip().splitlines()[-2:])}
        return m['name'], res
    finally:
        shutil.rmtree(scratch, ignore_errors=True)


def main():
    ap = argparse.ArgumentParser()
    ap.add_argument('--only', default=None)
    ap.add_argument('--tests', action='store_true')
    ap.add_argument('--checks', default=None)
    ap.add_argument('--jobs', type=int, default=8)
    ap.add_argument('--file', default=os.path.join(HERE, 'mutants.json'))
    args = ap.parse_args()
    muts = json.load(open(args.file))
    if args.only:
        names = args.only.split(',')
        muts = [m for m in muts if m['name'] in names or any(m['name'].startswith(n) for n in names)]
    bad = 0
    with concurrent.futures.ThreadPoolExecutor(args.jobs) as ex:
        for name, res in ex.map(lambda m: run_one(m, args), muts):
            m = next(x for x in muts if x['name'] == name)
            caught = [c for c in res if isinstance(res[c], dict) and res[c].get('exit') == 1]
            missed = [c for c in m['expect'] if c in res and res[c].get('exit') != 1]
            status = 'CAUGHT' if not missed and 'error' not in res else 'MISSED'
            if m.get('benign'):
                status = 'FALSE-ALARM' if caught else 'SILENT-OK'
            if status in ('MISSED', 'FALSE-ALARM'):
                bad += 1
            print(f'{status:7s} {name:40s} caught_by={caught} missed={missed} '
                  + (f"tests_pass={res.get('tests_pass')} " if args.tests else '') + (res.get('error', '')))
            for c in res:
                if isinstance(res[c], dict) and 'first' in res[c]:
                    print(f'         {c}: exit={res[c]["exit"]} {res[c]["first"]}')
            sys.stdout.flush()
    return 1 if bad else 0


if __name__ == '__main__':
    sys.exit(main())
