import numpy as np, warnings
import pytenet as ptn
rng=np.random.default_rng(1)
z=np.array([0,0])
A = np.array([[1,2],[3,4]]); 
Q,R,qi = ptn.qr(A,z,z); print("qr int", Q.dtype, np.abs(Q@R-A).max())
u,s,v,qi = ptn.split_matrix_svd(A,z,z,0.0); print("svd int", u.dtype, np.abs((u*s)@v-A).max())
o = ptn.MPO([0,1],[[0],[0,1,-1],[0]], fill=2)
M0 = o.as_matrix().astype(float)
nrm = o.orthonormalize('left'); print("mpo int", nrm, np.linalg.norm(M0), np.linalg.norm(nrm*o.as_matrix()-M0))
m = ptn.MPS([0,1],[[0],[0,1],[0,1,2],[1]], fill=1.0)
v0=m.as_vector(); nrm=m.orthonormalize('left'); print("float orth err", np.linalg.norm(nrm*m.as_vector()-v0))
# compress int
m = ptn.MPS([0,1],[[0],[0,1],[0,1,2],[1]], fill=1)
v0=m.as_vector().astype(float)
try:
    r=m.compress(0.0); print("compress int", r, np.linalg.norm(r[0]*r[1]*m.as_vector()-v0))
except Exception as e: print("compress int EXC", type(e).__name__, e)
# add int + apply
a = ptn.MPS([0,1],[[0],[0,1],[1]], fill=1); b = ptn.MPS([0,1],[[0],[0,1],[1]], fill=2)
print("add int", (a+b).as_vector(), (a-b).as_vector())
print("vdot int", ptn.vdot(a,b), ptn.norm(a))
# float32?
A = rng.normal(size=(4,3)).astype(np.float32)
Q,R,qi = ptn.qr(A,np.zeros(4,int),np.zeros(3,int)); print("qr f32", Q.dtype, np.abs(Q@R-A).max())
# eigh_tridiagonal size 1
from scipy.linalg import eigh_tridiagonal
print(eigh_tridiagonal(np.array([2.0]), np.array([])))
# lanczos m>n
for n in [1,2,3,5,8]:
    for trial in range(200):
        Am = rng.normal(size=(n,n)) + 1j*rng.normal(size=(n,n)); Am = Am+Am.conj().T
        v = rng.normal(size=n)+1j*rng.normal(size=n)
        with warnings.catch_warnings():
            warnings.simplefilter("ignore")
            al,be,V = ptn.lanczos_iteration(lambda x: Am@x, v, n+5)
        if len(al) > n:
            print("n",n,"lanczos returned", len(al), "betas", be)
            break
print("done lanczos")
