import numpy as np, pytenet as ptn
for mode in ('left','right'):
    m = ptn.MPS([0,1],[[0],[0,1],[0,1,2],[1]], fill=1); v0=m.as_vector().astype(float)
    nrm=m.orthonormalize(mode); print("int orth",mode,nrm,np.linalg.norm(nrm*m.as_vector()-v0))
    m = ptn.MPS([0,1],[[0],[0,1],[0,1,2],[1]], fill=1); r=m.compress(0.0,mode); print("int compress",r,np.linalg.norm(r[0]*r[1]*m.as_vector()-v0))
o = ptn.MPO([0,1],[[0],[0,1,-1],[0]], fill=2); M0=o.as_matrix().astype(float); nrm=o.orthonormalize('left'); print("mpo int",nrm,np.linalg.norm(nrm*o.as_matrix()-M0))
rng=np.random.default_rng(0)
m=ptn.MPS.from_vector(2,4,rng.normal(size=16)); print([type(q).__name__ for q in m.qD], m.orthonormalize(), m.compress(0.01), (m+m).bond_dims, m.zero_qnumbers().bond_dims)
# spin mol explicit L=5 vs opt
L=5; t=rng.normal(size=(L,L)); v=rng.normal(size=(L,L,L,L))
a=ptn.spin_molecular_hamiltonian_mpo(t,v,False); b=ptn.spin_molecular_hamiltonian_mpo(t,v,True)
d=a.as_matrix(True)-b.as_matrix(True); print("spin L=5 explicit vs opt",abs(d).max(), a.bond_dims, b.bond_dims)
# xxz L=1, L=2 J=0
import itertools
print(ptn.heisenberg_xxz_mpo(1,1.0,0.5,0.3).as_matrix().real, ptn.heisenberg_xxz_mpo(2,0,0.7,0).as_matrix().real.diagonal())
print(ptn.molecular_hamiltonian_mpo([[0.3]],[[[[0.9]]]]).as_matrix().real)
