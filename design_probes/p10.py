import numpy as np, warnings
import pytenet as ptn
from scipy.linalg import expm
warnings.simplefilter("ignore")
rng=np.random.default_rng(19)
def stats(n,m,kind):
    if kind=='gauss':
        A=rng.normal(size=(n,n))+1j*rng.normal(size=(n,n)); A=(A+A.conj().T)/np.sqrt(n)
    elif kind=='degenerate':
        U=np.linalg.qr(rng.normal(size=(n,n))+1j*rng.normal(size=(n,n)))[0]
        ev=rng.integers(-2,3,size=n).astype(float); A=(U*ev)@U.conj().T; A=(A+A.conj().T)/2
    elif kind=='real':
        A=rng.normal(size=(n,n)); A=(A+A.T)/np.sqrt(n)
    v=rng.normal(size=n)+1j*rng.normal(size=n)
    al,be,V=ptn.lanczos_iteration(lambda x:A@x,v,m)
    k=len(al)
    orth=np.abs(V.conj().T@V-np.eye(k)).max()
    T=np.diag(al)+np.diag(be,1)+np.diag(be,-1)
    rel=np.abs(V.conj().T@A@V-T).max()
    return k,orth,rel,(be.min() if len(be) else 1)
for kind in ['gauss','real','degenerate']:
  for (n,m) in [(4,4),(8,8),(16,16),(32,32),(64,64),(64,20),(200,24),(200,60),(30,10)]:
    res=[stats(n,m,kind) for _ in range(30)]
    print(kind,n,m,"k",sorted(set(r[0] for r in res)),"orth max %.1e"%max(r[1] for r in res),"rel max %.1e"%max(r[2] for r in res),"min beta %.1e"%min(r[3] for r in res))
