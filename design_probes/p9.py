import numpy as np, warnings, copy, itertools, traceback, collections
import pytenet as ptn
warnings.simplefilter("ignore")
rng=np.random.default_rng(17)
def graph_poly(g):
    # DP from start terminal
    polys={g.nid_terminal[0]:{():1.0}}
    layer=[g.nid_terminal[0]]
    res=None
    seen=set()
    while layer:
        nxt=[]
        newp=collections.defaultdict(dict)
        for nid in layer:
            for eid in g.nodes[nid].eids[1]:
                e=g.edges[eid]
                tgt=e.nids[1]
                for w,c in polys[nid].items():
                    for oid,co in e.opics:
                        k=w+(int(oid),)
                        newp[tgt][k]=newp[tgt].get(k,0)+c*co
                if tgt not in nxt: nxt.append(tgt)
        for k,v in newp.items(): polys[k]=v
        layer=nxt
    return {w:c for w,c in polys[g.nid_terminal[1]].items() if c!=0}
def chains_poly(chains,L,oid_id):
    p={}
    for ch in chains:
        w=tuple([oid_id]*ch.istart+[int(o) for o in ch.oids]+[oid_id]*(L-ch.istart-len(ch.oids)))
        p[w]=p.get(w,0)+ch.coeff
    return {w:c for w,c in p.items() if c!=0}
fails=collections.Counter(); ok=0
for trial in range(4000):
    L=int(rng.integers(1,6)); nops=int(rng.integers(1,4)); nch=int(rng.integers(1,8))
    chains=[]
    for _ in range(nch):
        ln=int(rng.integers(1,L+1)); ist=int(rng.integers(0,L-ln+1))
        oids=[int(x) for x in rng.integers(0,nops+1,size=ln)]
        # qnums: random walk with ends zero
        if rng.random()<0.5: qn=[0]*(ln+1)
        else:
            qn=[0]+[int(x) for x in rng.integers(-1,2,size=ln-1)]+[0]
        co=float(rng.choice([-2,-1,-0.5,0.5,1,2,0.25,0]))
        chains.append(ptn.OpChain(oids,qn,co,ist))
    if rng.random()<0.3 and chains: chains.append(copy.deepcopy(chains[0]))
    if rng.random()<0.2 and chains:
        c=copy.deepcopy(chains[0]); c.coeff=-c.coeff; chains.append(c)
    if not any(c.coeff!=0 for c in chains): continue
    ref=chains_poly(chains,L,0)
    try:
        g=ptn.OpGraph.from_opchains(chains,L,0)
    except AssertionError as e:
        tb=traceback.extract_tb(e.__traceback__)[-1]
        fails[("Assert",tb.lineno, len(ref))]+=1; continue
    except Exception as e:
        fails[(type(e).__name__,str(e)[:50])]+=1; continue
    p=graph_poly(g)
    if p!=ref:
        fails["MISMATCH"]+=1
        if fails["MISMATCH"]<3: print("MISMATCH",[(c.oids,c.qnums,c.coeff,c.istart) for c in chains],L,p,ref)
    else: ok+=1
print(ok,fails)
