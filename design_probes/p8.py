import numpy as np, warnings, copy, itertools, traceback
import pytenet as ptn
warnings.simplefilter("ignore")
rng=np.random.default_rng(13)
def dense_mps(A):
    v=np.ones((1,1),dtype=complex)  # (phys, bond)
    for T in A:
        v=np.einsum('pa,sab->psb',v,T).reshape(-1,T.shape[2])
    return v.reshape(-1) if v.shape[1]==1 else v
def rand_mps(d,L,Dmax,rng,qr=2,dtype='c',same_ends=None):
    qd=rng.integers(-qr,qr+1,size=d)
    qD=[rng.integers(-qr,qr+1,size=1)]+[rng.integers(-qr,qr+1,size=rng.integers(1,Dmax+1)) for _ in range(L-1)]+[rng.integers(-qr,qr+1,size=1)]
    if same_ends is not None: qD[0]=same_ends[0].copy(); qD[-1]=same_ends[1].copy()
    m=ptn.MPS(qd,qD,fill='random',rng=rng)
    if dtype=='r': m.A=[a.real.copy() for a in m.A]
    return m
bad=0; nz=0
W={}
def upd(k,v): W[k]=max(W.get(k,-1e9),float(v))
for trial in range(3000):
    d=int(rng.integers(1,4)); L=int(rng.integers(1,6)); 
    m=rand_mps(d,L,5,rng,qr=int(rng.integers(0,3)),dtype=rng.choice(['c','r']))
    v0=dense_mps(m.A); n0=np.linalg.norm(v0)
    mode=rng.choice(['left','right'])
    tol=float(rng.choice([0,1e-3,0.01,0.05,0.1]))/max(L,1)
    try:
        if n0==0:
            nrm=m.orthonormalize(mode); upd('zero_nrm',abs(nrm)); continue
        nz+=1
        D0=m.bond_dims
        nrm,scale=m.compress(tol,mode)
        v1=dense_mps(m.A)
        upd('nrm',abs(nrm-n0)/n0); upd('norm1',abs(np.linalg.norm(v1)-1))
        err=np.linalg.norm(nrm*scale*v1-v0)/n0
        upd('errid',abs(err-np.sqrt(max(0,1-scale**2)))) 
        upd('bound',err-np.sqrt(L*tol))
        upd('scale_lo',np.sqrt(max(0,1-L*tol))-scale); upd('scale_hi',scale-1)
        assert all(a<=b for a,b in zip(m.bond_dims,D0))
    except Exception as e:
        bad+=1
        if bad<6: print("EXC",type(e).__name__,e,d,L,mode,tol,n0); traceback.print_exc(limit=3)
print("nonzero",nz,"bad",bad)
for k in sorted(W): print(k,"%.2e"%W[k])
