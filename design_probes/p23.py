import numpy as np, warnings, itertools, collections, time, functools
import pytenet as ptn
warnings.simplefilter("ignore")
# ---- C18 exhaustive vs brute force
def max_matching_bits(adj_masks, nv):
    @functools.lru_cache(None)
    def rec(u,used):
        if u==len(adj_masks): return 0
        best=rec(u+1,used)
        free=adj_masks[u]&~used
        while free:
            b=free&-free; free^=b
            best=max(best,1+rec(u+1,used|b))
        return best
    return rec(0,0)
t0=time.time(); n=0; bad=0
for (U,V) in [(1,1),(2,3),(3,3),(3,4),(4,3),(4,4)]:
    for mask in range(1<<(U*V)):
        edges=[(i//V,i%V) for i in range(U*V) if mask>>i&1]
        g=ptn.BipartiteGraph(U,V,edges)
        mt=ptn.HopcroftKarp(g)()
        uc,vc=ptn.minimum_vertex_cover(g)
        adj=tuple(sum(1<<v for (u2,v) in edges if u2==u) for u in range(U))
        mm=max_matching_bits(adj,V)
        es=set(edges)
        ok=len(mt)==mm and all(e in es for e in mt) and len(set(u for u,_ in mt))==len(mt) and len(set(v for _,v in mt))==len(mt)
        ok&= len(uc)+len(vc)==mm and all((u in uc) or (v in vc) for u,v in edges) and all(0<=u<U for u in uc) and all(0<=v<V for v in vc)
        n+=1; bad+=not ok
print("C18 exhaustive",n,"graphs bad",bad,"%.1fs"%(time.time()-t0))
# ---- C01 hostile
rng=np.random.default_rng(67)
def dense(A):
    v=np.ones((1,1),dtype=complex)
    for T in A: v=np.einsum('pa,sab->psb',v,T).reshape(-1,T.shape[2])
    return v.reshape(-1)
def dense_op(A):
    M=np.ones((1,1,1),dtype=complex)
    for T in A: 
        M=np.einsum('xya,stab->xsytb',M,T); s=M.shape; M=M.reshape(s[0]*s[1],s[2]*s[3],s[4])
    return M[:,:,0]
W=collections.defaultdict(float); cnt=collections.Counter()
for t in range(3000):
    cls=rng.choice(['mps','mpo'],p=[.7,.3]); mode=rng.choice(['left','right'])
    L=int(rng.integers(1,6 if cls=='mps' else 4)); d=int(rng.integers(1,4 if cls=='mps' else 3))
    lay=rng.choice(['zero','random','sorted','disjoint','wide'])
    r={'zero':0,'random':2,'sorted':2,'disjoint':1,'wide':5}[lay]
    qd=rng.integers(-r,r+1,size=d)
    Ds=[1]+[int(rng.integers(1,9)) for _ in range(L-1)]+[1]
    qD=[rng.integers(-r,r+1,size=D) for D in Ds]
    if lay=='sorted': qD=[np.sort(q) for q in qD]; qd=np.sort(qd)
    if lay=='disjoint' and L>1: qD[1]=qD[1]+100
    obj=(ptn.MPS if cls=='mps' else ptn.MPO)(qd,qD,fill='random',rng=rng)
    dt=rng.choice(['c','r','f32'])
    if dt=='r': obj.A=[a.real.copy() for a in obj.A]
    if dt=='f32': obj.A=[a.real.astype(np.float32) for a in obj.A]
    dn=dense if cls=='mps' else dense_op
    v0=dn(obj.A); n0=np.linalg.norm(v0); D0=obj.bond_dims
    f=obj.orthonormalize(mode); v1=dn(obj.A)
    tol=1e-10 if dt!='f32' else 2e-5
    ok= f>=0 and abs(f-n0)<=tol*max(1,n0) and np.linalg.norm(f*v1-v0)<=tol*max(1,n0)
    if n0>0: ok&= abs(np.linalg.norm(v1)-1)<=tol
    W[dt+'_rec']=max(W[dt+'_rec'],np.linalg.norm(f*v1-v0)/max(1,n0))
    for i,a in enumerate(obj.A):
        if cls=='mps': M=a.reshape(-1,a.shape[2]) if mode=='left' else a.transpose(0,2,1).reshape(-1,a.shape[1])
        else: M=a.reshape(-1,a.shape[3]) if mode=='left' else a.transpose(0,1,3,2).reshape(-1,a.shape[2])
        ok&= np.abs(M.conj().T@M-np.eye(M.shape[1])).max()<=tol
    D1=obj.bond_dims; dd=d if cls=='mps' else d*d
    if mode=='left': ok&= all(D1[i+1]<=min(dd*D1[i],D0[i+1]) for i in range(L))
    else: ok&= all(D1[i]<=min(dd*D1[i+1],D0[i]) for i in range(L))
    cnt[(cls,lay,'zero' if n0==0 else 'nz')]+=1
    if not ok: cnt['BAD']+=1; print("BAD",cls,mode,L,d,lay,dt,n0,f,D0,D1)
print({k:v for k,v in cnt.items() if k=='BAD'}, len(cnt),"classes", dict(W))
