# history smoke: chained public operations with invariant + shadow dense model on the unchanged tree
import numpy as np, warnings, copy, collections, traceback
import pytenet as ptn
warnings.simplefilter("ignore")
def dense(A):
    v=np.ones((1,1),dtype=complex)
    for T in A: v=np.einsum('pa,sab->psb',v,T).reshape(-1,T.shape[2])
    return v.reshape(-1)
def sector_ok(T,qs,signs):
    idx=np.nonzero(T)
    tot=0
    for ax,(q,s) in enumerate(zip(qs,signs)): tot=tot+s*np.asarray(q)[idx[ax]]
    return not np.any(tot)
def inv(m):
    assert isinstance(m.qd,np.ndarray) and np.issubdtype(m.qd.dtype,np.integer),("qd",type(m.qd))
    assert len(m.qD)==m.nsites+1
    for i,q in enumerate(m.qD):
        assert isinstance(q,np.ndarray) and np.issubdtype(q.dtype,np.integer) and q.ndim==1,("qD",i,type(q),getattr(q,'dtype',None))
    for i,a in enumerate(m.A):
        assert a.ndim==3 and a.shape==(len(m.qd),len(m.qD[i]),len(m.qD[i+1])),("shape",i,a.shape,[len(x) for x in m.qD])
        assert sector_ok(a,[m.qd,m.qD[i],m.qD[i+1]],[1,1,-1]),("sector",i)
    assert len(m.qD[0])==1 and len(m.qD[-1])==1
stats=collections.Counter(); exc=collections.Counter()
models={'xxz':lambda L:ptn.heisenberg_xxz_mpo(L,0.7,1.3,0.4),'bose':lambda L:ptn.bose_hubbard_mpo(3,L,0.7,1.3,0.4),'fermi':lambda L:ptn.fermi_hubbard_mpo(L,0.7,1.3,0.4),'ising':lambda L:ptn.ising_mpo(L,0.7,1.3,0.4),'xxz1':lambda L:ptn.heisenberg_xxz_spin1_mpo(L,0.7,1.3,0.4)}
for seed in range(400):
    rng=np.random.default_rng(seed)
    name=rng.choice(list(models)); L=int(rng.integers(2,5 if name in('fermi',) else 6))
    H=models[name](L); qd=H.qd
    def rand_state():
        qD=[np.array([0])]
        for i in range(L-1):
            allq=np.unique(np.add.outer(qD[-1],qd).reshape(-1))
            qD.append(rng.choice(allq,size=int(rng.integers(1,6))))
        # pick reachable total
        allq=np.unique(np.add.outer(qD[-1],qd).reshape(-1)); qD.append(np.array([int(rng.choice(allq))]))
        return ptn.MPS(qd,qD,fill='random',rng=rng)
    tot=None
    pool=[rand_state()]
    tot=pool[0].qD[-1].copy()
    hist=[]
    try:
        for step in range(int(rng.integers(3,12))):
            psi=pool[int(rng.integers(0,len(pool)))]
            nz=np.linalg.norm(dense(psi.A))>1e-12
            op=rng.choice(['orthL','orthR','compress','add','sub','apply','tdvp1','tdvp2','dmrg1','dmrg2','new','zeroq'],p=[.1,.1,.12,.1,.08,.08,.1,.1,.07,.07,.06,.02])
            hist.append(op)
            v0=dense(psi.A); ends=(psi.qD[0].copy(),psi.qD[-1].copy())
            if op=='orthL' or op=='orthR':
                n=psi.orthonormalize('left' if op=='orthL' else 'right'); assert abs(n-np.linalg.norm(v0))<1e-9*max(1,n); assert np.linalg.norm(n*dense(psi.A)-v0)<1e-9*max(1,n)
            elif op=='compress':
                if not nz: continue
                tol=float(rng.choice([0,1e-3,0.02])); n,sc=psi.compress(tol,rng.choice(['left','right']))
                if tol==0: assert np.linalg.norm(n*sc*dense(psi.A)-v0)<1e-9*max(1,n)
            elif op in('add','sub'):
                other=pool[int(rng.integers(0,len(pool)))]
                if not (np.array_equal(other.qD[0],psi.qD[0]) and np.array_equal(other.qD[-1],psi.qD[-1]) and np.array_equal(other.qd,psi.qd)): continue
                r=psi+other if op=='add' else psi-other
                assert np.linalg.norm(dense(r.A)-(v0+dense(other.A) if op=='add' else v0-dense(other.A)))<1e-9
                if sum(r.bond_dims)<60: pool.append(r)
            elif op=='apply':
                if not np.array_equal(psi.qd,H.qd): continue
                r=ptn.apply_operator(H,psi); assert np.linalg.norm(dense(r.A)-H.as_matrix()@v0)<1e-9*max(1,np.linalg.norm(v0))
                if sum(r.bond_dims)<60: pool.append(r)
            elif op in('tdvp1','tdvp2','dmrg1','dmrg2'):
                if not nz or not np.array_equal(psi.qd,H.qd) or sum(psi.bond_dims)>80: continue
                if op=='tdvp1': ptn.integrate_local_singlesite(H,psi,0.1j,1,numiter_lanczos=4)
                elif op=='tdvp2': ptn.integrate_local_twosite(H,psi,0.1j,1,numiter_lanczos=4,tol_split=float(rng.choice([0,1e-6])))
                elif op=='dmrg1': ptn.calculate_ground_state_local_singlesite(H,psi,1,numiter_lanczos=4)
                else: ptn.calculate_ground_state_local_twosite(H,psi,1,numiter_lanczos=4,tol_split=float(rng.choice([0,1e-6])))
            elif op=='new': pool.append(rand_state())
            elif op=='zeroq':
                # zero_qnumbers on a copy of everything incl. H is a global change; do it on a copy only
                c=copy.deepcopy(psi); c.zero_qnumbers(); inv(c); continue
            for m in pool: inv(m)
            if op in('orthL','orthR','compress','tdvp1','tdvp2','dmrg1','dmrg2') and nz:
                assert np.array_equal(psi.qD[0],ends[0]) and np.array_equal(psi.qD[-1],ends[1]),("ends changed",op)
            stats[op]+=1
        stats['hist_ok']+=1
    except Exception as e:
        tb=traceback.extract_tb(e.__traceback__)
        loc=[(f.filename.split('/')[-1],f.lineno) for f in tb if 'pytenet' in f.filename][-1:] 
        key=(type(e).__name__,str(e)[:60],tuple(loc),hist[-1])
        exc[key]+=1
        if exc[key]==1: print("EXC seed",seed,name,L,hist); traceback.print_exc(limit=6)
print(stats); print(exc)
