import numpy as np, warnings, copy, collections
from scipy.linalg import expm
import pytenet as ptn
warnings.simplefilter("ignore")
rng=np.random.default_rng(73)
def dense(A):
    v=np.ones((1,1),dtype=complex)
    for T in A: v=np.einsum('pa,sab->psb',v,T).reshape(-1,T.shape[2])
    return v.reshape(-1)
cnt=collections.Counter(); W=collections.defaultdict(float)
# ---- C13: threshold spectra, first truncated bond, from_vector bound
def kept_count(sig,tol):
    w=sig**2/np.sum(sig**2); order=np.argsort(w); cs=np.cumsum(w[order]); return int((cs>tol).sum())
for t in range(1500):
    d=int(rng.integers(2,4)); L=int(rng.integers(2,7 if d==2 else 5)); mode=rng.choice(['left','right'])
    useq=rng.random()<.5
    qd=rng.integers(-1,2,size=d) if useq else np.zeros(d,int)
    Ds=[1]+[int(rng.integers(1,7)) for _ in range(L-1)]+[1]
    qD=[(rng.integers(-1,2,size=D) if useq else np.zeros(D,int)) for D in Ds]
    psi=ptn.MPS(qd,qD,fill='random',rng=rng)
    if np.linalg.norm(dense(psi.A))==0: continue
    # shape the spectrum: canonicalize then scale bonds
    psi.orthonormalize('left'); 
    kind=rng.choice(['asis','flat','stair','decay'])
    for i in range(L-1):
        D=psi.A[i].shape[2]
        s={'asis':np.ones(D),'flat':np.ones(D),'stair':2.0**(-(np.arange(D)//2)),'decay':np.exp(-3*np.arange(D))}[kind]
        psi.A[i]=psi.A[i]*s
    v0=dense(psi.A); n0=np.linalg.norm(v0)
    tol=float(rng.choice([0,1e-6,1e-3,0.01,0.05,0.1,0.19]))/L
    D0=psi.bond_dims
    nrm,sc=psi.compress(tol,mode); v1=dense(psi.A)
    ok=abs(nrm-n0)<=1e-10*n0 and abs(np.linalg.norm(v1)-1)<=1e-10 and all(a<=b for a,b in zip(psi.bond_dims,D0))
    ok&= np.sqrt(max(0,1-L*tol))-1e-10<=sc<=1+1e-10
    err2=np.linalg.norm(nrm*sc*v1-v0)**2/n0**2
    W['errid']=max(W['errid'],abs(err2-(1-sc**2))); ok&= abs(err2-(1-sc**2))<=1e-11 and err2<=L*tol+1e-11
    # first truncated bond
    cut=1 if mode=='left' else L-1
    sig=np.linalg.svd(v0.reshape(d**cut,-1),compute_uv=False); sig=sig[sig>1e-14*sig[0]]
    lo=kept_count(sig,tol+1e-12); hi=kept_count(sig,max(0,tol-1e-12))
    Dn=psi.bond_dims[cut]
    if tol==0: hi=max(hi,D0[cut])  # exact zeros only are dropped; numerical rank ambiguity
    if not (lo<=Dn<=hi): cnt['firstbond_out']+=1; print("first bond",mode,L,d,kind,tol,Dn,lo,hi,D0)
    cnt['c13']+=1; cnt['c13_bad']+=not ok
    if not ok: print("C13 BAD",mode,L,d,kind,tol,nrm,n0,sc,err2)
for t in range(600):
    d=int(rng.integers(2,4)); n=int(rng.integers(1,7 if d==2 else 5)); v=rng.normal(size=d**n)+1j*rng.normal(size=d**n)
    if rng.random()<.3: v=np.kron(rng.normal(size=d**(n//2)),rng.normal(size=d**(n-n//2)))+1e-3*v
    tol=float(rng.choice([0,1e-6,1e-3,0.01,0.1]))/max(n,1)
    m=ptn.MPS.from_vector(d,n,v,tol); e=np.linalg.norm(m.as_vector()-v)/np.linalg.norm(v)
    cnt['fv']+=1; cnt['fv_bad']+= not (e<=np.sqrt(n*tol)+1e-12)
# ---- C15: bounds, exactness at exhaustion, invariant subspaces
for t in range(2500):
    n=int(rng.integers(1,13)); m=int(rng.integers(1,n+6))
    kind=rng.choice(['gauss','degenerate','blockinv','rotinv'])
    if kind=='gauss': A=rng.normal(size=(n,n))+1j*rng.normal(size=(n,n)); A=(A+A.conj().T)/2; v=rng.normal(size=n)+1j*rng.normal(size=n)
    elif kind=='degenerate':
        U=np.linalg.qr(rng.normal(size=(n,n))+1j*rng.normal(size=(n,n)))[0]; ev=rng.integers(-2,3,size=n).astype(float); A=(U*ev)@U.conj().T; A=(A+A.conj().T)/2; v=rng.normal(size=n)+0j
    elif kind=='blockinv':
        k=int(rng.integers(1,n+1)); A=np.zeros((n,n),complex); B=rng.normal(size=(k,k)); A[:k,:k]=(B+B.T)/2
        if n>k: C=rng.normal(size=(n-k,n-k)); A[k:,k:]=(C+C.T)/2-10
        v=np.zeros(n,complex); v[:k]=rng.normal(size=k)
    else:
        U=np.linalg.qr(rng.normal(size=(n,n)))[0]; ev=np.sort(rng.normal(size=n)); A=(U*ev)@U.T; k=int(rng.integers(1,n+1)); idx=rng.choice(n,size=k,replace=False); v=U[:,idx]@rng.normal(size=k)+0j
    lam,X=np.linalg.eigh(A); sc=max(1,np.abs(lam).max()); rq=(v.conj()@A@v).real/(v.conj()@v).real
    w,u=ptn.eigh_krylov(lambda x:A@x,v,m,1)
    ok= lam[0]-1e-9*sc<=w[0]<=rq+1e-9*sc
    # krylov dimension (numerical): count distinct eigvals with overlap
    ov=np.abs(X.conj().T@v)/np.linalg.norm(v); reach=lam[ov>1e-8]
    kdim=len(np.unique(np.round(reach,9)))
    dtc=(rng.normal()+1j*rng.normal())*0.5
    if m>=kdim:
        if kind in('gauss','degenerate','blockinv'): 
            tgt=reach.min(); ok&= w[0]<=tgt+1e-8*sc
            if kind=='blockinv': ok&= w[0]>=tgt-1e-8*sc
        y=ptn.expm_krylov(lambda x:A@x,v,dtc,m,hermitian=True); ref=expm(dtc*A)@v
        W['expm_h']=max(W['expm_h'],np.linalg.norm(y-ref)/np.linalg.norm(ref)); ok&= np.linalg.norm(y-ref)<=1e-9*np.linalg.norm(ref)
        if m>=n:
            y2=ptn.expm_krylov(lambda x:A@x,v,dtc,m,hermitian=False)
            W['expm_g']=max(W['expm_g'],np.linalg.norm(y2-ref)/np.linalg.norm(ref)); ok&= np.linalg.norm(y2-ref)<=1e-9*np.linalg.norm(ref)
    y=ptn.expm_krylov(lambda x:A@x,v,1j*rng.normal(),m,hermitian=True); W['unit']=max(W['unit'],abs(np.linalg.norm(y)/np.linalg.norm(v)-1)); ok&= abs(np.linalg.norm(y)/np.linalg.norm(v)-1)<=1e-9
    cnt['c15']+=1; cnt['c15_bad']+=not ok
    if not ok and cnt['c15_bad']<6: print("C15 BAD",kind,n,m,kdim,w[0],lam[0],rq)
print(dict(cnt)); print(dict(W))
