import numpy as np, warnings, copy
import pytenet as ptn
from pytenet.operation import contraction_operator_step_left, contraction_operator_step_right
warnings.simplefilter("ignore")
rng=np.random.default_rng(43)
def dense(A):
    v=np.ones((1,1),dtype=complex)
    for T in A: v=np.einsum('pa,sab->psb',v,T).reshape(-1,T.shape[2])
    return v.reshape(-1)
worst=0
for t in range(200):
    L=int(rng.integers(1,6)); d=int(rng.integers(1,4))
    qd=rng.integers(-1,2,size=d)
    qDp=[rng.integers(-1,2,size=1)]+[rng.integers(-1,2,size=rng.integers(1,5)) for _ in range(L-1)]+[rng.integers(-1,2,size=1)]
    qDo=[rng.integers(-1,2,size=1)]+[rng.integers(-1,2,size=rng.integers(1,4)) for _ in range(L-1)]+[rng.integers(-1,2,size=1)]
    psi=ptn.MPS(qd,qDp,fill='random',rng=rng); op=ptn.MPO(qd,qDo,fill='random',rng=rng)
    # use dense (ignore sparsity: make them generic)
    psi.A=[ptn.crandn(a.shape,rng) for a in psi.A]; op.A=[ptn.crandn(a.shape,rng) for a in op.A]
    Hm=op.as_matrix()
    BR=ptn.compute_right_operator_blocks(psi,op)
    BL=[np.array([[[1]]],dtype=complex)]
    for i in range(L-1): BL.append(contraction_operator_step_left(psi.A[i],psi.A[i],op.A[i],BL[i]))
    for i in range(L):
        X=ptn.crandn(psi.A[i].shape,rng); Y=ptn.crandn(psi.A[i].shape,rng)
        lhs=np.vdot(Y, ptn.apply_local_hamiltonian(BL[i],BR[i],op.A[i],X))
        pX=copy.deepcopy(psi); pX.A[i]=X; pY=copy.deepcopy(psi); pY.A[i]=Y
        rhs=np.vdot(dense(pY.A), Hm@dense(pX.A))
        worst=max(worst,abs(lhs-rhs)/max(1,abs(rhs)))
    # bond
    for i in range(L-1):
        Dm=psi.A[i].shape[2]
        C=ptn.crandn((Dm,Dm),rng); C2=ptn.crandn((Dm,Dm),rng)
        lhs=np.vdot(C2, ptn.apply_local_bond_contraction(BL[i+1],BR[i],C))
        def withC(Cm):
            p=copy.deepcopy(psi); p.A[i+1]=np.einsum('ab,sbc->sac',Cm,p.A[i+1]); return dense(p.A)
        rhs=np.vdot(withC(C2),Hm@withC(C))
        worst=max(worst,abs(lhs-rhs)/max(1,abs(rhs)))
print("projection identity worst rel dev %.1e"%worst)
