import numpy as np, warnings, itertools, collections, time
import pytenet as ptn
warnings.simplefilter("ignore")
rng=np.random.default_rng(61)
def sector_ok(T,qs,signs):
    idx=np.nonzero(T); tot=0
    for ax,(q,s) in enumerate(zip(qs,signs)): tot=tot+s*np.asarray(q)[idx[ax]]
    return not np.any(tot)
W=collections.defaultdict(float); cnt=collections.Counter(); bad=collections.Counter()
def check_qr(A,q0,q1):
    A0=A.copy(); q00=q0.copy(); q10=q1.copy()
    Q,R,qi=ptn.qr(A,q0,q1)
    m,n=A.shape; k=Q.shape[1]
    ok = Q.shape==(m,k) and R.shape==(k,n) and len(qi)==k and 1<=k<=min(m,n)
    sc=max(1,np.abs(A).max())
    W['qr_rec']=max(W['qr_rec'],np.abs(Q@R-A).max()/sc); W['qr_orth']=max(W['qr_orth'],np.abs(Q.conj().T@Q-np.eye(k)).max())
    ok&= np.abs(Q@R-A).max()<=1e-12*sc and np.abs(Q.conj().T@Q-np.eye(k)).max()<=1e-12
    ok&= sector_ok(Q,[q0,qi],[1,-1]) and sector_ok(R,[qi,q1],[1,-1])
    ok&= np.array_equal(A,A0) and np.array_equal(q0,q00) and np.array_equal(q1,q10)
    ok&= not np.shares_memory(Q,A) and not np.shares_memory(R,A)
    if len(np.intersect1d(q0,q1))==0: ok&= (k==1 and not R.any())
    return ok
def check_svd(A,q0,q1,tol):
    A0=A.copy()
    u,s,v,q=ptn.split_matrix_svd(A,q0,q1,tol)
    nA=np.linalg.norm(A)
    if nA==0:
        return np.abs((u*s)@v).max()==0 if s.size else True
    k=len(s); ok= k>=1 and len(q)==k and np.all(s>0)
    ok&= np.abs(u.conj().T@u-np.eye(k)).max()<=1e-12 and np.abs(v@v.conj().T-np.eye(k)).max()<=1e-12
    ok&= sector_ok(u,[q0,q],[1,-1]) and sector_ok(v,[q,q1],[1,-1]) and np.array_equal(A,A0)
    sig=np.linalg.svd(A,compute_uv=False); sig=np.sort(sig)[::-1]
    kept=np.sort(s)[::-1]
    W['svd_vals']=max(W['svd_vals'],np.abs(kept-sig[:k]).max()/sig[0])
    ok&= np.abs(kept-sig[:k]).max()<=1e-12*sig[0]
    err2=np.linalg.norm((u*s)@v-A)**2; disc2=(sig[k:]**2).sum()
    W['svd_errid']=max(W['svd_errid'],abs(err2-disc2)/nA**2); ok&= abs(err2-disc2)<=1e-12*nA**2
    wdisc=disc2/nA**2; sl=1e-12
    ok&= wdisc<=tol+sl
    ok&= (wdisc+sig[k-1]**2/nA**2 > tol-sl)
    if tol==0: ok&= np.abs((u*s)@v-A).max()<=1e-12*max(1,np.abs(A).max())
    return ok
t0=time.time()
# exhaustive small scope
for m in range(1,4):
  for n in range(1,4):
    for qs in itertools.product(range(3),repeat=m+n):
        q0=np.array(qs[:m]); q1=np.array(qs[m:])
        mask=np.equal.outer(q0,q1)
        for kind in ('full','real','deficient','zero'):
            if kind=='full': A=np.where(mask,rng.normal(size=(m,n))+1j*rng.normal(size=(m,n)),0)
            elif kind=='real': A=np.where(mask,rng.normal(size=(m,n)),0.0)
            elif kind=='deficient': A=np.where(mask,np.outer(rng.normal(size=m),rng.normal(size=n)),0.0)
            else: A=np.zeros((m,n))
            cnt['qr']+=1
            if not check_qr(A,q0,q1): bad[('qr',m,n,qs,kind)]+=1
            for tol in (0.0,0.1,0.5):
                cnt['svd']+=1
                try:
                    if not check_svd(A,q0,q1,tol): bad[('svd',m,n,qs,kind,tol)]+=1
                except Exception as e: bad[('svdexc',type(e).__name__,str(e)[:40],kind)]+=1
print("exhaustive done %.1fs"%(time.time()-t0),dict(cnt),"bad",len(bad)); 
for k in list(bad)[:8]: print(k,bad[k])
# hostile random
for t in range(4000):
    m,n=int(rng.integers(1,25)),int(rng.integers(1,25))
    lay=rng.choice(['zero','sorted','unsorted','q0sorted','q1sorted','disjoint','big','pairs'])
    r=int(rng.integers(1,4))
    if lay=='zero': q0=np.zeros(m,int); q1=np.zeros(n,int)
    elif lay=='sorted': q0=np.sort(rng.integers(-r,r+1,size=m)); q1=np.sort(rng.integers(-r,r+1,size=n))
    elif lay=='q0sorted': q0=np.sort(rng.integers(-r,r+1,size=m)); q1=rng.integers(-r,r+1,size=n)
    elif lay=='q1sorted': q0=rng.integers(-r,r+1,size=m); q1=np.sort(rng.integers(-r,r+1,size=n))
    elif lay=='disjoint': q0=rng.integers(0,3,size=m); q1=rng.integers(5,8,size=n)
    elif lay=='big': q0=rng.integers(-2,3,size=m)*10**9; q1=rng.integers(-2,3,size=n)*10**9
    elif lay=='pairs': q0=(rng.integers(-1,2,size=m)<<16)+rng.integers(-1,2,size=m); q1=(rng.integers(-1,2,size=n)<<16)+rng.integers(-1,2,size=n)
    else: q0=rng.integers(-r,r+1,size=m); q1=rng.integers(-r,r+1,size=n)
    mask=np.equal.outer(q0,q1)
    A=np.where(mask,rng.normal(size=(m,n))+(1j*rng.normal(size=(m,n)) if rng.random()<.5 else 0),0)
    cnt['qr_r']+=1
    if not check_qr(A,q0,q1): bad[('qr_r',lay,m,n)]+=1
    tol=float(rng.choice([0,1e-8,1e-3,0.1,0.3,0.9]))
    cnt['svd_r']+=1
    if not check_svd(A,q0,q1,tol): bad[('svd_r',lay,m,n,tol)]+=1
print(dict(cnt),"bad",len(bad),dict(W))
for k in list(bad)[:8]: print(k,bad[k])
