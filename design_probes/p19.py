import numpy as np, warnings, copy, collections, traceback, sys
import pytenet as ptn
warnings.simplefilter("ignore")
rng=np.random.default_rng(53)
def graph_poly(g):
    polys={g.nid_terminal[0]:{():1.0}}; layer=[g.nid_terminal[0]]
    while layer:
        nxt=[]; newp=collections.defaultdict(dict)
        for nid in layer:
            for eid in g.nodes[nid].eids[1]:
                e=g.edges[eid]; tgt=e.nids[1]
                for w,c in polys[nid].items():
                    for oid,co in e.opics:
                        k=w+(int(oid),); newp[tgt][k]=newp[tgt].get(k,0)+c*co
                if tgt not in nxt: nxt.append(tgt)
        for k,v in newp.items(): polys[k]=v
        layer=nxt
    return {w:c for w,c in polys[g.nid_terminal[1]].items() if c!=0}
def padd(p,q):
    r=dict(p)
    for k,v in q.items(): r[k]=r.get(k,0)+v
    return {k:v for k,v in r.items() if v!=0}
# ---- trees
def rand_tree(rem,rng):
    """returns OpTreeNode of height<=rem and its polynomial (words of variable length)"""
    if rem==0 or rng.random()<0.25:
        return ptn.OpTreeNode([],0),{():1.0}
    nch=int(rng.integers(1,4)); node=ptn.OpTreeNode([],0); poly={}
    for _ in range(nch):
        child,cp=rand_tree(rem-1,rng); oid=int(rng.integers(0,3)); co=float(rng.choice([-1,.5,1,2]))
        node.add_child(ptn.OpTreeEdge(oid,co,child))
        for w,c in cp.items(): poly[(oid,)+w]=poly.get((oid,)+w,0)+co*c
    return node,poly
cnt=collections.Counter()
for t in range(3000):
    L=int(rng.integers(1,6)); ntree=int(rng.integers(1,4)); trees=[]; ref={}
    for _ in range(ntree):
        ist=int(rng.integers(0,L)); root,poly=rand_tree(L-ist,rng)
        if not root.children: continue
        trees.append(ptn.OpTree(root,ist))
        for w,c in poly.items():
            full=(0,)*ist+w+(0,)*(L-ist-len(w)); ref[full]=ref.get(full,0)+c
    if not trees: continue
    ref={k:v for k,v in ref.items() if v!=0}
    try:
        g=ptn.OpGraph.from_optrees(trees,L,0)
        ok=g.is_consistent() and g.length==L and graph_poly(g)==ref
        cnt['tree_ok' if ok else 'tree_bad']+=1
        if not ok and cnt['tree_bad']<3: print("TREE BAD",L,[(tr.istart,tr.height()) for tr in trees],graph_poly(g),ref,g.length)
    except Exception as e:
        cnt[('tree_exc',type(e).__name__,str(e)[:50])]+=1
        if cnt[('tree_exc',type(e).__name__,str(e)[:50])]==1: traceback.print_exc(limit=5)
# ---- automata
for t in range(3000):
    nn=int(rng.integers(2,6)); L=int(rng.integers(1,6))
    nodes=[ptn.AutOpNode(i,[],[],0) for i in range(nn)]
    au=ptn.AutOp(nodes,[],[0,1])
    ne=int(rng.integers(1,9)); espec=[]
    for e in range(ne):
        a,b=int(rng.integers(0,nn)),int(rng.integers(0,nn))
        kind=rng.integers(0,3)
        base=[(int(rng.integers(0,3)),float(rng.choice([-1,.5,1,2])))]
        if kind==0: opics=base; act=True; f_op=lambda i,base=base: base; f_act=lambda i: True
        elif kind==1:
            par=int(rng.integers(0,2)); opics=base; act=(lambda i,par=par: i%2==par); f_op=lambda i,base=base: base; f_act=act
        else:
            opics=(lambda i,base=base: [(base[0][0],base[0][1]*(i+1))]); act=True; f_op=opics; f_act=lambda i: True
        au.add_connect_edge(ptn.AutOpEdge(e,[a,b],opics,act)); espec.append((a,b,f_op,f_act))
    # own DP
    polys={0:{():1.0}}
    for i in range(L):
        new=collections.defaultdict(dict)
        for (a,b,f_op,f_act) in espec:
            if a in polys and f_act(i):
                for w,c in polys[a].items():
                    for oid,co in f_op(i):
                        k=w+(oid,); new[b][k]=new[b].get(k,0)+c*co
        polys=new
    ref={k:v for k,v in polys.get(1,{}).items()}
    npaths=len(polys.get(1,{}))
    if npaths==0: cnt['aut_nopath']+=1; continue
    ref={k:v for k,v in ref.items() if v!=0}
    try:
        g=ptn.OpGraph.from_automaton(au,L)
        ok=g.is_consistent() and g.length==L and graph_poly(g)==ref
        cnt['aut_ok' if ok else 'aut_bad']+=1
        if not ok and cnt['aut_bad']<3: print("AUT BAD",L,graph_poly(g),ref)
    except Exception as e:
        cnt[('aut_exc',type(e).__name__,str(e)[:50])]+=1
        if cnt[('aut_exc',type(e).__name__,str(e)[:50])]==1: traceback.print_exc(limit=5)
print(cnt)
# ---- sys.monitoring probe
mon=sys.monitoring; TID=mon.PROFILER_ID
mon.use_tool_id(TID,"pvm")
import pytenet.bipartite_graph as bg
counts=collections.Counter(); lines=set()
def on_start(code,off):
    if code.co_filename.endswith("bipartite_graph.py"): counts[code.co_qualname]+=1
    else: return mon.DISABLE
def on_line(code,line):
    if code.co_filename.endswith("bipartite_graph.py"): lines.add(line)
    return mon.DISABLE
mon.register_callback(TID,mon.events.PY_START,on_start); mon.register_callback(TID,mon.events.LINE,on_line)
mon.set_events(TID,mon.events.PY_START|mon.events.LINE)
g=ptn.BipartiteGraph(4,4,[(0,0),(0,1),(1,0),(2,2),(3,2),(3,3)]); print(ptn.minimum_vertex_cover(g))
mon.set_events(TID,0); mon.free_tool_id(TID)
print(dict(counts)); print("lines hit",len(lines))
