import numpy as np, warnings, copy, itertools
import pytenet as ptn, pytenet.minimization as pm
warnings.simplefilter("ignore")
rng=np.random.default_rng(11)
def rand_mps(qd,L,Dmax,rng,useq):
    qd=np.array(qd)
    if useq:
        qD=[np.array([0])]+[rng.integers(-2,3,size=rng.integers(1,Dmax+1)) for _ in range(L-1)]+[np.array([int(sum(rng.choice(qd,size=L)))])]
    else:
        qD=[np.zeros(1,int)]+[np.zeros(rng.integers(1,Dmax+1),int) for _ in range(L-1)]+[np.zeros(1,int)]
    return ptn.MPS(qd,qD,fill='random',rng=rng)
W={}
def upd(k,v): W[k]=max(W.get(k,-1e9),float(v))
orig=pm._minimize_local_energy
trace=[]
def wrapped(L_,R_,W_,A_,numiter):
    w,A=orig(L_,R_,W_,A_,numiter); trace.append(w); return w,A
pm._minimize_local_energy=wrapped
cnt=0
for trial in range(150):
    L=int(rng.integers(2,7)); useq=bool(rng.integers(0,2))
    m=rng.integers(0,3)
    H=[ptn.heisenberg_xxz_mpo, ptn.ising_mpo, ptn.heisenberg_xxz_mpo][m](L,*rng.normal(size=3))
    if not useq: H.zero_qnumbers()
    psi=rand_mps(H.qd,L,int(rng.integers(1,9)),rng,useq)
    v0=psi.as_vector(); n0=np.linalg.norm(v0)
    if n0<1e-12: continue
    cnt+=1
    Hm=H.as_matrix(); sc=max(1,np.linalg.norm(Hm,2))
    e_start=(v0.conj()@Hm@v0).real/n0**2
    # sector ground energy
    if useq:
        qs=np.array([sum(c) for c in itertools.product(H.qd,repeat=L)]); idx=np.where(qs==psi.qD[-1][0]-psi.qD[0][0])[0]
        emin=np.linalg.eigvalsh(Hm[np.ix_(idx,idx)])[0]
    else: emin=np.linalg.eigvalsh(Hm)[0]
    for alg in (1,2):
        for numiter in (2,3,5,25):
            p=copy.deepcopy(psi); trace.clear()
            ns=int(rng.integers(1,4))
            f=ptn.calculate_ground_state_local_singlesite if alg==1 else ptn.calculate_ground_state_local_twosite
            en=f(H,p,ns,numiter_lanczos=numiter)
            v=p.as_vector()
            upd(f'norm{alg}',abs(np.linalg.norm(v)-1))
            upd(f'consist{alg}_m{numiter}',abs((v.conj()@Hm@v).real-en[-1])/sc)
            upd(f'lower{alg}',(emin-min(trace))/sc)
            upd(f'upper{alg}',(max(trace)-e_start)/sc)
            upd(f'mono_local{alg}_m{numiter}',max([0]+list(np.diff(trace)))/sc)
            upd(f'mono_sweep{alg}',max([0]+list(np.diff(en)))/sc)
print(cnt)
for k in sorted(W): print(k,"%.2e"%W[k])
