import numpy as np, warnings, itertools
from scipy import sparse
import pytenet as ptn
warnings.simplefilter("ignore")
rng=np.random.default_rng(47)
def fock_ann(n):
    """annihilators a_0..a_{n-1} on 2^n, mode 0 most significant bit; sign = (-1)^(# occupied modes with index > i) (Z string to the right)"""
    dim=1<<n; ops=[]
    for i in range(n):
        bit=1<<(n-1-i); rows=[];cols=[];vals=[]
        for s in range(dim):
            if s&bit:
                lower=s&(bit-1)           # modes with index > i are the less significant bits
                sign=-1.0 if bin(lower).count('1')&1 else 1.0
                rows.append(s^bit); cols.append(s); vals.append(sign)
        ops.append(sparse.csr_matrix((vals,(rows,cols)),shape=(dim,dim)))
    return ops
# self-test CAR
a=fock_ann(4); I=sparse.identity(16)
for i in range(4):
    for j in range(4):
        assert abs((a[i]@a[j]+a[j]@a[i])).max()==0
        assert abs((a[i]@a[j].T+a[j].T@a[i]-(I if i==j else 0*I))).max()==0
def dev(M,R): 
    M=np.asarray(M.todense() if sparse.issparse(M) else M); R=np.asarray(R.todense() if sparse.issparse(R) else R)
    return np.abs(M-R).max()
# linear fermionic
for L in range(1,6):
    c=rng.normal(size=L)+1j*rng.normal(size=L); a=fock_ann(L)
    print("linferm L",L,"c: %.1e"%dev(ptn.linear_fermionic_mpo(c,'c').as_matrix(),sum(c[i]*a[i].T for i in range(L))),"a: %.1e"%dev(ptn.linear_fermionic_mpo(c,'a').as_matrix(),sum(c[i]*a[i] for i in range(L))))
# molecular
for L in range(2,6):
    t=rng.normal(size=(L,L))+1j*rng.normal(size=(L,L)); v=rng.normal(size=(L,L,L,L))+1j*rng.normal(size=(L,L,L,L)); a=fock_ann(L)
    Href=sum(t[i,j]*(a[i].T@a[j]) for i in range(L) for j in range(L))
    Href=Href+sum(0.5*v[i,j,k,l]*(a[i].T@a[j].T@a[l]@a[k]) for i in range(L) for j in range(L) for k in range(L) for l in range(L))
    print("mol L",L,"opt %.1e"%dev(ptn.molecular_hamiltonian_mpo(t,v,True).as_matrix(),Href), ("expl %.1e"%dev(ptn.molecular_hamiltonian_mpo(t,v,False).as_matrix(),Href)) if L>=4 else "")
# fermi hubbard: modes (site,up),(site,dn)
for L in range(1,4):
    t_,U,mu=rng.normal(size=3); a=fock_ann(2*L); n=[x.T@x for x in a]; I=sparse.identity(4**L)
    Href=0*I
    for i in range(L-1):
        for s in (0,1):
            Href=Href-t_*(a[2*i+s].T@a[2*i+2+s]+a[2*i+2+s].T@a[2*i+s])
    for i in range(L):
        Href=Href+U*((n[2*i]-0.5*I)@(n[2*i+1]-0.5*I))-mu*(n[2*i]+n[2*i+1])
    print("fermi L",L,"%.1e"%dev(ptn.fermi_hubbard_mpo(L,t_,U,mu).as_matrix(),Href))
# spin molecular
for L in range(2,4):
    t=rng.normal(size=(L,L)); v=rng.normal(size=(L,L,L,L)); a=fock_ann(2*L)
    Href=sum(t[i,j]*(a[2*i+s].T@a[2*j+s]) for i in range(L) for j in range(L) for s in (0,1))
    Href=Href+sum(0.5*v[i,j,k,l]*(a[2*i+s].T@a[2*j+u].T@a[2*l+u]@a[2*k+s]) for i in range(L) for j in range(L) for k in range(L) for l in range(L) for s in (0,1) for u in (0,1))
    print("spinmol L",L,"opt %.1e"%dev(ptn.spin_molecular_hamiltonian_mpo(t,v,True).as_matrix(),Href),"expl %.1e"%dev(ptn.spin_molecular_hamiltonian_mpo(t,v,False).as_matrix(),Href))
