import numpy as np, warnings, copy, time, itertools
import pytenet as ptn
warnings.simplefilter("ignore")
rng=np.random.default_rng(29)
def protect(obj):
    arrs=[]
    for a in list(obj.A)+[obj.qd]+list(obj.qD):
        a.flags.writeable=False; arrs.append(a)
    return arrs
H=ptn.heisenberg_xxz_mpo(4,1.,.5,.3); protect(H)
qD=[np.array([0]),np.array([1,-1,1]),np.array([0,2,-2,0]),np.array([1,-1,3]),np.array([0])]
psi=ptn.MPS(H.qd,qD,fill='random',rng=rng); chi=copy.deepcopy(psi); protect(chi)
p2=copy.deepcopy(psi); protect(p2)
ops={
 'add':lambda: p2+chi, 'sub':lambda: p2-chi, 'apply':lambda: ptn.apply_operator(H,p2), 'vdot':lambda: ptn.vdot(p2,chi),
 'avg':lambda: ptn.operator_average(p2,H), 'oip':lambda: ptn.operator_inner_product(chi,H,p2), 'H+H':lambda: H+H, 'H@H':lambda: H@H,
 'asmat':lambda: H.as_matrix(), 'asmat_sp':lambda: H.as_matrix(True), 'asvec':lambda: p2.as_vector(), 'dens':lambda: ptn.operator_density_average(H,H),
 'tdvp1':lambda: ptn.integrate_local_singlesite(H,copy.deepcopy(psi),0.1j,1,5), 'tdvp2':lambda: ptn.integrate_local_twosite(H,copy.deepcopy(psi),0.1j,1,5),
 'dmrg1':lambda: ptn.calculate_ground_state_local_singlesite(H,copy.deepcopy(psi),1,5),'dmrg2':lambda: ptn.calculate_ground_state_local_twosite(H,copy.deepcopy(psi),1,5),
 'qr':lambda: ptn.qr(np.asarray(H.A[1].reshape(-1,H.A[1].shape[3])), ptn.qnumber_flatten([H.qd,-H.qd,H.qD[1]]), H.qD[2]),
}
for k,f in ops.items():
    try: f(); print("ok",k)
    except Exception as e: print("EXC",k,type(e).__name__,e)
# psi read-only into in-place algorithms (should still work since arrays replaced?)
p3=copy.deepcopy(psi); protect(p3)
for k,f in {'orth':lambda: p3.orthonormalize('left'),'compress':lambda: p3.compress(1e-3)}.items():
    try: f(); print("ok inplace-on-readonly",k)
    except Exception as e: print("EXC inplace-on-readonly",k,type(e).__name__,e)
# HK exhaustive timing
t=time.time(); n=0
for mask in range(1<<12):
    edges=[(i//4,i%4) for i in range(12) if mask>>i&1]
    g=ptn.BipartiteGraph(3,4,edges); ptn.minimum_vertex_cover(g); n+=1
print("3x4 exhaustive",n,"in %.2fs"%(time.time()-t))
import sys; print(sys.version, hasattr(sys,'monitoring'))
