import numpy as np, warnings, copy, collections, hashlib
import pytenet as ptn
warnings.simplefilter("ignore")
rng=np.random.default_rng(71)
def reach(obj,seen=None,arrs=None,conts=None):
    if seen is None: seen=set(); arrs=[]; conts=[]
    if id(obj) in seen: return arrs,conts
    seen.add(id(obj))
    if isinstance(obj,np.ndarray): arrs.append(obj)
    elif isinstance(obj,(list,dict,set)):
        conts.append(obj)
        for x in (obj.values() if isinstance(obj,dict) else obj): reach(x,seen,arrs,conts)
    elif isinstance(obj,tuple):
        for x in obj: reach(x,seen,arrs,conts)
    elif hasattr(obj,'__dict__'):
        conts.append(obj); reach(vars(obj),seen,arrs,conts)
    return arrs,conts
def digest(obj):
    h=hashlib.sha256()
    def rec(o):
        if isinstance(o,np.ndarray): h.update(str((o.shape,o.dtype)).encode()); h.update(np.ascontiguousarray(o).tobytes())
        elif isinstance(o,dict):
            for k in sorted(o,key=repr): h.update(repr(k).encode()); rec(o[k])
        elif isinstance(o,(list,tuple)):
            h.update(b'['); [rec(x) for x in o]; h.update(b']')
        elif hasattr(o,'__dict__'): h.update(type(o).__name__.encode()); rec(vars(o))
        else: h.update(repr(o).encode())
    rec(obj); return h.hexdigest()
def aliases(res,ops):
    ra,rc=reach(res); out=[]
    for o in ops:
        oa,oc=reach(o)
        for a in ra:
            for b in oa:
                if np.shares_memory(a,b): out.append(('array',a.shape))
        ids={id(c) for c in oc}
        for c in rc:
            if id(c) in ids: out.append(('container',type(c).__name__))
    return out
L=4; H=ptn.heisenberg_xxz_mpo(L,0.7,1.3,0.4); H2=ptn.heisenberg_xxz_mpo(L,0.2,0.3,0.1)
qD=[np.array([0]),np.array([1,-1,1]),np.array([0,2,-2,0]),np.array([1,-1,3]),np.array([0])]
psi=ptn.MPS(H.qd,qD,fill='random',rng=rng); chi=ptn.MPS(H.qd,qD,fill='random',rng=rng)
p1=ptn.MPS([0,1],[np.array([2]),np.array([3])],fill='random',rng=rng); p1b=ptn.MPS([0,1],[np.array([2]),np.array([3])],fill='random',rng=rng)
o1=ptn.MPO([0,1],[np.array([2]),np.array([2])],fill='random',rng=rng); o1b=ptn.MPO([0,1],[np.array([2]),np.array([2])],fill='random',rng=rng)
chains=[ptn.OpChain([1,2],[0,0,0],0.5,0),ptn.OpChain([2],[0,0],1.5,1)]
g=ptn.OpGraph.from_opchains(chains,3,0); g2=ptn.OpGraph.from_opchains([ptn.OpChain([2,2],[0,0,0],2.0,1),ptn.OpChain([1,1],[0,0,0],0.5,0)],3,0)
opmap={0:np.eye(2),1:np.diag([1.,-1]),2:np.array([[0,1.],[1,0]])}
qd0=np.array([0,0])
cases={
 'psi+chi':(lambda: psi+chi,[psi,chi]), 'psi-chi':(lambda: psi-chi,[psi,chi]), 'L1 add':(lambda: p1+p1b,[p1,p1b]), 'L1 mpo add':(lambda: o1+o1b,[o1,o1b]),
 'H+H2':(lambda: H+H2,[H,H2]),'H-H2':(lambda: H-H2,[H,H2]),'H@H2':(lambda: H@H2,[H,H2]),'apply':(lambda: ptn.apply_operator(H,psi),[H,psi]),
 'from_opgraph':(lambda: ptn.MPO.from_opgraph(qd0,g,opmap,compute_nid_map=True),[qd0,g,opmap]),
 'from_opchains':(lambda: ptn.OpGraph.from_opchains(chains,3,0),[chains]),
 'identity':(lambda: ptn.MPO.identity(qd0,3),[qd0]),
 'MPS ctor':(lambda: ptn.MPS(psi.qd,psi.qD,fill='random',rng=rng),[psi]),
 'MPO ctor':(lambda: ptn.MPO(H.qd,H.qD,fill=1.0),[H]),
 'graph add':(lambda: copy.deepcopy(g).add(g2),[g2]),
}
for k,(f,ops) in cases.items():
    d0=[digest(o) for o in ops]; r=f(); d1=[digest(o) for o in ops]
    al=aliases(r,ops)
    # mutate result
    ra,_=reach(r)
    for a in ra:
        if a.flags.writeable and a.size: 
            try: a.fill(7)
            except Exception: pass
    d2=[digest(o) for o in ops]
    print(k,"unchanged",d0==d1,"aliases",al[:3],"after-mutation unchanged",d0==d2)
