import sys, subprocess, shutil, os, re
base='/tmp/probe/mut'
def run(name, file, old, new, probe, grep):
    p=os.path.join(base,file); s=open(p).read(); assert s.count(old)>=1,(name,'pattern not found')
    open(p,'w').write(s.replace(old,new,1))
    try:
        out=subprocess.run(['/venv/bin/python','-W','ignore',probe],env={**os.environ,'PYTHONPATH':base},capture_output=True,text=True,timeout=900).stdout
        lines=[l for l in out.splitlines() if re.search(grep,l)]
        print("==",name); print("\n".join(lines[:12]))
    finally:
        open(p,'w').write(s)
# (a) stale right block in two-site TDVP
run("tdvp2 stale BR after rightmost pair","pytenet/evolution.py","""        psi.A[i], psi.A[i+1], psi.qD[i+1] = split_mps_tensor(Am, psi.qd, psi.qd, [psi.qD[i], psi.qD[i+2]], 'left', tol=tol_split)
        # update the right blocks
        BR[i] = contraction_operator_step_right(psi.A[i+1], psi.A[i+1], H.A[i+1], BR[i+1])

        # sweep from right to left""","""        psi.A[i], psi.A[i+1], psi.qD[i+1] = split_mps_tensor(Am, psi.qd, psi.qd, [psi.qD[i], psi.qD[i+2]], 'left', tol=tol_split)

        # sweep from right to left""","p6.py",r"^(en2|norm2|en1|norm1|rev1 )")
# (b) wrong fraction of the bond back step
run("tdvp1 bond step -0.5*dt -> -dt","pytenet/evolution.py","C = _local_bond_step(BL[i+1], BR[i], C, -0.5*dt, numiter_lanczos)","C = _local_bond_step(BL[i+1], BR[i], C, -dt, numiter_lanczos)","p6.py",r"^(en1|norm1|rev1)")
run("tdvp1 bond step -0.5*dt -> -dt (exactness)","pytenet/evolution.py","C = _local_bond_step(BL[i+1], BR[i], C, -0.5*dt, numiter_lanczos)","C = _local_bond_step(BL[i+1], BR[i], C, -dt, numiter_lanczos)","p4.py",r"EXACT FAIL|exact1")
# (c) DMRG: start Lanczos from random vector
run("dmrg random start","pytenet/minimization.py","            Astart.reshape(-1), numiter, 1)","            np.random.default_rng(0).normal(size=Astart.size) + 0j, numiter, 1)","p7.py",r"^(upper|mono|consist1_m2 |lower)")
# (d) DMRG: skip the final normalisation (expected: undetectable, equivalent)
run("dmrg1 skip final normalisation","pytenet/minimization.py","""        psi.A[0], _, psi.qD[0] = local_orthonormalize_right_qr(
                                psi.A[0], np.array([[[1]]]), psi.qd, psi.qD[:2])

        # record energy after each sweep
        en_min[n] = en

    return en_min


def calculate_ground_state_local_twosite""","""        # record energy after each sweep
        en_min[n] = en

    return en_min


def calculate_ground_state_local_twosite""","p7.py",r"^(norm1|consist1_m2 )")
