import numpy as np, warnings, copy, itertools
import pytenet as ptn
warnings.simplefilter("ignore")
rng=np.random.default_rng(23)
def full_mps(qd, L, qtot, rng):
    qd=np.array(qd)
    qD=[np.array([0])]
    for i in range(L-1):
        qD.append(np.sort(np.array([q+qd for q in qD[-1]]).reshape(-1)))
    qD.append(np.array([qtot]))
    psi=ptn.MPS(qd,qD,fill='random',rng=rng)
    psi.orthonormalize('left'); psi.orthonormalize('right')
    return psi
for (name,mk,qd) in [("bose3",lambda L:ptn.bose_hubbard_mpo(3,L,0.7,1.3,0.4),[0,1,2]),("xxz",lambda L:ptn.heisenberg_xxz_mpo(L,0.7,1.3,0.4),[1,-1])]:
  for L in [2,3,4,5]:
    H=mk(L); Hm=H.as_matrix()
    qs=np.array([sum(c) for c in itertools.product(qd,repeat=L)])
    for qtot in sorted(set(qs)):
        idx=np.where(qs==qtot)[0]; emin=np.linalg.eigvalsh(Hm[np.ix_(idx,idx)])[0]
        psi=full_mps(qd,L,qtot,rng)
        out=[]
        for alg in (1,2):
            for ns in (1,2,6):
                p=copy.deepcopy(psi)
                f=ptn.calculate_ground_state_local_singlesite if alg==1 else ptn.calculate_ground_state_local_twosite
                en=f(H,p,ns,numiter_lanczos=300)
                out.append("%.0e"%abs(en[-1]-emin))
        print(name,L,qtot,psi.bond_dims[1:-1],"1site(1,2,6 sweeps) 2site(1,2,6):",out)
# no qnumbers
for L in [2,3,4,5,6]:
    H=ptn.heisenberg_xxz_mpo(L,0.7,1.3,0.4); H.zero_qnumbers(); Hm=H.as_matrix(); emin=np.linalg.eigvalsh(Hm)[0]
    D=[min(2**i,2**(L-i)) for i in range(L+1)]
    psi=ptn.MPS(H.qd,[np.zeros(Di,int) for Di in D],fill='random',rng=rng)
    out=[]
    for alg in (1,2):
        for ns in (1,2):
            p=copy.deepcopy(psi)
            f=ptn.calculate_ground_state_local_singlesite if alg==1 else ptn.calculate_ground_state_local_twosite
            en=f(H,p,ns,numiter_lanczos=300); out.append("%.0e"%abs(en[-1]-emin))
    print("noq",L,out)
