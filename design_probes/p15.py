import numpy as np, warnings, copy, itertools, collections
from scipy.linalg import expm
import pytenet as ptn
warnings.simplefilter("ignore")
rng=np.random.default_rng(37)
def full_mps(qd, L, qtot, rng):
    qd=np.array(qd)
    qD=[np.array([0])]
    for i in range(L-1):
        qD.append(np.sort(np.array([q+qd for q in qD[-1]]).reshape(-1)))
    qD.append(np.array([qtot]))
    psi=ptn.MPS(qd,qD,fill='random',rng=rng)
    psi.orthonormalize('left'); psi.orthonormalize('right')
    return psi
def half_counts(qd,k):
    c=collections.Counter([0]) if k==0 else collections.Counter(sum(t) for t in itertools.product(qd,repeat=k))
    return c
def classify(psi):
    """E if every bond saturated on one side for all compatible blocks; M if complete but mixed; N if not complete"""
    qd=list(psi.qd); L=psi.nsites; q0=int(psi.qD[0][0]); qt=int(psi.qD[-1][0])
    cls='E'
    for k in range(1,L):
        nl=half_counts(qd,k); nr=half_counts(qd,L-k)
        blocks=collections.Counter(int(q)-q0 for q in psi.qD[k])   # charge accumulated on left
        allL=True; allR=True
        for q in nl:
            r=qt-q0-q
            if nr.get(r,0)==0: continue   # incompatible block
            D=blocks.get(q,0)
            if D!=min(nl[q],nr[r]): return 'N'
            if D!=nl[q]: allL=False
            if D!=nr[r]: allR=False
        if not (allL or allR): cls='M'
    return cls
res=collections.Counter()
for (name,mk,qd) in [("bose3",lambda L:ptn.bose_hubbard_mpo(3,L,0.7,1.3,0.4),[0,1,2]),("xxz",lambda L:ptn.heisenberg_xxz_mpo(L,0.7,1.3,0.4),[1,-1]),("xxz1",lambda L:ptn.heisenberg_xxz_spin1_mpo(L,0.7,1.3,0.4),[1,0,-1]),("fermi",lambda L:ptn.fermi_hubbard_mpo(L,0.7,1.3,0.4),None)]:
  for L in [2,3,4,5]:
    if name=="fermi" and L>4: continue
    H=mk(L); Hm=H.as_matrix(); qdl=[int(x) for x in H.qd]
    tots=sorted(set(sum(c) for c in itertools.product(qdl,repeat=L)))
    for qtot in tots:
        psi=full_mps(qdl,L,qtot,rng); v0=psi.as_vector()
        if np.linalg.norm(v0)==0: continue
        cl=classify(psi)
        for integ in (1,2):
            if integ==2 and L<2: continue
            errs=[]
            for dt in (0.2j,0.1j):
                p=copy.deepcopy(psi)
                (ptn.integrate_local_singlesite if integ==1 else ptn.integrate_local_twosite)(H,p,dt,1,numiter_lanczos=700)
                errs.append(np.linalg.norm(p.as_vector()-expm(-dt*Hm)@v0))
            exact=errs[0]<1e-10
            res[(cl,integ,exact)]+=1
            if cl=='E' and not exact: print("CLASS E INEXACT",name,L,qtot,integ,psi.bond_dims,errs)
            if cl=='N': print("N??",name,L,qtot,psi.bond_dims)
            if not exact:
                K=errs[0]/(0.2*np.linalg.norm(Hm,2))**3; ratio=errs[0]/errs[1]
                res[('ratio_ok',ratio>=3.5)]+=1; res[('K<=1',K<=1)]+=1
                if ratio<3.5 or K>1: print("M bound fail",name,L,qtot,integ,errs,K,ratio)
print(res)
