import numpy as np, traceback, warnings
import pytenet as ptn
def tryit(name, f):
    try:
        r = f(); print("OK  ", name, "->", r if r is not None else "")
    except Exception as e:
        print("FAIL", name, "->", type(e).__name__, str(e)[:120])
# F1
tryit("xxz L=1", lambda: ptn.heisenberg_xxz_mpo(1, 1.0, 0.5, 0.3).bond_dims)
tryit("xxz L=2 J=0 h=0", lambda: ptn.heisenberg_xxz_mpo(2, 0, 0.7, 0).bond_dims)
tryit("xxz L=2", lambda: ptn.heisenberg_xxz_mpo(2, 1.0, 0.7, 0.2).bond_dims)
tryit("xxz L=3 J=0,h=0", lambda: ptn.heisenberg_xxz_mpo(3, 0, 0.7, 0).bond_dims)
tryit("single chain coeff 2.5", lambda: ptn.OpGraph.from_opchains([ptn.OpChain([1],[0,0],2.5,0)], 3, 0).length)
tryit("single chain coeff 1.0", lambda: ptn.OpGraph.from_opchains([ptn.OpChain([1],[0,0],1.0,0)], 3, 0).length)
tryit("dup chains coeff .5+.5", lambda: ptn.OpGraph.from_opchains([ptn.OpChain([1],[0,0],0.5,0),ptn.OpChain([1],[0,0],0.5,0)], 3, 0).length)
tryit("two chains same last op", lambda: ptn.OpGraph.from_opchains([ptn.OpChain([1,2],[0,0,0],0.5,0),ptn.OpChain([2,2],[0,0,0],0.7,0)], 2, 0).length)
tryit("bose L=1", lambda: ptn.bose_hubbard_mpo(3,1,1.0,2.0,0.5).bond_dims)
tryit("bose d=1 L=3", lambda: ptn.bose_hubbard_mpo(1,3,1.0,2.0,0.5).bond_dims)
tryit("fermi L=1", lambda: ptn.fermi_hubbard_mpo(1,1.0,2.0,0.5).bond_dims)
tryit("ising L=1", lambda: ptn.ising_mpo(1,1.0,2.0,0.5).bond_dims)
tryit("ising L=2", lambda: ptn.ising_mpo(2,1.0,2.0,0.5).bond_dims)
tryit("ising L=3 J=0", lambda: ptn.ising_mpo(3,0.0,2.0,0.5).bond_dims)
tryit("linferm L=1", lambda: ptn.linear_fermionic_mpo([0.3],'c').bond_dims)
rng=np.random.default_rng(0)
for L in range(1,5):
    tryit(f"mol opt L={L}", lambda: ptn.molecular_hamiltonian_mpo(rng.normal(size=(L,L)), rng.normal(size=(L,L,L,L)), optimize=True).bond_dims)
for L in range(1,4):
    tryit(f"spinmol opt L={L}", lambda: ptn.spin_molecular_hamiltonian_mpo(rng.normal(size=(L,L)), rng.normal(size=(L,L,L,L)), optimize=True).bond_dims)
for L in range(2,7):
    tryit(f"spinmol explicit L={L}", lambda: ptn.spin_molecular_hamiltonian_mpo(rng.normal(size=(L,L)), rng.normal(size=(L,L,L,L)), optimize=False).bond_dims)
for L in range(4,8):
    tryit(f"mol explicit L={L}", lambda: ptn.molecular_hamiltonian_mpo(rng.normal(size=(L,L)), rng.normal(size=(L,L,L,L)), optimize=False).bond_dims)
# F3
def f3():
    v = rng.normal(size=8)
    m = ptn.MPS.from_vector(2,3,v)
    print([type(q) for q in m.qD])
    return m.orthonormalize()
tryit("from_vector then orthonormalize", f3)
def f3b():
    m = ptn.MPS.from_vector(2,3,rng.normal(size=8)); return m.compress(0.0)
tryit("from_vector then compress", f3b)
def f3c():
    m = ptn.MPS.from_vector(2,3,rng.normal(size=8)); m2 = ptn.MPS.from_vector(2,3,rng.normal(size=8)); return (m+m2).bond_dims
tryit("from_vector add", f3c)
def f3d():
    m = ptn.MPS.from_vector(2,3,rng.normal(size=8)); return m.zero_qnumbers()
tryit("from_vector zero_qnumbers", f3d)
def f3e():
    m = ptn.MPS.from_vector(2,1,rng.normal(size=2)); return m.orthonormalize()
tryit("from_vector L=1 orth", f3e)
