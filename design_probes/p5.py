import numpy as np, warnings, copy, itertools
from scipy.linalg import expm
import pytenet as ptn
warnings.simplefilter("ignore")
rng=np.random.default_rng(5)
def full_mps(qd, L, qtot, rng):
    qd=np.array(qd)
    qD=[np.array([0])]
    for i in range(L-1):
        qD.append(np.sort(np.array([q+qd for q in qD[-1]]).reshape(-1)))
    qD.append(np.array([qtot]))
    psi=ptn.MPS(qd,qD,fill='random',rng=rng)
    psi.orthonormalize('left'); psi.orthonormalize('right')
    return psi
def generic_ranks(qd,L,qtot,rng):
    d=len(qd)
    qs=np.array([sum(c) for c in itertools.product(qd,repeat=L)])
    v=np.where(qs==qtot, rng.normal(size=d**L),0)
    return [np.linalg.matrix_rank(v.reshape(d**c,d**(L-c))) for c in range(1,L)], int((qs==qtot).sum())
for (name,mk,qd) in [("bose3",lambda L:ptn.bose_hubbard_mpo(3,L,0.7,1.3,0.4),[0,1,2]),("xxz",lambda L:ptn.heisenberg_xxz_mpo(L,0.7,1.3,0.4),[1,-1]),("xxz1",lambda L:ptn.heisenberg_xxz_spin1_mpo(L,0.7,1.3,0.4),[1,0,-1])]:
  for L in [2,3,4,5]:
    H=mk(L); Hm=H.as_matrix()
    tots=sorted(set(sum(c) for c in itertools.product(qd,repeat=L)))
    for qtot in tots:
        psi=full_mps(qd,L,qtot,rng)
        v0=psi.as_vector()
        gr,sd=generic_ranks(qd,L,qtot,rng)
        errs=[]
        for dt in (0.2j,0.1j):
            p=copy.deepcopy(psi)
            ptn.integrate_local_singlesite(H,p,dt,1,numiter_lanczos=300)
            ref=expm(-dt*Hm)@v0
            errs.append(np.linalg.norm(p.as_vector()-ref))
        flag = "" if errs[0]<1e-10 else "  <-- INEXACT ratio %.2f"%(errs[0]/errs[1])
        print(name,L,"qtot",qtot,"sector dim",sd,"bond",psi.bond_dims[1:-1],"generic",gr,"err %.1e"%errs[0],flag)
