import numpy as np, warnings, copy, itertools, collections
import pytenet as ptn, pytenet.evolution as pe
warnings.simplefilter("ignore")
rng=np.random.default_rng(41)
# ---- (2) Paige indicator guard for Lanczos
def indicator(al,be):
    k=len(al); worst=np.inf
    T=np.diag(al)+np.diag(be,1)+np.diag(be,-1)
    nT=max(np.abs(np.linalg.eigvalsh(T)).max(),1e-300)
    for j in range(1,k):   # leading j x j, coupling beta[j-1]
        w,s=np.linalg.eigh(T[:j,:j])
        worst=min(worst,(be[j-1]*np.abs(s[-1,:])).min()/nT)
    return worst
rows=[]
for (n,m) in [(4,4),(8,8),(10,10),(16,16),(24,24),(32,32),(64,64),(64,20),(200,24),(200,60),(300,24)]:
    for t in range(20):
        A=rng.normal(size=(n,n))+1j*rng.normal(size=(n,n)); A=(A+A.conj().T)/np.sqrt(n)
        v=rng.normal(size=n)+1j*rng.normal(size=n)
        al,be,V=ptn.lanczos_iteration(lambda x:A@x,v,m); k=len(al)
        orth=np.abs(V.conj().T@V-np.eye(k)).max()
        T=np.diag(al)+np.diag(be,1)+np.diag(be,-1)
        rec=np.abs(A@V[:,:k-1]-V@T[:,:k-1]).max() if k>1 else 0
        loc=max([abs(np.vdot(V[:,j],V[:,j+1])) for j in range(k-1)]+[0])
        rows.append((n,m,indicator(al,be),orth,rec,loc))
rows=np.array(rows)
cond=rows[:,2]>=1e-5
print("conditioned cases",cond.sum(),"max orth in conditioned %.1e"%rows[cond,3].max(), " min orth in unconditioned %.1e max %.1e"%(rows[~cond,3].min(),rows[~cond,3].max()))
print("recurrence max overall %.1e  local orth max %.1e"%(rows[:,4].max(),rows[:,5].max()))
for nm in [(16,16),(24,24),(32,32),(200,60)]:
    sel=(rows[:,0]==nm[0])&(rows[:,1]==nm[1]); print(nm,"conditioned frac",cond[sel].mean(),"orth max %.1e"%rows[sel,3].max())
# ---- (5) TDVP trace at entry of each _local_hamiltonian_step
def dense(A):
    v=np.ones((1,1),dtype=complex)
    for T in A: v=np.einsum('pa,sab->psb',v,T).reshape(-1,T.shape[2])
    return v.reshape(-1)
H=ptn.heisenberg_xxz_mpo(5,0.7,1.3,0.4); Hm=H.as_matrix()
qD=[np.array([0])]+[rng.integers(-2,3,size=4) for _ in range(4)]+[np.array([1])]
psi=ptn.MPS(H.qd,qD,fill='random',rng=rng)
trace=[]
orig=pe._local_hamiltonian_step
def wrapped(L,R,W,A,dt,numiter):
    v=dense(psi.A); trace.append((np.linalg.norm(v),(v.conj()@Hm@v).real)); return orig(L,R,W,A,dt,numiter)
pe._local_hamiltonian_step=wrapped
for f in (ptn.integrate_local_singlesite, ptn.integrate_local_twosite):
    trace.clear(); p=copy.deepcopy(psi); psi_ref=psi; psi=p
    f(H,p,0.3j,2,numiter_lanczos=3)
    tr=np.array(trace); print(f.__name__,"entries",len(tr),"norm dev %.1e"%np.abs(tr[:,0]-1).max(),"energy spread %.1e"%(tr[:,1].max()-tr[:,1].min()))
    psi=psi_ref
pe._local_hamiltonian_step=orig
# ---- (4) exact arithmetic retained_bond_indices
s=np.array([1.,1,1,1,2,2,2]); 
for tol in [0,1/32,1/16,3/32,2/16,4/16,5/16,8/16,12/16,15/16]:
    print(tol, ptn.retained_bond_indices(s.copy(),tol), end=" | ")
print()
