import numpy as np, warnings, copy, itertools
from scipy.linalg import expm
import pytenet as ptn
warnings.simplefilter("ignore")
rng=np.random.default_rng(7)
def rand_mps(qd,L,Dmax,rng,useq):
    qd=np.array(qd)
    if useq:
        qD=[np.array([0])]+[rng.integers(-2,3,size=rng.integers(1,Dmax+1)) for _ in range(L-1)]+[np.array([int(sum(rng.choice(qd,size=L)))])]
    else:
        qD=[np.zeros(1,int)]+[np.zeros(rng.integers(1,Dmax+1),int) for _ in range(L-1)]+[np.zeros(1,int)]
    return ptn.MPS(qd,qD,fill='random',rng=rng)
W={}
def upd(k,v):
    W[k]=max(W.get(k,0),float(v))
cnt=0
for trial in range(120):
    L=int(rng.integers(1,7))
    useq=bool(rng.integers(0,2))
    H=ptn.heisenberg_xxz_mpo(L,*rng.normal(size=3)) if L>=2 else ptn.ising_mpo(1,*rng.normal(size=3))
    if not useq or L<2: H.zero_qnumbers()
    psi=rand_mps(H.qd,L,6,rng,useq and L>=2)
    v0=psi.as_vector(); n0=np.linalg.norm(v0)
    if n0<1e-12: continue
    cnt+=1
    Hm=H.as_matrix()
    e0=(v0.conj()@Hm@v0).real/n0**2
    # conservation, small numiter
    for numiter in (1,2,3,25):
        for integ in (1,2):
            if integ==2 and L<2: continue
            p=copy.deepcopy(psi); dt=1j*rng.normal()*0.3; n=int(rng.integers(1,4))
            f=ptn.integrate_local_singlesite if integ==1 else ptn.integrate_local_twosite
            nrm=f(H,p,dt,n,numiter_lanczos=numiter)
            v=p.as_vector()
            upd(f'norm{integ}_m{numiter}',abs(np.linalg.norm(v)-1)); upd(f'en{integ}_m{numiter}',abs((v.conj()@Hm@v).real-e0)/max(1,np.linalg.norm(Hm,2))); upd(f'ret{integ}',abs(nrm-n0)/n0)
    # reversibility single-site, exact local
    p=copy.deepcopy(psi); dt=(rng.normal()+1j*rng.normal())*0.2; n=int(rng.integers(1,3))
    ptn.integrate_local_singlesite(H,p,dt,n,numiter_lanczos=500)
    nr2=ptn.integrate_local_singlesite(H,p,-dt,n,numiter_lanczos=500)
    upd('rev1',np.linalg.norm(nr2*p.as_vector()-v0/n0))
    p=copy.deepcopy(psi); dt=1j*rng.normal()*0.3
    ptn.integrate_local_singlesite(H,p,dt,n,numiter_lanczos=500)
    nr2=ptn.integrate_local_singlesite(H,p,-dt,n,numiter_lanczos=500)
    upd('rev1_imag',np.linalg.norm(p.as_vector()-v0/n0)); upd('rev1_imag_nrm',abs(nr2-1))
print(cnt); 
for k in sorted(W): print(k, "%.2e"%W[k])
