import numpy as np, warnings, copy, collections, traceback
import pytenet as ptn
warnings.simplefilter("ignore")
rng=np.random.default_rng(31)
def graph_poly(g, rev=False):
    polys={g.nid_terminal[0]:{():1.0}}; layer=[g.nid_terminal[0]]
    while layer:
        nxt=[]; newp=collections.defaultdict(dict)
        for nid in layer:
            for eid in g.nodes[nid].eids[1]:
                e=g.edges[eid]; tgt=e.nids[1]
                for w,c in polys[nid].items():
                    for oid,co in e.opics:
                        k=w+(int(oid),); newp[tgt][k]=newp[tgt].get(k,0)+c*co
                if tgt not in nxt: nxt.append(tgt)
        for k,v in newp.items(): polys[k]=v
        layer=nxt
    return {w:c for w,c in polys[g.nid_terminal[1]].items() if c!=0}
def rand_graph(L,rng,idbase=0):
    widths=[1]+[int(rng.integers(1,4)) for _ in range(L-1)]+[1]
    nid=idbase; layers=[]
    nodes=[]
    for w in widths:
        lay=[]
        for _ in range(w):
            nodes.append(ptn.OpGraphNode(nid,[],[],int(rng.integers(-1,2)))); lay.append(nid); nid+=int(rng.integers(1,3))
        layers.append(lay)
    g=ptn.OpGraph(nodes,[],[layers[0][0],layers[-1][0]])
    eid=int(rng.integers(0,5))
    for l in range(L):
        # ensure each node has in and out
        pairs=set()
        for a in layers[l]: pairs.add((a,int(rng.choice(layers[l+1]))))
        for b in layers[l+1]: pairs.add((int(rng.choice(layers[l])),b))
        pairs=list(pairs)
        for _ in range(int(rng.integers(0,3))): pairs.append((int(rng.choice(layers[l])),int(rng.choice(layers[l+1]))))
        for a,b in pairs:
            nop=int(rng.integers(1,3))
            opics=[(int(rng.integers(0,3)),float(rng.choice([-1,-.5,.5,1,2]))) for _ in range(nop)]
            g.add_connect_edge(ptn.OpGraphEdge(eid,[a,b],opics)); eid+=int(rng.integers(1,3))
    assert g.is_consistent()
    return g
def padd(p,q):
    r=dict(p)
    for k,v in q.items(): r[k]=r.get(k,0)+v
    return {k:v for k,v in r.items() if v!=0}
cnt=collections.Counter()
for t in range(3000):
    L=int(rng.integers(1,6))
    g=rand_graph(L,rng); p0=graph_poly(g)
    n0,e0=len(g.nodes),len(g.edges)
    try:
        g2=copy.deepcopy(g); g2.simplify()
        assert g2.is_consistent(); 
        if graph_poly(g2)!=p0: cnt['simplify_mismatch']+=1
        if len(g2.nodes)>n0 or len(g2.edges)>e0: cnt['simplify_grow']+=1
        h=rand_graph(L,rng,idbase=int(rng.integers(0,4))); ph=graph_poly(h); hs=copy.deepcopy(h)
        g3=copy.deepcopy(g); g3.add(h)
        assert g3.is_consistent()
        if graph_poly(g3)!=padd(p0,ph):
            cnt['add_mismatch']+=1
        if graph_poly(h)!=ph: cnt['add_touched_other']+=1
        g4=copy.deepcopy(g); g4.flip(); assert g4.is_consistent()
        if graph_poly(g4)!={tuple(reversed(k)):v for k,v in p0.items()}: cnt['flip_mismatch']+=1
        cnt['ok']+=1
    except Exception as e:
        cnt[('EXC',type(e).__name__,str(e)[:60])]+=1
        if cnt[('EXC',type(e).__name__,str(e)[:60])]==1: traceback.print_exc(limit=4)
print(cnt)
# Arnoldi
def ar(n,m):
    A=rng.normal(size=(n,n))+1j*rng.normal(size=(n,n)); v=rng.normal(size=n)+0j
    Hh,V=ptn.arnoldi_iteration(lambda x:A@x,v,m); k=V.shape[1]
    return k,np.abs(V.conj().T@V-np.eye(k)).max(),np.abs(V.conj().T@A@V-Hh).max(), np.abs(A@V[:,:k-1]-V@Hh[:,:k-1]).max() if k>1 else 0
for n,m in [(4,4),(16,16),(64,64),(200,30),(6,10)]:
    r=[ar(n,m) for _ in range(10)]; print("arnoldi",n,m,set(x[0] for x in r),"orth %.1e proj %.1e rec %.1e"%(max(x[1] for x in r),max(x[2] for x in r),max(x[3] for x in r)))
