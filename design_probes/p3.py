import numpy as np, warnings
import pytenet as ptn
rng=np.random.default_rng(2)
def schmidt_ranks(M, d, L, tol=1e-10):
    T = M.reshape([d]*L + [d]*L)
    # interleave (out_i, in_i)
    perm = [x for i in range(L) for x in (i, L+i)]
    T = T.transpose(perm)
    ranks=[]
    for c in range(1,L):
        X = T.reshape((d*d)**c, (d*d)**(L-c))
        s = np.linalg.svd(X, compute_uv=False)
        ranks.append(int((s > tol*s[0]).sum()))
    return ranks
def rep(name, mpo):
    d=len(mpo.qd); L=mpo.nsites
    M=np.asarray(mpo.as_matrix())
    r=schmidt_ranks(M,d,L)
    print(name, "bond", mpo.bond_dims[1:-1], "schmidt", r, "OK" if mpo.bond_dims[1:-1]==r else "DIFF")
for L in [2,3,4,5,6]:
    J,h,g = rng.normal(size=3)
    rep(f"ising L={L}", ptn.ising_mpo(L,J,h,g))
    rep(f"xxz L={L}", ptn.heisenberg_xxz_mpo(L,*rng.normal(size=3)))
    if L<=5: rep(f"xxz1 L={L}", ptn.heisenberg_xxz_spin1_mpo(L,*rng.normal(size=3)))
    if L<=5: rep(f"bose d=3 L={L}", ptn.bose_hubbard_mpo(3,L,*rng.normal(size=3)))
    if L<=4: rep(f"fermi L={L}", ptn.fermi_hubbard_mpo(L,*rng.normal(size=3)))
    rep(f"linferm L={L}", ptn.linear_fermionic_mpo(rng.normal(size=L),'c'))
    rep(f"mol opt L={L}", ptn.molecular_hamiltonian_mpo(rng.normal(size=(L,L)), rng.normal(size=(L,L,L,L)), True))
    if L<=4 : rep(f"spinmol opt L={L}", ptn.spin_molecular_hamiltonian_mpo(rng.normal(size=(L,L)), rng.normal(size=(L,L,L,L)), True))
rep("bose d=2 L=4", ptn.bose_hubbard_mpo(2,4,*rng.normal(size=3)))
rep("bose d=4 L=4", ptn.bose_hubbard_mpo(4,4,*rng.normal(size=3)))
